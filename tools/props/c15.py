"""
C15 — table.update / table.delete change exactly the rows the predicate selects; nothing changes
before execute().

proof      : lean/SqlframeModel/Props/C15.lean (C15_requalify, C15_sql_reading, C15_update, C15_delete, C15_null_pred,
             C15_no_excluded_middle, C15_no_pred, C15_lazy, C15_seq, C15_full over the regenerated Gen.Dml)
tie        : Gen.Dml regenerated from /repo on every run (tools/gen_c15.py), compared with the statement
             text the live builder produces, and the correspondence stream below:
             real sqlframe + DuckDB   vs   Impl/C15Dml.lean `stepCmd`   vs   the specification
search     : the same stream compares the implementation with the specification directly; targeted families
             (gen_tautology_cases: laws of two-valued logic over NULL rows; gen_subquery_cases: predicates with
             subqueries on a second table that shares column names; gen_spelling_cases: SQL text in spellings on
             which SQL lexers differ); failing cases are shrunk (statements, rows, predicate sub-terms, spellings)
spec check : which rows a predicate text selects is compared with PySpark's DataFrame.filter(text)
             (tools/oracle/c15_pyspark.json each run; live JVM through c15_spark.py in the thorough tier)
engine trap: DuckDB 1.2.2 mis-evaluates `WHERE [NOT] EXISTS (… outer <> inner …)` for a NULL outer value — see engine_trap
"""
from __future__ import annotations

import json
import os
import random
import typing as t

import exprs as X
import vlib
from vlib import Ctx, bag, log, lval, plain

ID = "C15"
LEVEL = "proof"
MODULES = ["SqlframeModel.Codec.C15", "SqlframeModel.Props.C15"]  # the codec is what the driver imports; the audit uses the last one
GEN = ["Dml"]
SOURCES = ["SqlframeModel/Props/C15.lean", "SqlframeModel/Lemmas/C15.lean", "SqlframeModel/Impl/C15Dml.lean"]

SCHEMAS = [
    {"k": "int", "z": "int", "s": "str"},
    {"k": "int", "z": "int"},
    {"k": "int", "z": "int", "y": "int", "s": "str"},
    {"k": "int", "z": "int", "s": "str", "t": "str", "b": "bool"},
    {"k": "int", "s": "str", "b": "bool"},
]
# the table `o` that subqueries inside predicates select from: shares some column names with the target
OTHER_SCHEMAS = [{"k": "int", "w": "int"}, {"k": "int", "z": "int", "w": "int"}, {"s": "str", "k": "int", "w": "int"}, {"w": "int", "v": "str"}]
PRED_STYLES = ["handle", "fcol", "mixed", "sql", "fexpr", "absent", "aliased", "const_py", "const_lit", "const_sql"]
TEXT_STYLES = ("sql", "fexpr", "const_sql")
# spellings of a SQL text on which SQL lexers differ (Spark SQL's reading is the specification's)
SPELLINGS = ["dq", "bt", "eqeq", "bang", "upper"]
# string values: column names (a double-quoted "s" is a string in Spark SQL, the column s elsewhere), a quote, a backslash
NAMEY_STR_POOL = [None, "", "a", "s", "t", "k", "a'b", "a\\b", "b"]
LIKE_POOL = ["a%", "%b", "_", "%", "a_", "ab", "", "%a%", "s"]
CONST_STYLES = ("const_py", "const_lit", "const_sql")
RHS_STYLES = ["handle", "fcol", "mixed", "literal"]

# ------------------------------------------------------------------------------------------------
# expressions with a reference style per column leaf: ("col", "<q>:<name>") with q in {cte, none}
# ------------------------------------------------------------------------------------------------


def tuple_(e: t.Any) -> t.Any:
    if isinstance(e, (list, tuple)):
        return tuple(tuple_(x) for x in e)
    return e


def qualify(e: tuple, style: str, rng: random.Random) -> tuple:
    """outer references get a reference style; references that already carry one (those inside a subquery:
    `none:` / `sub:`) keep it"""
    if e[0] == "col":
        if ":" in e[1]:
            return e
        q = {"handle": "cte", "fcol": "none", "sql": "none", "fexpr": "none", "aliased": "cte"}.get(style) or rng.choice(["cte", "none"])
        return ("col", f"{q}:{e[1]}")
    if e[0] in ("insub", "exists"):
        return force_bare(e)
    if e[0] == "inlist":
        return ("inlist", qualify(e[1], style, rng), list(e[2]))
    return tuple(qualify(x, style, rng) if isinstance(x, tuple) else x for x in e)


def force_bare(e: tuple) -> tuple:
    """a node that can only be written as SQL text (a subquery): every reference is bare or `o.`-qualified"""
    if e[0] == "col":
        return e if ":" in e[1] else ("col", "none:" + e[1])
    if e[0] == "inlist":
        return ("inlist", force_bare(e[1]), list(e[2]))
    return tuple(force_bare(x) if isinstance(x, tuple) else x for x in e)


def force_bare_all(e: t.Any) -> tuple:
    """the same expression written as SQL text: every reference bare (or `o.`-qualified inside a subquery)"""
    e = tuple_(e)
    if e[0] == "col":
        q, n = e[1].split(":", 1)
        return ("col", ("sub:" if q == "sub" else "none:") + n)
    if e[0] == "inlist":
        return ("inlist", force_bare_all(e[1]), list(e[2]))
    return tuple(force_bare_all(x) if isinstance(x, tuple) else x for x in e)


def has_kind(e: t.Any, kinds: t.Tuple[str, ...]) -> bool:
    e = tuple_(e)
    if not isinstance(e, tuple) or not e:
        return False
    if e[0] in kinds:
        return True
    if e[0] == "inlist":
        return has_kind(e[1], kinds)
    return any(has_kind(x, kinds) for x in e[1:] if isinstance(x, tuple))


def spell_str(v: str, sp: t.Dict[str, bool]) -> t.Tuple[str, str, bool]:
    """(text of the literal, characters between the quotes, double-quoted?).  A quote or a backslash inside the
    value is always written with a backslash escape (Spark SQL 3.5 reads 'a''b' as two adjacent literals)"""
    dq = bool(sp.get("dq"))
    quote = '"' if dq else "'"
    raw = v.replace("\\", "\\\\").replace(quote, "\\" + quote)
    return quote + raw + quote, raw, dq


def str_is_token(v: str, sp: t.Dict[str, bool]) -> bool:
    """is the literal spelled in a way whose reading depends on the lexer (double quotes, a backslash escape)?"""
    return bool(sp.get("dq")) or spell_str(v, sp)[1] != v


def qexpr(e: t.Any, text: bool = False, sp: t.Optional[t.Dict[str, bool]] = None) -> t.Any:
    """expression -> QExpr JSON; `text`: the expression is written as SQL text with the spellings `sp`"""
    e = tuple_(e)
    sp = sp or {}
    k = e[0]
    if k == "col":
        q, n = e[1].split(":", 1)
        return {"col": {"q": q, "n": n}}
    if k == "lit":
        v = e[1]
        if text and isinstance(v, str) and str_is_token(v, sp):
            _, raw, dq = spell_str(v, sp)
            return {"tok": {"raw": raw, "dq": dq}}
        return {"lit": {"v": lval(v)}}
    if k == "bin":
        return {"bin": {"op": e[1], "a": qexpr(e[2], text, sp), "b": qexpr(e[3], text, sp)}}
    if k in ("not", "neg", "isNull"):
        return {k: {"a": qexpr(e[1], text, sp)}}
    if k == "ite":
        return {"ite": {"c": qexpr(e[1], text, sp), "t": qexpr(e[2], text, sp), "e": qexpr(e[3], text, sp)}}
    if k == "inlist":
        return {"inList": {"a": qexpr(e[1], text, sp), "vs": [lval(v) for v in e[2]]}}
    if k == "like":
        return {"like": {"a": qexpr(e[1], text, sp), "pat": e[2]}}
    # a subquery is always SQL text; inside a Column it is an F.expr("…") in plain spelling
    if k == "insub":
        sp2 = sp if text else {}
        return {"inSub": {"a": qexpr(e[1], True, sp2), "sel": qexpr(e[2], True, sp2), "whr": qexpr(e[3], True, sp2)}}
    if k == "exists":
        return {"exists_": {"whr": qexpr(e[1], True, sp if text else {})}}
    raise ValueError(e)


def to_sql(e: t.Any, sp: t.Optional[t.Dict[str, bool]] = None) -> str:
    e = tuple_(e)
    sp = sp or {}
    up = (lambda w: w.upper()) if sp.get("upper") else (lambda w: w)
    kw = (lambda w: w) if not sp.get("lowerkw") else (lambda w: w.lower())
    k = e[0]
    if k == "col":
        q, n = e[1].split(":", 1)
        name = f"`{n}`" if sp.get("bt") else up(n)
        return f"o.{name}" if q == "sub" else name
    if k == "lit":
        v = e[1]
        if v is None:
            return "NULL"
        if isinstance(v, bool):
            return "TRUE" if v else "FALSE"
        if isinstance(v, int):
            return str(v) if v >= 0 else f"({v})"
        return spell_str(v, sp)[0]
    if k == "bin":
        sym = {"add": "+", "sub": "-", "mul": "*", "lt": "<", "le": "<=", "gt": ">", "ge": ">=", "eq": "==" if sp.get("eqeq") else "=", "ne": "!=" if sp.get("bang") else "<>", "and": "AND", "or": "OR", "nseq": "<=>"}[e[1]]
        return f"({to_sql(e[2], sp)} {kw(sym)} {to_sql(e[3], sp)})"
    if k == "not":
        return f"({kw('NOT')} {to_sql(e[1], sp)})"
    if k == "neg":
        return f"(-{to_sql(e[1], sp)})"
    if k == "isNull":
        return f"({to_sql(e[1], sp)} {kw('IS NULL')})"
    if k == "ite":
        return f"{kw('CASE WHEN')} {to_sql(e[1], sp)} {kw('THEN')} {to_sql(e[2], sp)} {kw('ELSE')} {to_sql(e[3], sp)} {kw('END')}"
    if k == "inlist":
        return f"({to_sql(e[1], sp)} {kw('IN')} ({', '.join(to_sql(('lit', v), {}) for v in e[2])}))"
    if k == "like":
        return f"({to_sql(e[1], sp)} {kw('LIKE')} {spell_str(e[2], {})[0]})"
    if k == "insub":
        return f"({to_sql(e[1], sp)} {kw('IN')} ({kw('SELECT')} {to_sql(e[2], sp)} {kw('FROM')} o {kw('WHERE')} {to_sql(e[3], sp)}))"
    if k == "exists":
        return f"{kw('EXISTS')} ({kw('SELECT')} 1 {kw('FROM')} o {kw('WHERE')} {to_sql(e[1], sp)})"
    raise ValueError(e)


def uses_backticks(p: dict) -> bool:
    return bool(p.get("sp", {}).get("bt")) and has_kind(p["e"], ("col",))


def pred_text(p: dict) -> str:
    """the SQL string handed to where=: fully parenthesised, or with the outer parentheses dropped"""
    txt = to_sql(p["e"], p.get("sp"))
    if p.get("lower"):
        txt = txt.lower()
    if not p.get("wrapped", True) and txt.startswith("(") and txt.endswith(")"):
        return txt[1:-1]
    return txt


def is_wrapped(txt: str) -> bool:
    """is the text one parenthesised expression (the opening parenthesis closes at the very end)?"""
    if not (txt.startswith("(") and txt.endswith(")")):
        return False
    depth = 0
    in_str = False
    for i, ch in enumerate(txt):
        if ch == "'":
            in_str = not in_str
        if in_str:
            continue
        if ch == "(":
            depth += 1
        elif ch == ")":
            depth -= 1
            if depth == 0 and i < len(txt) - 1:
                return False
    return True


def show_expr(e: t.Any) -> str:
    e = tuple_(e)
    k = e[0]
    if k == "col":
        q, n = e[1].split(":", 1)
        return f"tb[{n!r}]" if q == "cte" else f"F.col({n!r})"
    if k == "lit":
        return f"F.lit({e[1]!r})"
    if k == "bin":
        sym = {"add": "+", "sub": "-", "mul": "*", "lt": "<", "le": "<=", "gt": ">", "ge": ">=", "eq": "==", "ne": "!=", "and": "&", "or": "|", "nseq": "<=>"}[e[1]]
        return f"({show_expr(e[2])} {sym} {show_expr(e[3])})"
    if k == "not":
        return f"~{show_expr(e[1])}"
    if k == "neg":
        return f"-{show_expr(e[1])}"
    if k == "isNull":
        return f"{show_expr(e[1])}.isNull()"
    if k == "ite":
        return f"F.when({show_expr(e[1])}, {show_expr(e[2])}).otherwise({show_expr(e[3])})"
    if k == "inlist":
        return f"{show_expr(e[1])}.isin({', '.join(repr(v) for v in e[2])})"
    if k == "like":
        return f"{show_expr(e[1])}.like({e[2]!r})"
    if k in ("insub", "exists"):
        return f"F.expr({to_sql(e)!r})"
    return str(e)


# ------------------------------------------------------------------------------------------------
# generation
# ------------------------------------------------------------------------------------------------


class G(X.Gen):
    """the shared typed generator, plus the atoms it lacks: IN-lists, LIKE, boolean columns"""

    def atom(self) -> tuple:
        r = self.rng
        kinds = ["inlist"]
        if self.cols("str"):
            kinds += ["like", "inlist_s"]
        if self.cols("bool"):
            kinds += ["bool", "bool", "booleq"]
        k = r.choice(kinds)
        if k == "inlist":
            return ("inlist", self.int_expr(0) if r.random() < 0.8 else self.int_expr(1), r.sample([0, 1, 2, 3, -1, 5, None], r.choice([1, 2, 3])))
        if k == "inlist_s":
            return ("inlist", ("col", r.choice(self.cols("str"))), r.sample(["", "a", "b", "ab", "s", None], r.choice([1, 2])))
        if k == "like":
            return ("like", ("col", r.choice(self.cols("str"))), r.choice(LIKE_POOL))
        if k == "booleq":
            return ("bin", r.choice(["eq", "ne", "nseq"]), ("col", r.choice(self.cols("bool"))), ("lit", r.random() < 0.5))
        return ("col", r.choice(self.cols("bool")))

    def bool_expr(self, depth: int) -> tuple:
        if self.rng.random() < 0.22:
            return self.atom()
        return super().bool_expr(depth)

    def str_expr(self, depth: int) -> tuple:
        r = self.rng
        sc = self.cols("str")
        if sc and r.random() < 0.7:
            return ("col", r.choice(sc))
        return ("lit", r.choice(self.str_lits))

    str_lits: t.List[str] = ["", "a", "b"]


def gen_table(rng: random.Random, schema: t.Dict[str, str], max_rows: int = 6, namey: bool = False, null_row: bool = False) -> t.List[t.List[t.Any]]:
    pools = {"int": X.INT_POOL, "str": NAMEY_STR_POOL if namey else X.STR_POOL, "bool": [None, True, False]}
    n = rng.choice([0, 1, 2, 3, 4, 5, max_rows, max_rows])
    rows: t.List[t.List[t.Any]] = []
    for _ in range(n):
        if rows and rng.random() < 0.25:
            rows.append(list(rng.choice(rows)))  # duplicates
            continue
        rows.append([rng.choice(pools[k]) for k in schema.values()])
    if null_row:
        rows.insert(rng.randrange(len(rows) + 1), [None for _ in schema])
    return rows


def gen_subquery(rng: random.Random, schema: t.Dict[str, str], other: t.Dict[str, str]) -> tuple:
    """`a IN (SELECT sel FROM o WHERE whr)` / `EXISTS (SELECT 1 FROM o WHERE whr)`: inside, a bare name is o's column
    when o has one of that name and the target row's otherwise (a correlated reference); `o.c` is always o's"""

    def inner_ref(ty: str) -> t.Optional[tuple]:
        cands = [f"none:{c}" for c, k in other.items() if k == ty] + [f"sub:{c}" for c, k in other.items() if k == ty]
        cands += [f"none:{c}" for c, k in schema.items() if k == ty]  # shared names resolve inside; the rest are correlated
        return ("col", rng.choice(cands)) if cands else None

    def inner_int() -> tuple:
        ref = inner_ref("int")
        if ref is None or rng.random() < 0.25:
            return ("lit", rng.choice([0, 1, 2, 3]))
        return ref

    def inner_pred(depth: int) -> tuple:
        c = rng.random()
        if depth > 0 and c < 0.25:
            return ("bin", rng.choice(["and", "or"]), inner_pred(depth - 1), inner_pred(depth - 1))
        if c < 0.35:
            return ("lit", True)
        if c < 0.45:
            ref = inner_ref(rng.choice(["int", "str"])) or inner_int()
            return ("not", ("isNull", ref)) if rng.random() < 0.5 else ("isNull", ref)
        if c < 0.55 and inner_ref("str") is not None:
            return ("bin", rng.choice(["eq", "ne"]), inner_ref("str"), ("lit", rng.choice(["a", "b", ""])) if rng.random() < 0.5 else inner_ref("str"))
        a, b = inner_int(), inner_int()
        return ("bin", rng.choice(X.CMP), a, b)

    shape = rng.random()
    if shape < 0.3:
        node: tuple = ("exists", inner_pred(1))
    else:
        ty = rng.choice([k for k in ("int", "str") if any(v == k for v in other.values()) and any(v == k for v in schema.values())] or ["int"])
        outer = [c for c, k in schema.items() if k == ty]
        a: tuple = ("col", "none:" + rng.choice(outer)) if outer and rng.random() < 0.9 else ("lit", rng.choice([1, 2]) if ty == "int" else "a")
        sel = inner_ref(ty) or ("lit", 1)
        if ty == "int" and rng.random() < 0.2:
            sel = ("bin", rng.choice(["add", "sub"]), sel, ("lit", 1))
        node = ("insub", a, sel, inner_pred(1))
    node = avoid_engine_trap(node, other)
    if rng.random() < 0.25:
        node = ("not", node)
    return node


def _correlated(e: t.Any, other: t.Dict[str, str]) -> bool:
    """does the expression mention a bare name that the subquery's table does not have (an outer reference)?"""
    e = tuple_(e)
    if e[0] == "col":
        q, n = e[1].split(":", 1) if ":" in e[1] else ("none", e[1])
        return q != "sub" and n not in other
    return any(_correlated(x, other) for x in e[1:] if isinstance(x, tuple))


def engine_trap(e: t.Any, other: t.Dict[str, str], in_exists: bool = False, negated: bool = False) -> bool:
    """DuckDB 1.2.2 (engine, not sqlframe): `WHERE [NOT] EXISTS (SELECT … WHERE outer <> inner …)` takes a NULL outer
    value for distinct from everything (the same EXISTS in a SELECT list is right: `select …, EXISTS(…)` vs `where
    EXISTS(…)` disagree; so does `NOT (outer = inner)`).  Such predicates are not generated and not produced by shrinking."""
    e = tuple_(e)
    if not isinstance(e, tuple) or not e:
        return False
    if e[0] == "exists":
        return engine_trap(e[1], other, True, False)
    if e[0] == "not":
        return engine_trap(e[1], other, in_exists, not negated)
    if in_exists and e[0] == "bin" and (e[1] == "ne" or (negated and e[1] in ("eq", "nseq"))) and (_correlated(e[2], other) or _correlated(e[3], other)):
        return True
    if e[0] == "inlist":
        return engine_trap(e[1], other, in_exists, negated)
    return any(engine_trap(x, other, in_exists, negated) for x in e[1:] if isinstance(x, tuple))


def avoid_engine_trap(e: t.Any, other: t.Dict[str, str], in_exists: bool = False) -> tuple:
    """inside EXISTS, `outer <> inner` becomes `outer < inner` (see engine_trap; the generator puts no NOT around comparisons)"""
    e = tuple_(e)
    if e[0] == "exists":
        return ("exists", avoid_engine_trap(e[1], other, True))
    if in_exists and e[0] == "bin" and e[1] == "ne" and (_correlated(e[2], other) or _correlated(e[3], other)):
        return ("bin", "lt", e[2], e[3])
    if e[0] in ("col", "lit", "like"):
        return e
    if e[0] == "inlist":
        return ("inlist", avoid_engine_trap(e[1], other, in_exists), list(e[2]))
    return tuple(avoid_engine_trap(x, other, in_exists) if isinstance(x, tuple) else x for x in e)


def gen_pred(rng: random.Random, schema: t.Dict[str, str], style: t.Optional[str] = None, other: t.Optional[t.Dict[str, str]] = None, namey: bool = False) -> dict:
    style = style or rng.choice(PRED_STYLES)
    if style == "absent":
        return {"style": "absent"}
    if style in CONST_STYLES:
        # the whole predicate is a boolean constant: Python bool, F.lit(bool) or the SQL text TRUE / FALSE
        p = {"style": style, "e": ("lit", rng.random() < 0.35)}
        if style == "const_sql":
            p["lower"] = rng.random() < 0.5
        return p
    g = G(rng, schema)
    if namey:
        g.str_lits = ["a", "s", "t", "k", "a'b", "a\\b", "b"]
    e = g.bool_expr(rng.choice([0, 1, 2]))
    if rng.random() < 0.12:
        # a predicate that is NULL on every row / on rows with NULLs
        e = ("bin", "eq", ("col", rng.choice(list(schema))), ("lit", None))
    if other and rng.random() < 0.5:
        sub = gen_subquery(rng, schema, other)
        e = sub if rng.random() < 0.5 else ("bin", rng.choice(["and", "or"]), e, sub)
    p = {"style": style, "e": qualify(tuple_(e), style, rng)}
    if style == "sql":
        p["wrapped"] = rng.random() < 0.5
    if style in ("sql", "fexpr") and rng.random() < 0.3:
        p["sp"] = {k: True for k in SPELLINGS if rng.random() < 0.3}
    return p


def gen_sets(rng: random.Random, schema: t.Dict[str, str], style: t.Optional[str] = None) -> t.List[dict]:
    style = style or rng.choice(RHS_STYLES)
    g = G(rng, schema)
    keys = rng.sample(list(schema), rng.choice([1, 1, 2]))
    out = []
    for key in keys:
        ty = schema[key]
        if style == "literal" or ty == "bool":
            v = rng.choice([0, 1, 7, -1, None]) if ty == "int" else rng.choice(["", "a", "zz", None]) if ty == "str" else rng.choice([True, False, None])
            e: tuple = ("lit", v)
        else:
            e = g.int_expr(1) if ty == "int" else g.str_expr(0)
            e = qualify(tuple_(e), style, rng)
        out.append({"key": key, "key_style": rng.choice(["str", "handle", "fcol"]), "e": e, "alias": e[0] != "lit" and rng.random() < 0.06})
    return out


def gen_dml(rng: random.Random, schema: t.Dict[str, str], pred_style: t.Optional[str] = None, rhs_style: t.Optional[str] = None, kind: t.Optional[str] = None, other: t.Optional[t.Dict[str, str]] = None, namey: bool = False) -> dict:
    kind = kind or rng.choice(["update", "update", "delete"])
    if kind == "update":
        return {"k": "update", "sets": gen_sets(rng, schema, rhs_style), "pred": gen_pred(rng, schema, pred_style, other, namey)}
    return {"k": "delete", "pred": gen_pred(rng, schema, pred_style, other, namey)}


def gen_cmds(rng: random.Random, n_dml: int) -> t.List[t.Any]:
    # command order: mostly build;execute pairs, sometimes deferred / swapped / repeated executes
    cmds: t.List[t.Any] = []
    mode = rng.random()
    if mode < 0.7 or n_dml == 1:
        for i in range(n_dml):
            cmds += [["build", i], ["exec", i]]
        if rng.random() < 0.15:
            cmds.append(["exec", rng.randrange(n_dml)])  # executing a LazyExpression twice
    elif mode < 0.85:
        cmds = [["build", i] for i in range(n_dml)] + [["exec", i] for i in range(n_dml)]
    else:
        order = list(range(n_dml))
        rng.shuffle(order)
        cmds = [["build", i] for i in range(n_dml)] + [["exec", i] for i in order]
    return cmds


def gen_other(rng: random.Random, namey: bool = False) -> dict:
    schema = dict(rng.choice(OTHER_SCHEMAS))
    rows = gen_table(rng, schema, max_rows=4, namey=namey)
    if not rows and rng.random() < 0.7:
        rows = gen_table(rng, schema, max_rows=4, namey=namey)
    return {"schema": schema, "rows": rows}


def gen_case(rng: random.Random, n_dml: int, with_other: t.Optional[bool] = None, namey: t.Optional[bool] = None, **kw: t.Any) -> dict:
    schema = dict(rng.choice(SCHEMAS))
    namey = (rng.random() < 0.25) if namey is None else namey
    with_other = (rng.random() < 0.3) if with_other is None else with_other
    rows = gen_table(rng, schema, max_rows=6, namey=namey)
    c: t.Dict[str, t.Any] = {"schema": schema, "rows": rows}
    other = None
    if with_other:
        c["other"] = gen_other(rng, namey)
        other = c["other"]["schema"]
    c["dmls"] = [gen_dml(rng, schema, other=other, namey=namey, **kw) for _ in range(n_dml)]
    c["cmds"] = gen_cmds(rng, n_dml)
    c["reuse_handle"] = rng.random() < 0.5
    return c


# --- targeted families -----------------------------------------------------------------------------


def two_valued_identities(p: tuple, q: tuple, x: tuple) -> t.List[t.Tuple[str, tuple]]:
    """predicates built around `p` (`q`, integer `x`) by laws of TWO-valued logic / arithmetic; in SQL's three-valued
    logic they are NULL wherever p (x) is NULL, so any algebraic tidying of the predicate that relies on such a law
    (complement, idempotence through NOT, reflexivity of comparisons, annihilation) changes which rows are selected"""

    def n(a: tuple) -> tuple:
        return ("not", a)

    def b(op: str, a: tuple, c: tuple) -> tuple:
        return ("bin", op, a, c)

    return [
        ("p|~p", b("or", p, n(p))),
        ("~p|p", b("or", n(p), p)),
        ("~(p&~p)", n(b("and", p, n(p)))),
        ("~(~p&p)", n(b("and", n(p), p))),
        ("(p|~p)&q", b("and", b("or", p, n(p)), q)),
        ("(p&~p)|q", b("or", b("and", p, n(p)), q)),
        ("~(p&~p)&q", b("and", n(b("and", p, n(p))), q)),
        ("(p&q)|(p&~q)", b("or", b("and", p, q), b("and", p, n(q)))),
        ("(p|q)&(p|~q)", b("and", b("or", p, q), b("or", p, n(q)))),
        ("p|(~p&q)", b("or", p, b("and", n(p), q))),
        ("~~p", n(n(p))),
        ("~~~p", n(n(n(p)))),
        ("p&p", b("and", p, p)),
        ("p|p", b("or", p, p)),
        ("p&true", b("and", p, ("lit", True))),
        ("p|false", b("or", p, ("lit", False))),
        ("p|true", b("or", p, ("lit", True))),
        ("p&false", n(b("and", p, ("lit", False)))),
        ("p==p", b("eq", p, p)),
        ("p<=>p", b("nseq", p, p)),
        ("~(p!=p)", n(b("ne", p, p))),
        ("when(p,T,T)", ("ite", p, ("lit", True), ("lit", True))),
        ("when(p,T,~p)", ("ite", p, ("lit", True), n(p))),
        ("when(p,p,~p)", ("ite", p, p, n(p))),
        ("x==x", b("eq", x, x)),
        ("~(x!=x)", n(b("ne", x, x))),
        ("x>=x", b("ge", x, x)),
        ("~(x<x)", n(b("lt", x, x))),
        ("x<=>x", b("nseq", x, x)),
        ("x-x==0", b("eq", b("sub", x, x), ("lit", 0))),
        ("x*0==0", b("eq", b("mul", x, ("lit", 0)), ("lit", 0))),
        ("x+0==x", b("eq", b("add", x, ("lit", 0)), x)),
        ("x.isNull|x==x", b("or", ("isNull", x), b("eq", x, x))),
        ("x>1|x<=1", b("or", b("gt", x, ("lit", 1)), b("le", x, ("lit", 1)))),
        ("~(x>1)|~(x<=1)", b("or", n(b("gt", x, ("lit", 1))), n(b("le", x, ("lit", 1))))),
        ("x.isin(1)|~x.isin(1)", b("or", ("inlist", x, [1]), n(("inlist", x, [1])))),
        ("x.isin(1,None)|~x.isin(1,None)", b("or", ("inlist", x, [1, None]), n(("inlist", x, [1, None])))),
    ]


TAUT_SCHEMA = {"k": "int", "z": "int", "s": "str", "b": "bool"}


def taut_atoms(rng: random.Random) -> t.List[t.Tuple[str, tuple]]:
    g = G(rng, TAUT_SCHEMA)
    return [
        ("cmp", ("bin", rng.choice(X.CMP), ("col", "z"), ("lit", rng.choice([1, 2, 3])))),
        ("cmp2", ("bin", rng.choice(X.CMP), ("col", "k"), ("col", "z"))),
        ("strcmp", ("bin", rng.choice(["eq", "ne", "lt"]), ("col", "s"), ("lit", rng.choice(["a", "b"])))),
        ("isin", ("inlist", ("col", rng.choice(["k", "z"])), rng.sample([0, 1, 2, 3, 5], 2))),
        ("isin_s", ("inlist", ("col", "s"), ["a", "ab"])),
        ("like", ("like", ("col", "s"), rng.choice(["a%", "%b", "_"]))),
        ("boolcol", ("col", "b")),
        ("isnull", ("isNull", ("col", rng.choice(["k", "s", "b"])))),
        ("nseq", ("bin", "nseq", ("col", "k"), ("col", "z"))),
        ("composite", g.bool_expr(1)),
    ]


def gen_tautology_cases(rng: random.Random, n: int) -> t.List[dict]:
    cases = []
    pairs = []
    for an, p in taut_atoms(rng):
        for tn, _ in two_valued_identities(("lit", True), ("lit", True), ("lit", 0)):
            pairs.append((an, tn))
    rng.shuffle(pairs)
    # every identity at least once, every atom kind at least once, the rest of the budget at random
    seen_t: t.Set[str] = set()
    seen_a: t.Set[str] = set()
    chosen = []
    for an, tn in pairs:
        if tn not in seen_t or an not in seen_a:
            chosen.append((an, tn))
            seen_t.add(tn)
            seen_a.add(an)
    chosen += [pq for pq in pairs if pq not in chosen][: max(0, n - len(chosen))]
    for an, tn in chosen[:n] if n < len(chosen) else chosen:
        atoms = dict(taut_atoms(rng))
        q = rng.choice(list(atoms.values()))
        x = rng.choice([("col", "k"), ("col", "z"), ("bin", "add", ("col", "k"), ("col", "z"))])
        e = dict(two_valued_identities(atoms[an], q, x))[tn]
        style = rng.choice(["handle", "fcol", "mixed", "sql", "fexpr"])
        pred = {"style": style, "e": qualify(tuple_(e), style, rng)}
        if style == "sql":
            pred["wrapped"] = rng.random() < 0.5
        schema = dict(TAUT_SCHEMA)
        kind = rng.choice(["delete", "update", "update-value"])
        if kind == "delete":
            d = {"k": "delete", "pred": pred}
        elif kind == "update":
            d = {"k": "update", "sets": gen_sets(rng, schema, "literal"), "pred": pred}
        else:
            # the identity decides an assignment VALUE: F.when(<identity>, 7).otherwise(<old value>)
            rst = rng.choice(["handle", "fcol", "mixed"])
            val = ("ite", qualify(tuple_(e), rst, rng), ("lit", 7), qualify(("col", "z"), rst, rng))
            d = {"k": "update", "sets": [{"key": "z", "key_style": rng.choice(["str", "handle", "fcol"]), "e": val, "alias": False}], "pred": gen_pred(rng, schema, rng.choice(["absent", "handle", "const_py"]))}
        rows = gen_table(rng, schema, max_rows=5, null_row=True)
        cases.append({"schema": schema, "rows": rows, "dmls": [d], "cmds": [["build", 0], ["exec", 0]], "reuse_handle": rng.random() < 0.5, "origin": f"two-valued-identity:{tn}:{an}"})
    return cases


def gen_subquery_cases(rng: random.Random, n: int) -> t.List[dict]:
    cases = []
    for i in range(n):
        schema = dict(rng.choice(SCHEMAS))
        other = gen_other(rng)
        if not other["rows"]:
            other["rows"] = gen_table(rng, other["schema"], max_rows=3) or [[rng.choice(X.INT_POOL) if k == "int" else "a" for k in other["schema"].values()]]
        style = ["sql", "fexpr", "mixed", "handle"][i % 4]
        sub = gen_subquery(rng, schema, other["schema"])
        e = sub
        if style in ("mixed", "handle") or rng.random() < 0.3:
            e = ("bin", rng.choice(["and", "or"]), G(rng, schema).bool_expr(0), sub)
        pred = {"style": style, "e": qualify(tuple_(e), style, rng)}
        if style == "sql":
            pred["wrapped"] = rng.random() < 0.3
        kind = rng.choice(["delete", "update"])
        d = {"k": "delete", "pred": pred} if kind == "delete" else {"k": "update", "sets": gen_sets(rng, schema), "pred": pred}
        origin = "subquery"
        if i % 10 == 9:
            # OUTSIDE the property (an assignment value is an expression over the row's own values): a subquery inside a
            # value.  Generated only to tie the model's treatment of the assignment loop to the code (scope D_refStyles)
            key = rng.choice([c for c, k in schema.items() if k == "int"])
            d = {"k": "update", "sets": [{"key": key, "key_style": "str", "e": ("ite", force_bare(sub), ("lit", 1), ("lit", 0)), "alias": False}], "pred": gen_pred(rng, schema, "absent")}
            origin = "subquery-in-value(outside the property)"
        cases.append({"schema": schema, "rows": gen_table(rng, schema, max_rows=6), "other": other, "dmls": [d], "cmds": [["build", 0], ["exec", 0]], "reuse_handle": rng.random() < 0.5, "origin": origin})
    return cases


def gen_spelling_cases(rng: random.Random, n: int) -> t.List[dict]:
    """SQL-string predicates in spellings on which SQL lexers differ, over string data in which the difference shows:
    values that are column names, a quote, a backslash"""
    cases = []
    schema = {"k": "int", "s": "str", "t": "str"}
    combos: t.List[t.List[str]] = [[f] for f in SPELLINGS] + [["dq", "bt"], ["dq", "eqeq", "upper"], SPELLINGS, []]
    for i in range(n):
        sp = {k: True for k in combos[i % len(combos)]}
        lits = ["s", "t", "k", "a", "a'b", "a\\b"]
        shape = rng.random()
        col = ("col", rng.choice(["s", "t"]))
        if shape < 0.45:
            e: tuple = ("bin", rng.choice(["eq", "eq", "ne", "lt"]), col, ("lit", rng.choice(lits)))
        elif shape < 0.6:
            e = ("bin", rng.choice(["eq", "ne"]), ("lit", rng.choice(lits)), col)
        elif shape < 0.75:
            e = ("bin", rng.choice(["and", "or"]), ("bin", "eq", col, ("lit", rng.choice(lits))), ("bin", rng.choice(X.CMP), ("col", "k"), ("lit", rng.choice([1, 2]))))
        elif shape < 0.85:
            e = ("not", ("bin", "eq", col, ("lit", rng.choice(lits))))
        else:
            e = ("bin", "eq", ("ite", ("bin", "eq", col, ("lit", rng.choice(lits))), ("lit", 1), ("lit", 0)), ("lit", 1))
        style = "sql" if i % 5 else "fexpr"
        pred = {"style": style, "e": qualify(tuple_(e), style, rng), "sp": sp}
        if style == "sql":
            pred["wrapped"] = rng.random() < 0.3
        kind = rng.choice(["delete", "update"])
        d = {"k": "delete", "pred": pred} if kind == "delete" else {"k": "update", "sets": [{"key": "k", "key_style": "str", "e": ("lit", 7), "alias": False}], "pred": pred}
        rows = gen_table(rng, schema, max_rows=6, namey=True)
        cases.append({"schema": schema, "rows": rows, "dmls": [d], "cmds": [["build", 0], ["exec", 0]], "reuse_handle": rng.random() < 0.5, "origin": "sql-spelling:" + "+".join(sorted(sp))})
    return cases


# ------------------------------------------------------------------------------------------------
# encoders
# ------------------------------------------------------------------------------------------------


def pred_to_lean(p: dict) -> t.Any:
    st = p["style"]
    if st == "absent":
        return "absent"
    sp = p.get("sp") or {}
    if st in ("sql", "const_sql"):
        return {"sql": {"e": qexpr(p["e"], True, sp), "text": pred_text(p), "wrapped": is_wrapped(pred_text(p)), "backticks": uses_backticks(p)}}
    if st == "fexpr":
        return {"expr": {"e": qexpr(p["e"], True, sp), "aliased": False}}
    # a top-level F.when(…) is aliased automatically
    return {"expr": {"e": qexpr(p["e"]), "aliased": st == "aliased" or tuple_(p["e"])[0] == "ite"}}


def rhs_aliased(s: dict) -> bool:
    """the value Column carries an alias: `.alias(…)`, or a top-level F.when (aliased automatically)"""
    return bool(s.get("alias")) or tuple_(s["e"])[0] == "ite"


def dml_to_lean(d: dict) -> t.Any:
    if d["k"] == "update":
        return {"update": {"sets": [[s["key"], qexpr(s["e"])] for s in d["sets"]], "pred": pred_to_lean(d["pred"]), "rhsAliased": any(rhs_aliased(s) for s in d["sets"])}}
    return {"delete": {"pred": pred_to_lean(d["pred"])}}


def case_to_lean(i: int, c: dict) -> dict:
    cmds = []
    for kind, j in c["cmds"]:
        cmds.append({"build": {"d": dml_to_lean(c["dmls"][j])}} if kind == "build" else {"exec": {"i": _lazy_index(c, j)}})
    out = {"case": i, "table": X.table_to_lean(list(c["schema"]), c["rows"]), "cmds": cmds}
    if c.get("other"):
        out["other"] = X.table_to_lean(list(c["other"]["schema"]), c["other"]["rows"])
    return out


def _lazy_index(c: dict, j: int) -> int:
    """position of dml j's LazyExpression in build order"""
    order = [jj for kind, jj in c["cmds"] if kind == "build"]
    return order.index(j)


def show_pred(p: dict) -> str:
    st = p["style"]
    if st == "absent":
        return "None"
    if st in ("sql", "const_sql"):
        return repr(pred_text(p))
    if st == "fexpr":
        return f"F.expr({pred_text(p)!r})"
    if st == "const_py":
        return repr(tuple_(p["e"])[1])
    s = show_expr(p["e"])
    return s + ".alias('p')" if st == "aliased" else s


ALIAS_SUFFIX = ".alias('v')"


def show_dml(d: dict) -> str:
    if d["k"] == "update":
        ks = {"str": lambda k: repr(k), "handle": lambda k: f"tb[{k!r}]", "fcol": lambda k: f"F.col({k!r})"}
        sets = ", ".join(f"{ks[s['key_style']](s['key'])}: {show_expr(s['e'])}{ALIAS_SUFFIX if s.get('alias') else ''}" for s in d["sets"])
        return f"tb.update({{{sets}}}, where={show_pred(d['pred'])})"
    return f"tb.delete(where={show_pred(d['pred'])})"


def show_case(c: dict) -> str:
    head = f"tb[{', '.join(k + ':' + v for k, v in c['schema'].items())}]{c['rows']}: "
    if c.get("other"):
        head = f"o[{', '.join(k + ':' + v for k, v in c['other']['schema'].items())}]{c['other']['rows']}; " + head
    parts = []
    for kind, j in c["cmds"]:
        parts.append(f"e{j} = {show_dml(c['dmls'][j])}" if kind == "build" else f"e{j}.execute()")
    return head + "; ".join(parts) + (" (one handle)" if c.get("reuse_handle") else " (fresh handle per call)")


# ------------------------------------------------------------------------------------------------
# the real implementation
# ------------------------------------------------------------------------------------------------


def to_col(e: t.Any, tb: t.Any, F: t.Any) -> t.Any:
    """expression -> a real sqlframe Column: ("col", "cte:c") is tb['c'], ("col", "none:c") is F.col('c'); a
    subquery can only be written as SQL text: F.expr("…")"""
    e = tuple_(e)
    k = e[0]
    if k == "col":
        q, name = e[1].split(":", 1)
        return tb[name] if q == "cte" else F.col(name)
    if k == "lit":
        return F.lit(e[1])
    if k == "bin":
        a, b = to_col(e[2], tb, F), to_col(e[3], tb, F)
        op = e[1]
        if op == "nseq":
            return a.eqNullSafe(b)
        import operator as o

        return {"add": o.add, "sub": o.sub, "mul": o.mul, "lt": o.lt, "le": o.le, "gt": o.gt, "ge": o.ge, "eq": o.eq, "ne": o.ne, "and": o.and_, "or": o.or_}[op](a, b)
    if k == "not":
        return ~to_col(e[1], tb, F)
    if k == "neg":
        return -to_col(e[1], tb, F)
    if k == "isNull":
        return to_col(e[1], tb, F).isNull()
    if k == "ite":
        return F.when(to_col(e[1], tb, F), to_col(e[2], tb, F)).otherwise(to_col(e[3], tb, F))
    if k == "inlist":
        return to_col(e[1], tb, F).isin(*list(e[2]))
    if k == "like":
        return to_col(e[1], tb, F).like(e[2])
    if k in ("insub", "exists"):
        return F.expr(to_sql(e))
    raise ValueError(e)


def build_impl(session: t.Any, tb: t.Any, d: dict) -> t.Any:
    from sqlframe.duckdb import functions as F

    p = d["pred"]
    st = p["style"]
    if st == "absent":
        where: t.Any = None
    elif st in ("sql", "const_sql"):
        where = pred_text(p)
    elif st == "fexpr":
        where = F.expr(pred_text(p))
    elif st == "const_py":
        where = tuple_(p["e"])[1]
    else:
        where = to_col(p["e"], tb, F)
        if st == "aliased":
            where = where.alias("p")
    if d["k"] == "delete":
        return tb.delete(where=where)
    set_: t.Dict[t.Any, t.Any] = {}
    for s in d["sets"]:
        key = {"str": s["key"], "handle": tb[s["key"]], "fcol": F.col(s["key"])}[s["key_style"]]
        e = tuple_(s["e"])
        if e[0] == "lit" and isinstance(e[1], int) and not isinstance(e[1], bool) and not s.get("alias"):
            val: t.Any = e[1]  # a bare Python literal
        else:
            val = to_col(e, tb, F)
            if s.get("alias"):
                val = val.alias("v")
        set_[key] = val
    return tb.update(set_, where=where)


DDL = {"int": "bigint", "str": "varchar", "bool": "boolean"}


def run_impl(c: dict) -> t.List[dict]:
    import logging

    logging.getLogger("sqlframe").setLevel(logging.ERROR)
    session = vlib.fresh_duckdb_session()
    conn = session._conn

    def create(name: str, schema: t.Dict[str, str], rows: t.List[t.List[t.Any]]) -> None:
        conn.execute(f"create table {name} ({', '.join(f'{k} {DDL[ty]}' for k, ty in schema.items())})")
        if rows:
            conn.executemany(f"insert into {name} values ({', '.join('?' for _ in schema)})", [tuple(r) for r in rows])

    create("tb", c["schema"], c["rows"])
    other = c.get("other")
    if other:
        create("o", other["schema"], other["rows"])

    def snapshot() -> dict:
        rows = conn.execute("select * from tb").fetchall()
        desc = conn.execute("describe tb").fetchall()
        snap = {"cols": [d[0] for d in desc], "rows": [[plain(v) for v in r] for r in rows]}
        if other:
            # "leaves every other row and column untouched": the table a subquery reads must not change either
            orows = [[plain(v) for v in r] for r in conn.execute("select * from o").fetchall()]
            snap["other_untouched"] = bag(orows) == bag([[plain(v) for v in r] for r in other["rows"]])
        return snap

    handle = session.table("tb") if c.get("reuse_handle") else None
    lazies: t.Dict[int, t.Any] = {}
    out = []
    for kind, j in c["cmds"]:
        obs: t.Dict[str, t.Any] = {"built": None, "exec": None, "err": None, "sql": None}
        if kind == "build":
            try:
                tb = handle if handle is not None else session.table("tb")
                le = build_impl(session, tb, c["dmls"][j])
                lazies[j] = le
                obs["built"] = "ok"
                obs["sql"] = str(le)
            except Exception as e:  # noqa
                lazies[j] = None
                obs["built"] = "raises"
                obs["err"] = f"{type(e).__name__}: {str(e)[:120]}"
        else:
            le = lazies.get(j)
            if le is None:
                obs["exec"] = "noop"
            else:
                try:
                    le.execute()
                    obs["exec"] = "ok"
                except Exception as e:  # noqa
                    obs["exec"] = "error"
                    obs["err"] = f"{type(e).__name__}: {str(e)[:120]}"
        obs["table"] = snapshot()
        out.append(obs)
    return out


def same_table(a: dict, b: dict) -> bool:
    return a["cols"] == b["cols"] and bag(a["rows"]) == bag(b["rows"]) and a.get("other_untouched", True)


def _preimport() -> None:
    """import sqlframe (no connection is opened) so that forked children start warm"""
    import sys

    if vlib.REPO not in sys.path:
        sys.path.insert(0, vlib.REPO)
    import duckdb  # noqa
    import sqlframe.duckdb  # noqa
    from sqlframe.duckdb import functions  # noqa


def isolated_map(fn: t.Callable[[t.Any], t.Any], items: t.List[t.Any]) -> t.List[t.Any]:
    """every item in its own freshly forked process: nothing a statement leaves behind in the interpreter
    (module state, caches, default arguments) can leak from one case into another, so every replay is
    reproducible on its own; this process itself never runs the implementation"""
    if not items:
        return []
    import multiprocessing as mp

    _preimport()
    n = max(1, min(int(os.environ.get("VERIF_WORKERS", "8")), os.cpu_count() or 1, len(items)))
    with mp.get_context("fork").Pool(n, maxtasksperchild=1) as pool:
        return pool.map(fn, items, chunksize=1)


def evaluate(cases: t.List[dict], workers: int = 0, isolated: bool = True) -> t.List[dict]:
    """`isolated=False` (the bulk stream only): cases share pooled worker processes, which is ~10x faster;
    every case that fails there is evaluated again in a process of its own before anything is reported"""
    outs = vlib.run_driver("C15", [case_to_lean(i, c) for i, c in enumerate(cases)])
    impls = isolated_map(run_impl, cases) if isolated else vlib.parallel_map(run_impl, cases, workers)
    res = []
    for c, o, impl in zip(cases, outs, impls):
        if "err" in o:
            raise RuntimeError(f"driver rejected a case: {o}")
        steps = []
        first_spec = first_model = None
        for i, (cmd, st, ob) in enumerate(zip(c["cmds"], o["steps"], impl)):
            m_ok = same_table(ob["table"], st["model"]) and ob["built"] == st["built"] and ob["exec"] == st["exec"]
            s_ok = same_table(ob["table"], st["spec"])
            if cmd[0] == "build":
                # the specification never refuses to build a well-formed statement
                s_ok = s_ok and ob["built"] == "ok"
            else:
                s_ok = s_ok and ob["exec"] == st["specExec"]
            steps.append({"impl_eq_model": m_ok, "impl_eq_spec": s_ok, "scope": st["scope"]})
            if first_model is None and not m_ok:
                first_model = i
            if first_spec is None and not s_ok:
                first_spec = i
        res.append({"case": c, "driver": o["steps"], "impl": impl, "steps": steps, "first_spec_diff": first_spec, "first_model_diff": first_model})
    return res


# ------------------------------------------------------------------------------------------------
# the generated decisions against the statements the live builder produces
# ------------------------------------------------------------------------------------------------


def check_gen_against_live(ctx: Ctx) -> int:
    """runs in a forked child (see isolated_map); returns the number of comparisons, appends disagreements"""
    n, broken = isolated_map(_gen_against_live, [0])[0]
    ctx.broken.extend(broken)
    return n


class _B:
    def __init__(self) -> None:
        self.broken: t.List[str] = []


def _gen_against_live(_: t.Any) -> t.Tuple[int, t.List[str]]:
    ctx = _B()
    try:
        n = _gen_against_live_body(ctx)
    except Exception as e:  # noqa  (a probe of the live builder failed outright: that is a disagreement too)
        n = 0
        ctx.broken.append(f"comparison of Gen.Dml with the live builder raised {type(e).__name__}: {str(e)[:160]}")
    return n, ctx.broken


def _gen_against_live_body(ctx: t.Any) -> int:
    import logging

    from sqlglot import exp

    logging.getLogger("sqlframe").setLevel(logging.ERROR)
    gen = vlib.run_driver("C15", [{"case": 0, "gen": True}])[0]["gen"]
    session = vlib.fresh_duckdb_session()
    session._conn.execute("create table tb (k bigint, z bigint)")
    from sqlframe.duckdb import functions as F

    n = 0

    def expect(what: str, got: t.Any, want: t.Any) -> None:
        nonlocal n
        n += 1
        if got != want:
            ctx.broken.append(f"Gen.Dml.{what} = {want!r} but the live builder shows {got!r}")

    def qual_name(q: str) -> str:
        return q.rsplit(".", 1)[1]

    tb = session.table("tb")
    # default predicate
    e = tb.delete().expression
    expect("defaultPred", e.args["where"].this.sql().upper(), "TRUE" if gen["defaultPred"] else "FALSE")
    expect("deleteTarget", "phys" if e.this.name == "tb" else "other:" + e.this.name, qual_name(gen["deleteTarget"]))
    # predicate re-qualification per reference style: [none, cte, phys, other]
    e = tb.delete(where=tb["k"] == 1).expression
    col = next(e.args["where"].find_all(exp.Column))
    to = qual_name(gen["predTo"])
    want_tbl = {"phys": "tb", "none": ""}.get(to, "<cte>") if gen["predMatches"][1] else "<cte>"
    got_tbl = col.table if col.table in ("tb", "") else "<cte>"
    expect("predMatches[cte]/predTo", got_tbl, want_tbl)
    e = tb.delete(where=F.col("k") == 1).expression
    col = next(e.args["where"].find_all(exp.Column))
    expect("predMatches[none]", col.table, ("tb" if to == "phys" else "<cte>") if gen["predMatches"][0] else "")
    # alias stripping
    e = tb.delete(where=(tb["k"] == 1).alias("p")).expression
    expect("predAliasStripped", not isinstance(e.args["where"].this, exp.Alias), gen["predAliasStripped"])
    # string predicate
    e = tb.delete(where="k = 1").expression
    expect("predStringParsed", not isinstance(e.args["where"].this, exp.Column), gen["predStringParsed"])
    # assignment values
    e = tb.update({"z": tb["z"] + 1}, where=tb["k"] == 1).expression
    col = next(e.expressions[0].expression.find_all(exp.Column))
    expect("rhsMatches[cte]/rhsTo", col.table, "tb" if (gen["rhsMatches"][1] and qual_name(gen["rhsTo"]) == "phys") else col.table + "?")
    expect("updateTarget", "phys" if e.this.name == "tb" else "other:" + e.this.name, qual_name(gen["updateTarget"]))
    try:
        tb.update({"z": F.col("k")}, where=tb["k"] == 1)
        raised = False
    except ValueError:
        raised = True
    expect("rhsElseRaises && !rhsMatches[none]", raised, bool(gen["rhsElseRaises"] and not gen["rhsMatches"][0]))
    e = tb.update({"z": (tb["z"] + 1).alias("v")}, where=tb["k"] == 1).expression
    expect("rhsAliasStripped", not isinstance(e.expressions[0].expression, exp.Alias), gen["rhsAliasStripped"])
    # laziness
    before = session._conn.execute("select count(*) from tb").fetchall()
    session._conn.execute("insert into tb values (1, 1)")
    le = tb.delete(where=tb["k"] == 1)
    expect("buildExecutes", session._conn.execute("select count(*) from tb").fetchall()[0][0] == 0, gen["buildExecutes"])
    le.execute()
    expect("executeRuns", session._conn.execute("select count(*) from tb").fetchall()[0][0] == 0, gen["executeRuns"])
    # ---- which lexer reads a SQL-string predicate: [double-quoted token is a string, backticks quote, backslash escapes]
    session._conn.execute("create table tl (k bigint, z bigint, s varchar)")
    session._conn.execute("create table o (k bigint, w bigint)")
    tl = session.table("tl")
    dq, bt, esc = gen["predLex"]
    e = tl.delete(where='s = "z"').expression.args["where"].this
    expect("predDialect: a double-quoted token is a string literal", isinstance(e.expression, exp.Literal), dq)
    try:
        tl.delete(where="`s` = 'a'")
        ok = True
    except Exception:  # noqa
        ok = False
    expect("predDialect: backticks quote an identifier", ok, bt)
    e = tl.delete(where="s = 'a\\\\b'").expression.args["where"].this
    expect("predDialect: a backslash escapes", len(e.expression.this) == 3, esc)
    expect("sessionInputDefault", type(session.input_dialect).__name__.lower(), gen["sessionInputDefault"])
    expect("sessionOutputDefault", type(session.output_dialect).__name__.lower(), gen["sessionOutputDefault"])
    # the model's table of lexers (Impl/C15Dml.lean `lexOf`) against the installed sqlglot, every dialect it names
    import sqlglot

    for name, want in sorted(gen["lexTable"].items()):

        def probe(txt: str) -> t.Any:
            try:
                return sqlglot.parse_one(txt, dialect=name or None).expression
            except Exception:  # noqa
                return None

        r1, r2, r3 = probe('x = "ab"'), probe("x = `ab`"), probe("x = 'a\\\\b'")
        got = [isinstance(r1, exp.Literal), isinstance(r2, exp.Column), isinstance(r3, exp.Literal) and len(r3.this) == 3]
        n += 1
        if got != want:
            ctx.broken.append(f"Impl lexOf {name!r} = {want} (double-quoted string, backtick identifier, backslash escape) but sqlglot shows {got}")
    # ---- the re-qualification loops visit every reference, those inside subqueries too (`QExpr.mapQ`)
    e = tl.delete(where="k IN (SELECT k FROM o WHERE w > 1)").expression.args["where"].this
    inner = [c for c in e.find_all(exp.Column) if c.find_ancestor(exp.Select) is not None]
    expect("predMatches[none] inside a subquery", sorted({c.table for c in inner}), ["tl"] if gen["predMatches"][0] and to == "phys" else [""])
    e = tl.update({"z": F.expr("CASE WHEN k IN (SELECT k FROM o) THEN 1 ELSE 0 END")}).expression.expressions[0].expression
    inner = [c for c in e.find_all(exp.Column) if c.find_ancestor(exp.Select) is not None]
    expect("rhsMatches[none] inside a subquery", sorted({c.table for c in inner}), ["tl"] if gen["rhsMatches"][0] and qual_name(gen["rhsTo"]) == "phys" else [""])
    e = tl.delete(where="EXISTS (SELECT 1 FROM o WHERE o.k = 1)").expression.args["where"].this
    expect("predMatches[sub]", sorted({c.table for c in e.find_all(exp.Column)}), ["tl"] if gen["predMatches"][4] else ["o"])
    # ---- the WHERE of the statement is the normalised predicate itself (`exp.Where(this=condition)`): no rewriting
    probes = [
        lambda tb_: tb_["s"].isin("x", "y") | ~tb_["s"].isin("x", "y"),
        lambda tb_: ~((tb_["k"] > 1) & ~(tb_["k"] > 1)),
        lambda tb_: "k = k AND NOT (z <> z)",
        lambda tb_: (tb_["k"] - tb_["k"]) == 0,
        lambda tb_: F.col("s").like("a%") | ~F.col("s").like("a%"),
    ]
    for mk in probes:
        h = session.table("tl")
        stmt_d = h.delete(where=mk(h)).expression.args["where"].this.sql()
        stmt_u = h.update({"z": 1}, where=mk(h)).expression.args["where"].this.sql()
        h2 = h._convert_leaf_to_cte() if not h.expression.ctes else h
        h2 = type(h)(**__import__("sqlglot.helper", fromlist=["object_to_dict"]).object_to_dict(h2))
        cond = h2._ensure_where_condition(mk(h2)).sql()
        expect("delete: WHERE is the normalised predicate", stmt_d, cond)
        expect("update: WHERE is the normalised predicate", stmt_u, cond)
    return n


# ------------------------------------------------------------------------------------------------
# comparison C: PySpark <-> specification (which rows a predicate text selects; DataFrame.filter(text))
# ------------------------------------------------------------------------------------------------

ORACLE = os.path.join(vlib.VERIF, "tools", "oracle", "c15_pyspark.json")


def spec_selected(items: t.List[dict]) -> t.List[t.Optional[t.List[str]]]:
    """the rows the SPECIFICATION says `delete(where=text)` removes (as a bag), None where it rejects the statement"""
    cases = []
    for it in items:
        c = {"schema": it["schema"], "rows": it["rows"], "dmls": [{"k": "delete", "pred": it["pred"]}], "cmds": [["build", 0], ["exec", 0]]}
        if it.get("other"):
            c["other"] = it["other"]
        cases.append(c)
    outs = vlib.run_driver("C15", [case_to_lean(i, c) for i, c in enumerate(cases)])
    res: t.List[t.Optional[t.List[str]]] = []
    for it, o in zip(items, outs):
        st = o["steps"][-1]
        if st["specExec"] != "ok":
            res.append(None)
            continue
        left = bag(st["spec"]["rows"])
        sel = bag([[plain(v) for v in r] for r in it["rows"]])
        for x in left:
            sel.remove(x)
        res.append(sel)
    return res


def compare_with_pyspark(items: t.List[dict], answers: t.List[dict]) -> t.List[str]:
    bad = []
    for it, a, sel in zip(items, answers, spec_selected(items)):
        if "error" in a:
            continue  # PySpark does not accept the text (e.g. a correlated reference it cannot plan): nothing to compare
        got = bag([[plain(v) for v in r] for r in a["selected"]])
        if sel is None or got != sel:
            bad.append(f"{it['text']!r} on {it['rows']} (o = {(it.get('other') or {}).get('rows')}): PySpark selects {a['selected']}, the specification {'rejects the statement' if sel is None else sel}")
    return bad


def pyspark_items(cases: t.List[dict], limit: int) -> t.List[dict]:
    """single statements whose predicate can be written as one SQL text"""
    items = []
    for c in cases:
        for d in c["dmls"]:
            p = d["pred"]
            if p["style"] in ("absent",) + CONST_STYLES or len(items) >= limit:
                continue
            q = dict(p, style="sql", e=force_bare_all(p["e"]), wrapped=True)
            items.append({"schema": c["schema"], "rows": c["rows"], "other": c.get("other"), "pred": q, "text": pred_text(q)})
    return items


def live_pyspark(items: t.List[dict], timeout: int = 900) -> t.Optional[t.List[dict]]:
    import subprocess

    script = os.path.join(os.path.dirname(os.path.abspath(__file__)), "c15_spark.py")
    try:
        p = subprocess.run(["/venv/bin/python", script], input=json.dumps(items), capture_output=True, text=True, timeout=timeout, env=dict(os.environ, PYSPARK_PYTHON="/venv/bin/python"))
        return json.loads(p.stdout) if p.returncode == 0 else None
    except Exception:  # noqa  (no JVM: the recorded answers remain)
        return None


# ------------------------------------------------------------------------------------------------
# classification, shrinking
# ------------------------------------------------------------------------------------------------


def known_entries() -> t.Dict[str, dict]:
    known = {e["id"]: e for e in vlib.known_findings(ID)}
    extra = os.path.join(os.path.dirname(os.path.abspath(__file__)), "c15.known.json")
    if os.path.exists(extra):
        for e in json.load(open(extra)).get("findings", []):
            if e.get("property") == ID and e.get("status") == "open":
                known.setdefault(e["id"], e)
    return known


def classify(r: dict, known: t.Dict[str, dict]) -> t.Tuple[str, t.List[str]]:
    i, j = r["first_spec_diff"], r["first_model_diff"]
    if j is not None and (i is None or j <= i):
        return "model", []
    if i is None:
        return "ok", []
    sc = r["steps"][i]["scope"]
    hs = [h for h in sc if h.startswith("H_")]
    if not sc:
        return "violation", []
    if any(h.startswith("D_") for h in sc):
        # the statement is outside the property (a reference style / an assignment value the property does not speak
        # about; generated on purpose in one small family): the model predicted the implementation (checked above),
        # nothing is claimed about the specification
        return "declared", [h for h in sc if h.startswith("D_")]
    if all(h in known for h in hs):
        return ("known", hs) if hs else ("declared", [h for h in sc if h.startswith("D_")])
    return "violation", hs


def smaller_exprs(e: t.Any) -> t.List[tuple]:
    """boolean-typed parts a predicate can be replaced by while it stays well-typed"""
    e = tuple_(e)
    k = e[0]
    out: t.List[tuple] = []
    if k == "bin" and e[1] in ("and", "or"):
        out += [e[2], e[3]]
        out += [("bin", e[1], x, e[3]) for x in smaller_exprs(e[2])] + [("bin", e[1], e[2], x) for x in smaller_exprs(e[3])]
    elif k == "not":
        out += [e[1]] + [("not", x) for x in smaller_exprs(e[1])]
    elif k == "ite" and all(tuple_(x)[0] != "lit" or isinstance(tuple_(x)[1], bool) for x in (e[2], e[3])):
        out += [e[1]]
    elif k == "inlist" and len(e[2]) > 1:
        out += [("inlist", e[1], list(e[2][:i]) + list(e[2][i + 1 :])) for i in range(len(e[2]))]
    elif k == "insub":
        out += [("insub", e[1], e[2], x) for x in smaller_exprs(e[3])] + [("insub", e[1], e[2], ("lit", True))] * (tuple_(e[3]) != ("lit", True))
    elif k == "exists":
        out += [("exists", x) for x in smaller_exprs(e[1])]
    return out


def shrink(c: dict, bad: t.Callable[[dict], bool], rounds: int = 16) -> dict:
    best = c
    for _ in range(rounds):
        cands = []
        n = len(best["dmls"])
        if n > 1:
            for j in range(n):
                dm = best["dmls"][:j] + best["dmls"][j + 1 :]
                cm = [[k, (x if x < j else x - 1)] for k, x in best["cmds"] if x != j]
                cands.append(dict(best, dmls=dm, cmds=cm))
        for i in range(len(best["rows"])):
            cands.append(dict(best, rows=best["rows"][:i] + best["rows"][i + 1 :]))
        other = best.get("other")
        if other:
            if not any(has_kind(d["pred"].get("e", ("lit", True)), ("insub", "exists")) for d in best["dmls"]):
                cands.append({k: v for k, v in best.items() if k != "other"})
            for i in range(len(other["rows"])):
                cands.append(dict(best, other=dict(other, rows=other["rows"][:i] + other["rows"][i + 1 :])))

        def with_dml(j: int, d2: dict) -> dict:
            return dict(best, dmls=best["dmls"][:j] + [d2] + best["dmls"][j + 1 :])

        for j, d in enumerate(best["dmls"]):
            if d["k"] == "update" and len(d["sets"]) > 1:
                for si in range(len(d["sets"])):
                    cands.append(with_dml(j, dict(d, sets=d["sets"][:si] + d["sets"][si + 1 :])))
            p = d["pred"]
            if p["style"] not in ("absent",) + CONST_STYLES:
                for e2 in smaller_exprs(p["e"])[:12]:
                    cands.append(with_dml(j, dict(d, pred=dict(p, e=e2))))
            for f in list(p.get("sp") or {}):
                cands.append(with_dml(j, dict(d, pred=dict(p, sp={k: v for k, v in p["sp"].items() if k != f}))))
        oschema = (best.get("other") or {}).get("schema") or {}
        cands = [cd for cd in cands if not any(engine_trap(d["pred"].get("e", ("lit", True)), oschema) for d in cd["dmls"])]
        if not cands:
            break
        res = evaluate(cands, workers=1)
        nxt = next((r["case"] for r in res if bad(r)), None)
        if nxt is None:
            break
        best = nxt
    return best


# ------------------------------------------------------------------------------------------------
# the check
# ------------------------------------------------------------------------------------------------


def cases_for(ctx: Ctx) -> t.List[dict]:
    rng = ctx.rng
    cases = []
    d = os.path.join(vlib.VERIF, "corpus", ID)
    if os.path.isdir(d):
        for fn in sorted(os.listdir(d)):
            if fn.endswith(".json"):
                c = json.load(open(os.path.join(d, fn)))
                c["origin"] = "corpus:" + fn
                cases.append(c)
    reps = 6 if ctx.thorough else 2
    for ps in PRED_STYLES:
        for rs in RHS_STYLES:
            for kind in ("update", "delete"):
                if kind == "delete" and rs != "handle":
                    continue
                for _ in range(reps):
                    c = gen_case(rng, 1, pred_style=ps, rhs_style=rs, kind=kind)
                    c["origin"] = "style-grid"
                    cases.append(c)
    th = ctx.thorough
    # targeted families (see the docstrings): laws of two-valued logic that three-valued logic does not have,
    # predicates with subqueries on another table, SQL text in spellings on which SQL lexers differ
    cases += gen_tautology_cases(rng, 400 if th else 64)
    cases += gen_subquery_cases(rng, 300 if th else 40)
    cases += gen_spelling_cases(rng, 240 if th else 36)
    for _ in range(3000 if th else 220):
        c = gen_case(rng, rng.randint(1, 4))
        c["origin"] = "random"
        cases.append(c)
    return cases


def replay_dict(kind: str, c: dict, r: dict) -> dict:
    i = r["first_spec_diff"] if r["first_spec_diff"] is not None else r["first_model_diff"]
    d: t.Dict[str, t.Any] = {"kind": kind, "program": show_case(c), "case": c, "failing_step": i}
    if i is not None:
        ob, st = r["impl"][i], r["driver"][i]
        cmd = c["cmds"][i]
        d["failing_call"] = (f"e{cmd[1]} = " + show_dml(c["dmls"][cmd[1]])) if cmd[0] == "build" else f"e{cmd[1]}.execute()  where e{cmd[1]} = {show_dml(c['dmls'][cmd[1]])}"
        d["sql"] = next((o["sql"] for o, cm in zip(r["impl"], c["cmds"]) if cm == ["build", cmd[1]]), None)
        d["implementation"] = {"built": ob["built"], "exec": ob["exec"], "error": ob["err"], "table": ob["table"]}
        d["specification"] = {"exec": st["specExec"], "table": st["spec"]}
        d["model"] = {"built": st["built"], "exec": st["exec"], "table": st["model"]}
        d["violated_scope_hypotheses"] = st["scope"]
    return d


def run(ctx: Ctx) -> None:
    idx = vlib.props_index()[ID]
    vlib.prove(ctx, MODULES, GEN, idx["theorems"], SOURCES)
    known = known_entries()

    # the stream forks worker processes: nothing may touch DuckDB in this process before it ran
    cases = cases_for(ctx)
    res = evaluate(cases, isolated=False)
    # a failure seen in a shared worker process is confirmed in a process of its own (what a replay does)
    suspects = [i for i, r in enumerate(res) if classify(r, known)[0] in ("violation", "model")]
    leaked = 0
    if suspects:
        again = evaluate([res[i]["case"] for i in suspects[:40]])
        for i, r in zip(suspects[:40], again):
            if classify(r, known)[0] not in ("violation", "model"):
                leaked += 1
            res[i] = r
        if leaked and leaked == len(again):
            ctx.broken.append(f"{leaked} cases differ from the model only when they share an interpreter with earlier cases: the builder keeps state between statements")
    nb = len(ctx.broken)
    try:
        n_gen = check_gen_against_live(ctx)
    except Exception as e:  # noqa  (a probe of the live builder failed outright: that is a disagreement too)
        n_gen = 0
        ctx.broken.append(f"comparison of Gen.Dml with the live builder raised {type(e).__name__}: {str(e)[:160]}")
    del ctx.broken[nb + 5 :]

    # comparison C: the specification's reading of predicate texts against PySpark (recorded; live in the thorough tier)
    spark_n = spark_live = 0
    try:
        if os.path.exists(ORACLE):
            rec = json.load(open(ORACLE))["items"]
            bad = compare_with_pyspark(rec, [it["pyspark"] for it in rec])
            spark_n = len(rec)
            if bad:
                ctx.broken.append(f"comparison C: the specification differs from recorded PySpark on {len(bad)} of {len(rec)} predicate texts; first: {bad[0][:300]}")
        if ctx.thorough:
            items = pyspark_items([c for c in cases if c.get("origin", "").split(":")[0] in ("two-valued-identity", "subquery", "sql-spelling")], 150)
            items += pyspark_items([c for c in cases if c.get("origin") == "random"], 250)[150:]
            ans = live_pyspark(items)
            if ans is not None and len(ans) == len(items):
                bad = compare_with_pyspark(items, ans)
                spark_live = sum("error" not in a for a in ans)
                if bad:
                    ctx.broken.append(f"comparison C (live): the specification differs from PySpark on {len(bad)} of {spark_live} predicate texts; first: {bad[0][:300]}")
            else:
                log("live PySpark not available: only the recorded answers were compared")
    except Exception as e:  # noqa
        ctx.broken.append(f"comparison C raised {type(e).__name__}: {str(e)[:200]}")
    ctx.cov["pyspark_filter_checked"] = spark_n + spark_live

    viol, model_bad = [], []
    hist: t.Dict[str, int] = {}
    for r in res:
        cl, hs = classify(r, known)
        hist[cl] = hist.get(cl, 0) + 1
        if cl == "known":
            for h in hs:
                vlib.report_known(ctx, known[h], known[h]["summary"])
        elif cl == "violation":
            viol.append(r)
        elif cl == "model":
            model_bad.append(r)

    for h, e in known.items():
        w = e.get("witness")
        if not w:
            continue
        r = evaluate([w], workers=1)[0]
        if r["first_spec_diff"] is not None:
            vlib.report_known(ctx, e, e["summary"])
        else:
            log(f"known finding {h}: the recorded witness no longer fails")

    if model_bad:
        r = model_bad[0]
        ctx.broken.append(f"correspondence stream (implementation vs Impl/C15Dml.lean): {len(model_bad)} of {len(res)} cases differ; first: {show_case(r['case'])[:300]} at step {r['first_model_diff']}")

    reported = 0
    for r in (viol + model_bad)[:3]:
        c = shrink(r["case"], lambda rr: classify(rr, known)[0] in ("violation", "model"))
        rr = evaluate([c], workers=1)[0]
        if classify(rr, known)[0] not in ("violation", "model"):
            c, rr = r["case"], evaluate([r["case"]], workers=1)[0]
            if classify(rr, known)[0] not in ("violation", "model"):
                continue  # not reproducible in a process of its own: covered by the state-leak obligation above
        kind = "implementation differs from the specification" if rr["first_spec_diff"] is not None else "implementation differs from the model (correspondence broken)"
        vlib.report_violation(ctx, dict(replay_dict(kind, c, rr), broken=ctx.broken))
        reported += 1
    if ctx.broken and not reported:
        vlib.report_violation(ctx, {"kind": "proof obligation or generated decision no longer checks; no failing input found", "broken": ctx.broken, "searched": {"cases": len(res)}}, no_input=True)

    pred_hist: t.Dict[str, int] = {}
    rhs_hist: t.Dict[str, int] = {}
    kind_hist: t.Dict[str, int] = {}
    len_hist: t.Dict[str, int] = {}
    err_hist: t.Dict[str, int] = {}
    nontrivial = set()
    origin_hist: t.Dict[str, int] = {}
    node_hist: t.Dict[str, int] = {}
    spell_hist: t.Dict[str, int] = {}
    identity_hist: t.Dict[str, int] = {}
    null_pred_rows = 0
    lazy_checked = 0
    changed_rows = 0
    for r in res:
        c = r["case"]
        len_hist[str(len(c["dmls"]))] = len_hist.get(str(len(c["dmls"])), 0) + 1
        og = c.get("origin", "random").split(":")
        origin_hist[og[0]] = origin_hist.get(og[0], 0) + 1
        if og[0] == "two-valued-identity":
            identity_hist[og[1]] = identity_hist.get(og[1], 0) + 1
        for d in c["dmls"]:
            kind_hist[d["k"]] = kind_hist.get(d["k"], 0) + 1
            pred_hist[d["pred"]["style"]] = pred_hist.get(d["pred"]["style"], 0) + 1
            for nk in ("inlist", "like", "insub", "exists"):
                if "e" in d["pred"] and has_kind(d["pred"]["e"], (nk,)):
                    node_hist[nk] = node_hist.get(nk, 0) + 1
            for f in d["pred"].get("sp") or {}:
                spell_hist[f] = spell_hist.get(f, 0) + 1
            if d["k"] == "update":
                for s in d["sets"]:
                    st = "literal" if tuple_(s["e"])[0] == "lit" else ("/".join(sorted({q.split(":")[0] for q in _leaves(s["e"])})) or "const-expr")
                    rhs_hist[st] = rhs_hist.get(st, 0) + 1
        for cmd, ob in zip(c["cmds"], r["impl"]):
            lazy_checked += cmd[0] == "build"
            if ob["err"]:
                k = ob["err"].split(":")[0]
                err_hist[k] = err_hist.get(k, 0) + 1
        final = r["impl"][-1]["table"]["rows"]
        init = [[plain(v) for v in row] for row in c["rows"]]
        if bag(final) != bag(init):
            changed_rows += 1
            if final:
                nontrivial.add(vlib.digest([c["rows"], c["dmls"], c["cmds"]]))
    ctx.cov.update(
        {
            "evaluations": len(res),
            "distinct_nontrivial": len(nontrivial),
            "rule": "corpus; every predicate style {table['c'], F.col('c'), mixed, SQL string, F.expr(text), None, aliased, constants} x assignment style {table['c'], F.col('c'), mixed, literal} x {update, delete}; "
            "targeted: (a) 37 laws of two-valued logic / arithmetic (p|~p, ~(p&~p), x==x, x-x==0, absorption, ...) instantiated with every kind of atom (comparison, IN-list, LIKE, boolean column, IS NULL, <=>, composite) over tables that contain an all-NULL row; "
            "(b) predicates with IN (SELECT ...) / EXISTS subqueries on a second table that shares column names with the target (bare, o.-qualified and correlated references; as SQL string, F.expr, and mixed with table['c']); "
            "(c) SQL-string predicates spelled with double-quoted strings, backticks, ==, !=, upper-case names over string data containing column names, a quote and a backslash; "
            "random sequences of 1..4 statements (all of the above mixed in) with build/execute orders (paired, deferred, permuted, executed twice), on one reused handle or a fresh handle per call; "
            "non-trivial = distinct cases whose final table differs from the initial one and is non-empty",
            "traces_validated_against_impl": sum(r["first_model_diff"] is None for r in res),
            "cases_agreeing_with_specification": hist.get("ok", 0),
            "cases_with_known_finding": hist.get("known", 0),
            "cases_outside_the_property(declared scope D_refStyles; model still compared)": hist.get("declared", 0),
            "cases_changing_the_table": changed_rows,
            "laziness_observations(table read after each build)": lazy_checked,
            "generated_decisions_checked_against_live_builder": n_gen,
            "predicate_texts_compared_with_pyspark(recorded)": spark_n,
            "predicate_texts_compared_with_pyspark(live)": spark_live,
            "statement_kind_histogram": kind_hist,
            "predicate_style_histogram": pred_hist,
            "family_histogram": origin_hist,
            "predicate_node_histogram(IN-list, LIKE, subqueries)": node_hist,
            "sql_spelling_histogram": spell_hist,
            "two_valued_identities_exercised": len(identity_hist),
            "assignment_reference_histogram": rhs_hist,
            "length_histogram": dict(sorted(len_hist.items())),
            "implementation_errors": err_hist,
            "samples": [{"program": show_case(r["case"])[:700], "sql": [o["sql"] for o in r["impl"] if o["sql"]], "final": r["impl"][-1]["table"]} for r in res[:: max(1, len(res) // 4)][:4]],
        }
    )
    ctx.assumptions += [
        "DuckDB's UPDATE / DELETE mean what Impl/C15Dml.lean `sqlUpdate` / `sqlDelete` say (right-hand sides read the old row, NULL selects nothing), scalar expressions what `evalS` says (three-valued logic, IN as a chain of ORed equalities, LIKE with % and _, a bare name inside a subquery is the subquery table's column if it has one of that name and the target row's otherwise), and a reference binds inside the statement iff it is bare or qualified with the statement's table (`dmlScope`): validated by this stream on every case, table read directly from the connection after every build and every execute (the subquery's table must be unchanged too)",
        "Spark SQL reads a double-quoted token as a string literal, a backticked one as an identifier, and a backslash inside a literal as an escape (`sparkLex`, `unescape`); sqlglot's lexers per dialect are what `lexOf` says (compared with the installed sqlglot on every run)" + ("; a sample of SQL-string predicates was compared with live PySpark (DataFrame.filter)" if ctx.cov.get("pyspark_filter_checked") else ""),
        "assignments are well-typed (integer expressions to bigint columns, strings to varchar columns) and values stay far below BIGINT overflow: the model is untyped and unbounded",
        "rows are compared as bags (the tables contain duplicates and NULLs)",
        "the specification reads table['c'], F.col('c') and names inside SQL strings as the row's own column c (Delta-style update / delete); there is no PySpark DataFrame API to compare with",
    ]


def _leaves(e: t.Any) -> t.List[str]:
    e = tuple_(e)
    if e[0] == "col":
        return [e[1]]
    out: t.List[str] = []
    for x in e[1:]:
        if isinstance(x, tuple):
            out += _leaves(x)
    return out


def replay(ctx: Ctx, rp: dict) -> None:
    c = rp.get("case")
    if not c:
        print("replay names a broken obligation, not an input:", rp.get("broken"))
        return
    known = known_entries()
    r = evaluate([c], workers=1)[0]
    cl, _ = classify(r, known)
    print(json.dumps(dict(replay_dict(cl, c, r), classification=cl), indent=1, default=str))
    if cl in ("violation", "model"):
        vlib.report_violation(ctx, replay_dict(cl, c, r))
