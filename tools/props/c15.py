"""
C15 — table.update / table.delete change exactly the rows the predicate selects; nothing changes
before execute().

proof      : lean/SqlframeModel/Props/C15.lean (C15_requalify, C15_update, C15_delete, C15_null_pred,
             C15_no_pred, C15_lazy, C15_seq over the regenerated Gen.Dml)
tie        : Gen.Dml regenerated from /repo on every run (tools/gen_c15.py), compared with the statement
             text the live builder produces, and the correspondence stream below:
             real sqlframe + DuckDB   vs   Impl/C15Dml.lean `stepCmd`   vs   the specification
search     : the same stream compares the implementation with the specification directly
"""
from __future__ import annotations

import json
import os
import random
import typing as t

import exprs as X
import vlib
from vlib import Ctx, bag, log, lval, plain

ID = "C15"
LEVEL = "proof"
MODULES = ["SqlframeModel.Codec.C15", "SqlframeModel.Props.C15"]  # the codec is what the driver imports; the audit uses the last one
GEN = ["Dml"]
SOURCES = ["SqlframeModel/Props/C15.lean", "SqlframeModel/Lemmas/C15.lean", "SqlframeModel/Impl/C15Dml.lean"]

SCHEMAS = [{"k": "int", "z": "int", "s": "str"}, {"k": "int", "z": "int"}, {"k": "int", "z": "int", "y": "int", "s": "str"}]
PRED_STYLES = ["handle", "fcol", "mixed", "sql", "absent", "aliased", "const_py", "const_lit", "const_sql"]
CONST_STYLES = ("const_py", "const_lit", "const_sql")
RHS_STYLES = ["handle", "fcol", "mixed", "literal"]

# ------------------------------------------------------------------------------------------------
# expressions with a reference style per column leaf: ("col", "<q>:<name>") with q in {cte, none}
# ------------------------------------------------------------------------------------------------


def tuple_(e: t.Any) -> t.Any:
    if isinstance(e, (list, tuple)):
        return tuple(tuple_(x) for x in e)
    return e


def qualify(e: tuple, style: str, rng: random.Random) -> tuple:
    if e[0] == "col":
        q = {"handle": "cte", "fcol": "none", "sql": "none", "aliased": "cte"}.get(style) or rng.choice(["cte", "none"])
        return ("col", f"{q}:{e[1]}")
    return tuple(qualify(x, style, rng) if isinstance(x, tuple) else x for x in e)


def to_lean_q(j: t.Any) -> t.Any:
    """X.to_lean output -> QExpr JSON (split the style prefix off every column name)"""
    if isinstance(j, dict):
        if set(j) == {"col"}:
            q, n = j["col"]["n"].split(":", 1)
            return {"col": {"q": q, "n": n}}
        return {k: to_lean_q(v) for k, v in j.items()}
    if isinstance(j, list):
        return [to_lean_q(x) for x in j]
    return j


def qexpr(e: tuple) -> t.Any:
    return to_lean_q(X.to_lean(tuple_(e)))


def to_sql(e: tuple) -> str:
    e = tuple_(e)
    k = e[0]
    if k == "col":
        return e[1].split(":", 1)[1]
    if k == "lit":
        v = e[1]
        if v is None:
            return "NULL"
        if isinstance(v, bool):
            return "TRUE" if v else "FALSE"
        if isinstance(v, int):
            return str(v) if v >= 0 else f"({v})"
        return "'" + v.replace("'", "''") + "'"
    if k == "bin":
        sym = {"add": "+", "sub": "-", "mul": "*", "lt": "<", "le": "<=", "gt": ">", "ge": ">=", "eq": "=", "ne": "<>", "and": "AND", "or": "OR", "nseq": "<=>"}[e[1]]
        return f"({to_sql(e[2])} {sym} {to_sql(e[3])})"
    if k == "not":
        return f"(NOT {to_sql(e[1])})"
    if k == "neg":
        return f"(-{to_sql(e[1])})"
    if k == "isNull":
        return f"({to_sql(e[1])} IS NULL)"
    if k == "ite":
        return f"CASE WHEN {to_sql(e[1])} THEN {to_sql(e[2])} ELSE {to_sql(e[3])} END"
    raise ValueError(e)


def pred_text(p: dict) -> str:
    """the SQL string handed to where=: fully parenthesised, or with the outer parentheses dropped"""
    txt = to_sql(p["e"])
    if p.get("lower"):
        txt = txt.lower()
    if not p.get("wrapped", True) and txt.startswith("(") and txt.endswith(")"):
        return txt[1:-1]
    return txt


def is_wrapped(txt: str) -> bool:
    """is the text one parenthesised expression (the opening parenthesis closes at the very end)?"""
    if not (txt.startswith("(") and txt.endswith(")")):
        return False
    depth = 0
    in_str = False
    for i, ch in enumerate(txt):
        if ch == "'":
            in_str = not in_str
        if in_str:
            continue
        if ch == "(":
            depth += 1
        elif ch == ")":
            depth -= 1
            if depth == 0 and i < len(txt) - 1:
                return False
    return True


def show_q(e: tuple) -> str:
    e = tuple_(e)
    if e[0] == "col":
        q, n = e[1].split(":", 1)
        return f"tb[{n!r}]" if q == "cte" else f"F.col({n!r})"
    if e[0] == "lit":
        return f"F.lit({e[1]!r})"
    s = X.show(e)
    return s


def show_expr(e: tuple) -> str:
    e = tuple_(e)
    k = e[0]
    if k in ("col", "lit"):
        return show_q(e)
    if k == "bin":
        sym = {"add": "+", "sub": "-", "mul": "*", "lt": "<", "le": "<=", "gt": ">", "ge": ">=", "eq": "==", "ne": "!=", "and": "&", "or": "|", "nseq": "<=>"}[e[1]]
        return f"({show_expr(e[2])} {sym} {show_expr(e[3])})"
    if k == "not":
        return f"~{show_expr(e[1])}"
    if k == "neg":
        return f"-{show_expr(e[1])}"
    if k == "isNull":
        return f"{show_expr(e[1])}.isNull()"
    if k == "ite":
        return f"F.when({show_expr(e[1])}, {show_expr(e[2])}).otherwise({show_expr(e[3])})"
    return str(e)


# ------------------------------------------------------------------------------------------------
# generation
# ------------------------------------------------------------------------------------------------


def gen_pred(rng: random.Random, schema: t.Dict[str, str], style: t.Optional[str] = None) -> dict:
    style = style or rng.choice(PRED_STYLES)
    if style == "absent":
        return {"style": "absent"}
    if style in CONST_STYLES:
        # the whole predicate is a boolean constant: Python bool, F.lit(bool) or the SQL text TRUE / FALSE
        p = {"style": style, "e": ("lit", rng.random() < 0.35)}
        if style == "const_sql":
            p["lower"] = rng.random() < 0.5
        return p
    g = X.Gen(rng, schema)
    e = g.bool_expr(rng.choice([0, 1, 2]))
    if rng.random() < 0.12:
        # a predicate that is NULL on every row / on rows with NULLs
        e = ("bin", "eq", ("col", rng.choice(list(schema))), ("lit", None))
    p = {"style": style, "e": qualify(tuple_(e), style, rng)}
    if style == "sql":
        p["wrapped"] = rng.random() < 0.5
    return p


def gen_sets(rng: random.Random, schema: t.Dict[str, str], style: t.Optional[str] = None) -> t.List[dict]:
    style = style or rng.choice(RHS_STYLES)
    g = X.Gen(rng, schema)
    keys = rng.sample(list(schema), rng.choice([1, 1, 2]))
    out = []
    for key in keys:
        ty = schema[key]
        if style == "literal":
            v = rng.choice([0, 1, 7, -1, None]) if ty == "int" else rng.choice(["", "a", "zz", None])
            e: tuple = ("lit", v)
        else:
            e = g.int_expr(1) if ty == "int" else g.str_expr(0)
            e = qualify(tuple_(e), style, rng)
        out.append({"key": key, "key_style": rng.choice(["str", "handle", "fcol"]), "e": e, "alias": style != "literal" and rng.random() < 0.06})
    return out


def gen_dml(rng: random.Random, schema: t.Dict[str, str], pred_style: t.Optional[str] = None, rhs_style: t.Optional[str] = None, kind: t.Optional[str] = None) -> dict:
    kind = kind or rng.choice(["update", "update", "delete"])
    if kind == "update":
        return {"k": "update", "sets": gen_sets(rng, schema, rhs_style), "pred": gen_pred(rng, schema, pred_style)}
    return {"k": "delete", "pred": gen_pred(rng, schema, pred_style)}


def gen_case(rng: random.Random, n_dml: int, **kw: t.Any) -> dict:
    schema = dict(rng.choice(SCHEMAS))
    rows = X.gen_table(rng, schema, max_rows=6)
    dmls = [gen_dml(rng, schema, **kw) for _ in range(n_dml)]
    # command order: mostly build;execute pairs, sometimes deferred / swapped / repeated executes
    cmds: t.List[t.Any] = []
    mode = rng.random()
    if mode < 0.7 or n_dml == 1:
        for i in range(n_dml):
            cmds += [["build", i], ["exec", i]]
        if rng.random() < 0.15:
            cmds.append(["exec", rng.randrange(n_dml)])  # executing a LazyExpression twice
    elif mode < 0.85:
        cmds = [["build", i] for i in range(n_dml)] + [["exec", i] for i in range(n_dml)]
    else:
        order = list(range(n_dml))
        rng.shuffle(order)
        cmds = [["build", i] for i in range(n_dml)] + [["exec", i] for i in order]
    return {"schema": schema, "rows": rows, "dmls": dmls, "cmds": cmds, "reuse_handle": rng.random() < 0.5}


# ------------------------------------------------------------------------------------------------
# encoders
# ------------------------------------------------------------------------------------------------


def pred_to_lean(p: dict) -> t.Any:
    st = p["style"]
    if st == "absent":
        return "absent"
    if st in ("sql", "const_sql"):
        return {"sql": {"e": qexpr(p["e"]), "text": pred_text(p), "wrapped": is_wrapped(pred_text(p))}}
    return {"expr": {"e": qexpr(p["e"]), "aliased": st == "aliased"}}


def rhs_aliased(s: dict) -> bool:
    """the value Column carries an alias: `.alias(…)`, or a top-level F.when (aliased automatically)"""
    return bool(s.get("alias")) or tuple_(s["e"])[0] == "ite"


def dml_to_lean(d: dict) -> t.Any:
    if d["k"] == "update":
        return {"update": {"sets": [[s["key"], qexpr(s["e"])] for s in d["sets"]], "pred": pred_to_lean(d["pred"]), "rhsAliased": any(rhs_aliased(s) for s in d["sets"])}}
    return {"delete": {"pred": pred_to_lean(d["pred"])}}


def case_to_lean(i: int, c: dict) -> dict:
    cmds = []
    for kind, j in c["cmds"]:
        cmds.append({"build": {"d": dml_to_lean(c["dmls"][j])}} if kind == "build" else {"exec": {"i": _lazy_index(c, j)}})
    return {"case": i, "table": X.table_to_lean(list(c["schema"]), c["rows"]), "cmds": cmds}


def _lazy_index(c: dict, j: int) -> int:
    """position of dml j's LazyExpression in build order"""
    order = [jj for kind, jj in c["cmds"] if kind == "build"]
    return order.index(j)


def show_pred(p: dict) -> str:
    st = p["style"]
    if st == "absent":
        return "None"
    if st in ("sql", "const_sql"):
        return repr(pred_text(p))
    if st == "const_py":
        return repr(tuple_(p["e"])[1])
    s = show_expr(p["e"])
    return s + ".alias('p')" if st == "aliased" else s


ALIAS_SUFFIX = ".alias('v')"


def show_dml(d: dict) -> str:
    if d["k"] == "update":
        ks = {"str": lambda k: repr(k), "handle": lambda k: f"tb[{k!r}]", "fcol": lambda k: f"F.col({k!r})"}
        sets = ", ".join(f"{ks[s['key_style']](s['key'])}: {show_expr(s['e'])}{ALIAS_SUFFIX if s.get('alias') else ''}" for s in d["sets"])
        return f"tb.update({{{sets}}}, where={show_pred(d['pred'])})"
    return f"tb.delete(where={show_pred(d['pred'])})"


def show_case(c: dict) -> str:
    head = f"tb[{', '.join(k + ':' + v for k, v in c['schema'].items())}]{c['rows']}: "
    parts = []
    for kind, j in c["cmds"]:
        parts.append(f"e{j} = {show_dml(c['dmls'][j])}" if kind == "build" else f"e{j}.execute()")
    return head + "; ".join(parts) + (" (one handle)" if c.get("reuse_handle") else " (fresh handle per call)")


# ------------------------------------------------------------------------------------------------
# the real implementation
# ------------------------------------------------------------------------------------------------


class _Shim:
    """routes ("col", "<q>:<name>") leaves to table['name'] or F.col('name')"""

    def __init__(self, tb: t.Any, F: t.Any):
        self.tb, self.F = tb, F
        self.lit, self.when = F.lit, F.when

    def col(self, n: str) -> t.Any:
        q, name = n.split(":", 1)
        return self.tb[name] if q == "cte" else self.F.col(name)


def build_impl(session: t.Any, tb: t.Any, d: dict) -> t.Any:
    from sqlframe.duckdb import functions as F

    sh = _Shim(tb, F)
    p = d["pred"]
    st = p["style"]
    if st == "absent":
        where: t.Any = None
    elif st in ("sql", "const_sql"):
        where = pred_text(p)
    elif st == "const_py":
        where = tuple_(p["e"])[1]
    else:
        where = X.to_column(tuple_(p["e"]), sh)
        if st == "aliased":
            where = where.alias("p")
    if d["k"] == "delete":
        return tb.delete(where=where)
    set_: t.Dict[t.Any, t.Any] = {}
    for s in d["sets"]:
        key = {"str": s["key"], "handle": tb[s["key"]], "fcol": F.col(s["key"])}[s["key_style"]]
        e = tuple_(s["e"])
        if e[0] == "lit" and isinstance(e[1], int) and not isinstance(e[1], bool) and not s.get("alias"):
            val: t.Any = e[1]  # a bare Python literal
        else:
            val = X.to_column(e, sh)
            if s.get("alias"):
                val = val.alias("v")
        set_[key] = val
    return tb.update(set_, where=where)


def run_impl(c: dict) -> t.List[dict]:
    import logging

    logging.getLogger("sqlframe").setLevel(logging.ERROR)
    session = vlib.fresh_duckdb_session()
    conn = session._conn
    cols = list(c["schema"])
    ddl = ", ".join(f"{k} {'bigint' if ty == 'int' else 'varchar'}" for k, ty in c["schema"].items())
    conn.execute(f"create table tb ({ddl})")
    if c["rows"]:
        conn.executemany(f"insert into tb values ({', '.join('?' for _ in cols)})", [tuple(r) for r in c["rows"]])

    def snapshot() -> dict:
        rows = conn.execute("select * from tb").fetchall()
        desc = conn.execute("describe tb").fetchall()
        return {"cols": [d[0] for d in desc], "rows": [[plain(v) for v in r] for r in rows]}

    handle = session.table("tb") if c.get("reuse_handle") else None
    lazies: t.Dict[int, t.Any] = {}
    out = []
    for kind, j in c["cmds"]:
        obs: t.Dict[str, t.Any] = {"built": None, "exec": None, "err": None, "sql": None}
        if kind == "build":
            try:
                tb = handle if handle is not None else session.table("tb")
                le = build_impl(session, tb, c["dmls"][j])
                lazies[j] = le
                obs["built"] = "ok"
                obs["sql"] = str(le)
            except Exception as e:  # noqa
                lazies[j] = None
                obs["built"] = "raises"
                obs["err"] = f"{type(e).__name__}: {str(e)[:120]}"
        else:
            le = lazies.get(j)
            if le is None:
                obs["exec"] = "noop"
            else:
                try:
                    le.execute()
                    obs["exec"] = "ok"
                except Exception as e:  # noqa
                    obs["exec"] = "error"
                    obs["err"] = f"{type(e).__name__}: {str(e)[:120]}"
        obs["table"] = snapshot()
        out.append(obs)
    return out


def same_table(a: dict, b: dict) -> bool:
    return a["cols"] == b["cols"] and bag(a["rows"]) == bag(b["rows"])


def _preimport() -> None:
    """import sqlframe (no connection is opened) so that forked children start warm"""
    import sys

    if vlib.REPO not in sys.path:
        sys.path.insert(0, vlib.REPO)
    import duckdb  # noqa
    import sqlframe.duckdb  # noqa
    from sqlframe.duckdb import functions  # noqa


def isolated_map(fn: t.Callable[[t.Any], t.Any], items: t.List[t.Any]) -> t.List[t.Any]:
    """every item in its own freshly forked process: nothing a statement leaves behind in the interpreter
    (module state, caches, default arguments) can leak from one case into another, so every replay is
    reproducible on its own; this process itself never runs the implementation"""
    if not items:
        return []
    import multiprocessing as mp

    _preimport()
    n = max(1, min(int(os.environ.get("VERIF_WORKERS", "8")), os.cpu_count() or 1, len(items)))
    with mp.get_context("fork").Pool(n, maxtasksperchild=1) as pool:
        return pool.map(fn, items, chunksize=1)


def evaluate(cases: t.List[dict], workers: int = 0, isolated: bool = True) -> t.List[dict]:
    """`isolated=False` (the bulk stream only): cases share pooled worker processes, which is ~10x faster;
    every case that fails there is evaluated again in a process of its own before anything is reported"""
    outs = vlib.run_driver("C15", [case_to_lean(i, c) for i, c in enumerate(cases)])
    impls = isolated_map(run_impl, cases) if isolated else vlib.parallel_map(run_impl, cases, workers)
    res = []
    for c, o, impl in zip(cases, outs, impls):
        if "err" in o:
            raise RuntimeError(f"driver rejected a case: {o}")
        steps = []
        first_spec = first_model = None
        for i, (cmd, st, ob) in enumerate(zip(c["cmds"], o["steps"], impl)):
            m_ok = same_table(ob["table"], st["model"]) and ob["built"] == st["built"] and ob["exec"] == st["exec"]
            s_ok = same_table(ob["table"], st["spec"])
            if cmd[0] == "build":
                # the specification never refuses to build a well-formed statement
                s_ok = s_ok and ob["built"] == "ok"
            else:
                s_ok = s_ok and ob["exec"] == st["specExec"]
            steps.append({"impl_eq_model": m_ok, "impl_eq_spec": s_ok, "scope": st["scope"]})
            if first_model is None and not m_ok:
                first_model = i
            if first_spec is None and not s_ok:
                first_spec = i
        res.append({"case": c, "driver": o["steps"], "impl": impl, "steps": steps, "first_spec_diff": first_spec, "first_model_diff": first_model})
    return res


# ------------------------------------------------------------------------------------------------
# the generated decisions against the statements the live builder produces
# ------------------------------------------------------------------------------------------------


def check_gen_against_live(ctx: Ctx) -> int:
    """runs in a forked child (see isolated_map); returns the number of comparisons, appends disagreements"""
    n, broken = isolated_map(_gen_against_live, [0])[0]
    ctx.broken.extend(broken)
    return n


class _B:
    def __init__(self) -> None:
        self.broken: t.List[str] = []


def _gen_against_live(_: t.Any) -> t.Tuple[int, t.List[str]]:
    ctx = _B()
    try:
        n = _gen_against_live_body(ctx)
    except Exception as e:  # noqa  (a probe of the live builder failed outright: that is a disagreement too)
        n = 0
        ctx.broken.append(f"comparison of Gen.Dml with the live builder raised {type(e).__name__}: {str(e)[:160]}")
    return n, ctx.broken


def _gen_against_live_body(ctx: t.Any) -> int:
    import logging

    from sqlglot import exp

    logging.getLogger("sqlframe").setLevel(logging.ERROR)
    gen = vlib.run_driver("C15", [{"case": 0, "gen": True}])[0]["gen"]
    session = vlib.fresh_duckdb_session()
    session._conn.execute("create table tb (k bigint, z bigint)")
    from sqlframe.duckdb import functions as F

    n = 0

    def expect(what: str, got: t.Any, want: t.Any) -> None:
        nonlocal n
        n += 1
        if got != want:
            ctx.broken.append(f"Gen.Dml.{what} = {want!r} but the live builder shows {got!r}")

    def qual_name(q: str) -> str:
        return q.rsplit(".", 1)[1]

    tb = session.table("tb")
    # default predicate
    e = tb.delete().expression
    expect("defaultPred", e.args["where"].this.sql().upper(), "TRUE" if gen["defaultPred"] else "FALSE")
    expect("deleteTarget", "phys" if e.this.name == "tb" else "other:" + e.this.name, qual_name(gen["deleteTarget"]))
    # predicate re-qualification per reference style: [none, cte, phys, other]
    e = tb.delete(where=tb["k"] == 1).expression
    col = next(e.args["where"].find_all(exp.Column))
    to = qual_name(gen["predTo"])
    want_tbl = {"phys": "tb", "none": ""}.get(to, "<cte>") if gen["predMatches"][1] else "<cte>"
    got_tbl = col.table if col.table in ("tb", "") else "<cte>"
    expect("predMatches[cte]/predTo", got_tbl, want_tbl)
    e = tb.delete(where=F.col("k") == 1).expression
    col = next(e.args["where"].find_all(exp.Column))
    expect("predMatches[none]", col.table, ("tb" if to == "phys" else "<cte>") if gen["predMatches"][0] else "")
    # alias stripping
    e = tb.delete(where=(tb["k"] == 1).alias("p")).expression
    expect("predAliasStripped", not isinstance(e.args["where"].this, exp.Alias), gen["predAliasStripped"])
    # string predicate
    e = tb.delete(where="k = 1").expression
    expect("predStringParsed", not isinstance(e.args["where"].this, exp.Column), gen["predStringParsed"])
    # assignment values
    e = tb.update({"z": tb["z"] + 1}, where=tb["k"] == 1).expression
    col = next(e.expressions[0].expression.find_all(exp.Column))
    expect("rhsMatches[cte]/rhsTo", col.table, "tb" if (gen["rhsMatches"][1] and qual_name(gen["rhsTo"]) == "phys") else col.table + "?")
    expect("updateTarget", "phys" if e.this.name == "tb" else "other:" + e.this.name, qual_name(gen["updateTarget"]))
    try:
        tb.update({"z": F.col("k")}, where=tb["k"] == 1)
        raised = False
    except ValueError:
        raised = True
    expect("rhsElseRaises && !rhsMatches[none]", raised, bool(gen["rhsElseRaises"] and not gen["rhsMatches"][0]))
    e = tb.update({"z": (tb["z"] + 1).alias("v")}, where=tb["k"] == 1).expression
    expect("rhsAliasStripped", not isinstance(e.expressions[0].expression, exp.Alias), gen["rhsAliasStripped"])
    # laziness
    before = session._conn.execute("select count(*) from tb").fetchall()
    session._conn.execute("insert into tb values (1, 1)")
    le = tb.delete(where=tb["k"] == 1)
    expect("buildExecutes", session._conn.execute("select count(*) from tb").fetchall()[0][0] == 0, gen["buildExecutes"])
    le.execute()
    expect("executeRuns", session._conn.execute("select count(*) from tb").fetchall()[0][0] == 0, gen["executeRuns"])
    return n


# ------------------------------------------------------------------------------------------------
# classification, shrinking
# ------------------------------------------------------------------------------------------------


def known_entries() -> t.Dict[str, dict]:
    known = {e["id"]: e for e in vlib.known_findings(ID)}
    extra = os.path.join(os.path.dirname(os.path.abspath(__file__)), "c15.known.json")
    if os.path.exists(extra):
        for e in json.load(open(extra)).get("findings", []):
            if e.get("property") == ID and e.get("status") == "open":
                known.setdefault(e["id"], e)
    return known


def classify(r: dict, known: t.Dict[str, dict]) -> t.Tuple[str, t.List[str]]:
    i, j = r["first_spec_diff"], r["first_model_diff"]
    if j is not None and (i is None or j <= i):
        return "model", []
    if i is None:
        return "ok", []
    sc = r["steps"][i]["scope"]
    hs = [h for h in sc if h.startswith("H_")]
    if not sc:
        return "violation", []
    if all(h in known for h in hs):
        return ("known", hs) if hs else ("declared", [h for h in sc if h.startswith("D_")])
    return "violation", hs


def shrink(c: dict, bad: t.Callable[[dict], bool], rounds: int = 12) -> dict:
    best = c
    for _ in range(rounds):
        cands = []
        n = len(best["dmls"])
        if n > 1:
            for j in range(n):
                dm = best["dmls"][:j] + best["dmls"][j + 1 :]
                cm = [[k, (x if x < j else x - 1)] for k, x in best["cmds"] if x != j]
                cands.append(dict(best, dmls=dm, cmds=cm))
        for i in range(len(best["rows"])):
            cands.append(dict(best, rows=best["rows"][:i] + best["rows"][i + 1 :]))
        for j, d in enumerate(best["dmls"]):
            if d["k"] == "update" and len(d["sets"]) > 1:
                for si in range(len(d["sets"])):
                    d2 = dict(d, sets=d["sets"][:si] + d["sets"][si + 1 :])
                    cands.append(dict(best, dmls=best["dmls"][:j] + [d2] + best["dmls"][j + 1 :]))
        if not cands:
            break
        res = evaluate(cands, workers=1)
        nxt = next((r["case"] for r in res if bad(r)), None)
        if nxt is None:
            break
        best = nxt
    return best


# ------------------------------------------------------------------------------------------------
# the check
# ------------------------------------------------------------------------------------------------


def cases_for(ctx: Ctx) -> t.List[dict]:
    rng = ctx.rng
    cases = []
    d = os.path.join(vlib.VERIF, "corpus", ID)
    if os.path.isdir(d):
        for fn in sorted(os.listdir(d)):
            if fn.endswith(".json"):
                c = json.load(open(os.path.join(d, fn)))
                c["origin"] = "corpus:" + fn
                cases.append(c)
    reps = 6 if ctx.thorough else 2
    for ps in PRED_STYLES:
        for rs in RHS_STYLES:
            for kind in ("update", "delete"):
                if kind == "delete" and rs != "handle":
                    continue
                for _ in range(reps):
                    c = gen_case(rng, 1, pred_style=ps, rhs_style=rs, kind=kind)
                    c["origin"] = "style-grid"
                    cases.append(c)
    for _ in range(3000 if ctx.thorough else 260):
        c = gen_case(rng, rng.randint(1, 4))
        c["origin"] = "random"
        cases.append(c)
    return cases


def replay_dict(kind: str, c: dict, r: dict) -> dict:
    i = r["first_spec_diff"] if r["first_spec_diff"] is not None else r["first_model_diff"]
    d: t.Dict[str, t.Any] = {"kind": kind, "program": show_case(c), "case": c, "failing_step": i}
    if i is not None:
        ob, st = r["impl"][i], r["driver"][i]
        cmd = c["cmds"][i]
        d["failing_call"] = (f"e{cmd[1]} = " + show_dml(c["dmls"][cmd[1]])) if cmd[0] == "build" else f"e{cmd[1]}.execute()  where e{cmd[1]} = {show_dml(c['dmls'][cmd[1]])}"
        d["sql"] = next((o["sql"] for o, cm in zip(r["impl"], c["cmds"]) if cm == ["build", cmd[1]]), None)
        d["implementation"] = {"built": ob["built"], "exec": ob["exec"], "error": ob["err"], "table": ob["table"]}
        d["specification"] = {"exec": st["specExec"], "table": st["spec"]}
        d["model"] = {"built": st["built"], "exec": st["exec"], "table": st["model"]}
        d["violated_scope_hypotheses"] = st["scope"]
    return d


def run(ctx: Ctx) -> None:
    idx = vlib.props_index()[ID]
    vlib.prove(ctx, MODULES, GEN, idx["theorems"], SOURCES)
    known = known_entries()

    # the stream forks worker processes: nothing may touch DuckDB in this process before it ran
    cases = cases_for(ctx)
    res = evaluate(cases, isolated=False)
    # a failure seen in a shared worker process is confirmed in a process of its own (what a replay does)
    suspects = [i for i, r in enumerate(res) if classify(r, known)[0] in ("violation", "model")]
    leaked = 0
    if suspects:
        again = evaluate([res[i]["case"] for i in suspects[:40]])
        for i, r in zip(suspects[:40], again):
            if classify(r, known)[0] not in ("violation", "model"):
                leaked += 1
            res[i] = r
        if leaked and leaked == len(again):
            ctx.broken.append(f"{leaked} cases differ from the model only when they share an interpreter with earlier cases: the builder keeps state between statements")
    nb = len(ctx.broken)
    try:
        n_gen = check_gen_against_live(ctx)
    except Exception as e:  # noqa  (a probe of the live builder failed outright: that is a disagreement too)
        n_gen = 0
        ctx.broken.append(f"comparison of Gen.Dml with the live builder raised {type(e).__name__}: {str(e)[:160]}")
    del ctx.broken[nb + 5 :]

    viol, model_bad = [], []
    hist: t.Dict[str, int] = {}
    for r in res:
        cl, hs = classify(r, known)
        hist[cl] = hist.get(cl, 0) + 1
        if cl == "known":
            for h in hs:
                vlib.report_known(ctx, known[h], known[h]["summary"])
        elif cl == "violation":
            viol.append(r)
        elif cl == "model":
            model_bad.append(r)

    for h, e in known.items():
        w = e.get("witness")
        if not w:
            continue
        r = evaluate([w], workers=1)[0]
        if r["first_spec_diff"] is not None:
            vlib.report_known(ctx, e, e["summary"])
        else:
            log(f"known finding {h}: the recorded witness no longer fails")

    if model_bad:
        r = model_bad[0]
        ctx.broken.append(f"correspondence stream (implementation vs Impl/C15Dml.lean): {len(model_bad)} of {len(res)} cases differ; first: {show_case(r['case'])[:300]} at step {r['first_model_diff']}")

    reported = 0
    for r in (viol + model_bad)[:3]:
        c = shrink(r["case"], lambda rr: classify(rr, known)[0] in ("violation", "model"))
        rr = evaluate([c], workers=1)[0]
        if classify(rr, known)[0] not in ("violation", "model"):
            c, rr = r["case"], evaluate([r["case"]], workers=1)[0]
            if classify(rr, known)[0] not in ("violation", "model"):
                continue  # not reproducible in a process of its own: covered by the state-leak obligation above
        kind = "implementation differs from the specification" if rr["first_spec_diff"] is not None else "implementation differs from the model (correspondence broken)"
        vlib.report_violation(ctx, dict(replay_dict(kind, c, rr), broken=ctx.broken))
        reported += 1
    if ctx.broken and not reported:
        vlib.report_violation(ctx, {"kind": "proof obligation or generated decision no longer checks; no failing input found", "broken": ctx.broken, "searched": {"cases": len(res)}}, no_input=True)

    pred_hist: t.Dict[str, int] = {}
    rhs_hist: t.Dict[str, int] = {}
    kind_hist: t.Dict[str, int] = {}
    len_hist: t.Dict[str, int] = {}
    err_hist: t.Dict[str, int] = {}
    nontrivial = set()
    lazy_checked = 0
    changed_rows = 0
    for r in res:
        c = r["case"]
        len_hist[str(len(c["dmls"]))] = len_hist.get(str(len(c["dmls"])), 0) + 1
        for d in c["dmls"]:
            kind_hist[d["k"]] = kind_hist.get(d["k"], 0) + 1
            pred_hist[d["pred"]["style"]] = pred_hist.get(d["pred"]["style"], 0) + 1
            if d["k"] == "update":
                for s in d["sets"]:
                    st = "literal" if tuple_(s["e"])[0] == "lit" else ("/".join(sorted({q.split(":")[0] for q in _leaves(s["e"])})) or "const-expr")
                    rhs_hist[st] = rhs_hist.get(st, 0) + 1
        for cmd, ob in zip(c["cmds"], r["impl"]):
            lazy_checked += cmd[0] == "build"
            if ob["err"]:
                k = ob["err"].split(":")[0]
                err_hist[k] = err_hist.get(k, 0) + 1
        final = r["impl"][-1]["table"]["rows"]
        init = [[plain(v) for v in row] for row in c["rows"]]
        if bag(final) != bag(init):
            changed_rows += 1
            if final:
                nontrivial.add(vlib.digest([c["rows"], c["dmls"], c["cmds"]]))
    ctx.cov.update(
        {
            "evaluations": len(res),
            "distinct_nontrivial": len(nontrivial),
            "rule": "corpus; every predicate style {table['c'], F.col('c'), mixed, SQL string, None, aliased} x assignment style {table['c'], F.col('c'), mixed, literal} x {update, delete}; "
            "random sequences of 1..4 statements with build/execute orders (paired, deferred, permuted, executed twice), on one reused handle or a fresh handle per call; "
            "non-trivial = distinct cases whose final table differs from the initial one and is non-empty",
            "traces_validated_against_impl": sum(r["first_model_diff"] is None for r in res),
            "cases_agreeing_with_specification": hist.get("ok", 0),
            "cases_with_known_finding": hist.get("known", 0),
            "cases_changing_the_table": changed_rows,
            "laziness_observations(table read after each build)": lazy_checked,
            "generated_decisions_checked_against_live_builder": n_gen,
            "statement_kind_histogram": kind_hist,
            "predicate_style_histogram": pred_hist,
            "assignment_reference_histogram": rhs_hist,
            "length_histogram": dict(sorted(len_hist.items())),
            "implementation_errors": err_hist,
            "samples": [{"program": show_case(r["case"])[:700], "sql": [o["sql"] for o in r["impl"] if o["sql"]], "final": r["impl"][-1]["table"]} for r in res[:: max(1, len(res) // 4)][:4]],
        }
    )
    ctx.assumptions += [
        "DuckDB's UPDATE / DELETE mean what Impl/C15Dml.lean `sqlUpdate` / `sqlDelete` say (right-hand sides read the old row, NULL selects nothing), and a reference binds inside the statement iff it is bare or qualified with the statement's table (`dmlScope`): validated by this stream on every case, table read directly from the connection after every build and every execute",
        "assignments are well-typed (integer expressions to bigint columns, strings to varchar columns) and values stay far below BIGINT overflow: the model is untyped and unbounded",
        "rows are compared as bags (the tables contain duplicates and NULLs)",
        "the specification reads table['c'], F.col('c') and names inside SQL strings as the row's own column c (Delta-style update / delete); there is no PySpark DataFrame API to compare with",
    ]


def _leaves(e: t.Any) -> t.List[str]:
    e = tuple_(e)
    if e[0] == "col":
        return [e[1]]
    out: t.List[str] = []
    for x in e[1:]:
        if isinstance(x, tuple):
            out += _leaves(x)
    return out


def replay(ctx: Ctx, rp: dict) -> None:
    c = rp.get("case")
    if not c:
        print("replay names a broken obligation, not an input:", rp.get("broken"))
        return
    known = known_entries()
    r = evaluate([c], workers=1)[0]
    cl, _ = classify(r, known)
    print(json.dumps(dict(replay_dict(cl, c, r), classification=cl), indent=1, default=str))
    if cl in ("violation", "model"):
        vlib.report_violation(ctx, replay_dict(cl, c, r))
