"""
c03_agg.py — C03's aggregate pipelines: every *route* by which a program asks for an aggregate, followed by every kind
of *consumer* that sqlglot's optimizer would merge with the aggregating block if it did not recognise it as one.

Why this family exists.  What `df.sql(optimize=True)` means is decided by sqlglot's rule list, and several rules
(merge_subqueries, pushdown_predicates, pushdown_projections, eliminate_joins, qualify_columns) decide by the *class*
of the nodes they meet: a block is kept apart because one of its projections is an `exp.AggFunc`.  The text of a node
does not show its class: `AVG("v")` renders the same from `exp.Avg` and from `exp.Anonymous(this="AVG")`.  A
whole-table aggregate (no GROUP BY) has nothing else that keeps its block apart, so its class is all that stands
between `SELECT … FROM d CROSS JOIN (SELECT AVG(v) AS a FROM d) WHERE v > a` and the meaningless
`… FROM d CROSS JOIN d AS d_2 WHERE v > AVG(d_2.v)`.

routes     F.<fn>(col)  ·  GroupedData.avg/max/min/sum/mean(*cols)  ·  GroupedData.count()  ·  agg({col: fn}) with any
           spelling of fn  ·  DataFrame.agg(...)        — each with and without grouping keys
consumers  none · where on the aggregate · select / withColumn over it · orderBy+limit · a second aggregation · crossJoin
           back to the detail rows (+ where / select) · join on a condition · join on the key (+ where) · union with
           another aggregate · two whole-table aggregates compared with each other
observed   (a) all 8 renderings executed against collect() (c03.run_texts' judgement, with floats compared to 9 digits);
           (b) the node class of every aggregate item of the aggregating block, and whether sqlglot's `_mergeable`
               refuses that block — both compared with the Lean model (Impl/C03Agg.lean over Gen/C03Agg.lean).
"""
from __future__ import annotations

import itertools
import json
import random
import typing as t

import vlib

FLAGS = list(itertools.product([True, False], [True, False], [True, False]))  # optimize, quote_identifiers, pretty

SHORTCUTS = ["avg", "max", "min", "sum", "mean"]
CONSUMERS_ANY = ["none", "where", "select", "withColumn", "order_limit", "agg_again", "agg_again_shortcut", "cross_where", "cross_select", "join_cond", "union", "two_aggs"]
CONSUMERS_KEYED = ["join_key", "join_key_left"]
NEEDS_NAME = {"union", "where", "select", "withColumn", "order_limit", "agg_again", "agg_again_shortcut", "cross_where", "cross_select", "join_cond", "join_key", "join_key_left", "two_aggs"}

# ------------------------------------------------------------------------------------------------
# session, detail tables
# ------------------------------------------------------------------------------------------------

_S = None


def session():
    global _S
    if _S is None:
        import c03

        _S = c03.bases()[0]
    return _S


def detail(rows: t.List[t.List[t.Any]]):
    from sqlglot.schema import MappingSchema

    s = session()
    s.catalog._schema = MappingSchema()
    return s.createDataFrame([tuple(r) for r in rows], schema="k bigint, v bigint")


# ------------------------------------------------------------------------------------------------
# census of the aggregate functions the functions module offers (decided by running them, not by a list)
# ------------------------------------------------------------------------------------------------

_CENSUS: t.Optional[t.Dict[str, dict]] = None
CENSUS_ROWS = [[1, 10], [2, 20], [2, 21], [None, 5], [3, 40], [1, 12]]


def engine_aggregates() -> t.Set[str]:
    conn = session()._conn
    return {r[0].lower() for r in conn.execute("select distinct function_name from duckdb_functions() where function_type = 'aggregate'").fetchall()}


def node_info(root: t.Any, eng: t.Set[str]) -> dict:
    """what the optimizer can and cannot see in one select item: its root class, the typed aggregate classes in its tree,
    and the anonymous functions in it that the engine knows as aggregates (outside a window)"""
    from sqlglot import exp

    root = root.unalias()
    typed = sorted({type(n).__name__ for n in root.find_all(exp.AggFunc)})
    opaque = sorted({n.name.upper() for n in root.find_all(exp.Anonymous) if n.name.lower() in eng and not n.find_ancestor(exp.Window)})
    return {"root": type(root).__name__, "anon": root.name.upper() if isinstance(root, exp.Anonymous) else None, "typed": typed, "opaque": opaque}


def census() -> t.Dict[str, dict]:
    """functions of sqlframe.base.functions over one or two columns that aggregate on this engine: name -> node info,
    arity, whether sqlframe.duckdb.functions offers it, and whether the whole-table and per-key values are the same for the
    rows in any order (only those are used in executed programs)"""
    global _CENSUS
    if _CENSUS is not None:
        return _CENSUS
    import inspect
    import logging

    logging.getLogger("sqlframe").setLevel(logging.ERROR)

    from sqlframe.base import functions as BF
    from sqlframe.duckdb import functions as EF
    from sqlglot import exp

    eng = engine_aggregates()
    D1 = detail(CENSUS_ROWS)
    D2 = detail(list(reversed(CENSUS_ROWS)))
    out: t.Dict[str, dict] = {}
    for name, f in sorted(vars(BF).items()):
        if name.startswith("_") or not callable(f) or getattr(f, "__module__", "") != "sqlframe.base.functions":
            continue
        try:
            ps = list(inspect.signature(f).parameters.values())
        except (TypeError, ValueError):
            continue
        req = [p for p in ps if p.default is inspect.Parameter.empty and p.kind in (p.POSITIONAL_ONLY, p.POSITIONAL_OR_KEYWORD)]
        if len(req) not in (1, 2):
            continue
        cols = ["v", "k"][: len(req)]
        try:
            c = f(*cols)
            info = node_info(c.expression, eng)
        except Exception:  # noqa
            continue
        info["arity"] = len(req)
        if not info["typed"] and not info["opaque"]:
            continue
        if c.expression.find(exp.Window):
            continue
        info["runs"] = False
        info["in_engine_module"] = hasattr(EF, name)
        try:
            r1 = [canon_row(r) for r in D1.groupBy().agg(f(*cols).alias("a")).collect()]
            r2 = [canon_row(r) for r in D2.groupBy().agg(f(*cols).alias("a")).collect()]
            g1 = vlib.bag(canon_row(r) for r in D1.groupBy("k").agg(f(*cols).alias("a")).collect())
            g2 = vlib.bag(canon_row(r) for r in D2.groupBy("k").agg(f(*cols).alias("a")).collect())
            info["runs"] = r1 == r2 and g1 == g2 and len(r1) == 1 and not isinstance(r1[0][0], (list, dict))
        except Exception:  # noqa
            pass
        out[name] = info
    _CENSUS = out
    return out


# ------------------------------------------------------------------------------------------------
# canonical values
# ------------------------------------------------------------------------------------------------


def canon_val(v: t.Any) -> t.Any:
    import decimal

    if v is None or isinstance(v, (bool, int, str)):
        return v
    if isinstance(v, decimal.Decimal):
        v = float(v)
    if isinstance(v, float):
        if v != v:
            return "NaN"
        if v in (float("inf"), float("-inf")):
            return str(v)
        return float(f"{v:.9g}")  # stated tolerance: 9 significant digits (the optimizer may change the order of a float sum)
    if isinstance(v, (list, tuple)):
        return [canon_val(x) for x in v]
    return str(v)


def canon_row(r: t.Iterable[t.Any]) -> t.List[t.Any]:
    return [canon_val(v) for v in r]


# ------------------------------------------------------------------------------------------------
# programs
# ------------------------------------------------------------------------------------------------


def spell(fn: str, how: str) -> str:
    return {"lower": fn.lower(), "upper": fn.upper(), "title": fn.title()}[how]


def call_fn(F: t.Any, fn: str) -> t.Any:
    """F.<fn> over the value column (and the key column, for the two-column aggregates: corr, covar_pop, regr_…)"""
    import inspect

    f = getattr(F, fn)
    req = [p for p in inspect.signature(f).parameters.values() if p.default is inspect.Parameter.empty and p.kind in (p.POSITIONAL_ONLY, p.POSITIONAL_OR_KEYWORD)]
    return f(*["v", "k"][: max(1, len(req))])


def aggregate(D: t.Any, c: dict, route: t.Optional[dict] = None) -> t.Any:
    from sqlframe.duckdb import functions as F

    r = route or c["route"]
    keys = c["keys"]
    G = getattr(D, c.get("grouping", "groupBy") if keys else "groupBy")(*keys)  # groupBy / cube
    if r["kind"] == "fn":
        return G.agg(*[call_fn(F, fn).alias(f"a{i}") for i, fn in enumerate(r["fns"])])
    if r["kind"] == "dfagg":
        return D.agg(*[call_fn(F, fn).alias(f"a{i}") for i, fn in enumerate(r["fns"])])
    if r["kind"] == "shortcut":
        return getattr(G, r["method"])(*r["cols"])
    if r["kind"] == "dict":
        return G.agg({"v": spell(r["fn"], r.get("spell", "lower"))})
    if r["kind"] == "count":
        return G.count()
    raise ValueError(r)


def renamed(A: t.Any, c: dict, prefix: str = "a") -> t.Tuple[t.Any, t.List[str]]:
    """the aggregated frame with usable names: keys stay, aggregate columns become <prefix>0, <prefix>1, … by the chosen means"""
    how = c.get("rename", "toDF")
    old = list(A.columns)
    nk = len(c["keys"])
    new = old[:nk] + [f"{prefix}{i}" for i in range(len(old) - nk)]
    if how == "keep" or old == new:
        return A, old[nk:]
    if how == "toDF":
        return A.toDF(*new), new[nk:]
    if how == "renamed":
        for o, n in zip(old[nk:], new[nk:]):
            A = A.withColumnRenamed(o, n)
        return A, new[nk:]
    raise ValueError(how)


def build(c: dict) -> t.Tuple[t.Any, t.Any]:
    """(the program's DataFrame, the aggregated DataFrame it is built on)"""
    from sqlframe.duckdb import functions as F

    D = detail(c["rows"])
    A0 = aggregate(D, c)
    k = c["consumer"]
    if k == "none":
        A, _ = renamed(A0, c)
        return A, A0
    A, names = renamed(A0, c)
    a = names[0]
    keys = c["keys"]
    Dt = D if c.get("detail", "same") == "same" else detail(c["rows"])
    th = c.get("th", 10)
    if k == "where":
        return A.where(F.col(a) > F.lit(th)), A0
    if k == "select":
        return A.select(*keys, (F.col(a) + F.lit(1)).alias("b")), A0
    if k == "withColumn":
        return A.withColumn("b", F.col(a) * F.lit(2)), A0
    if k == "order_limit":
        return A.orderBy(F.col(a).desc_nulls_last(), *[F.col(x).asc_nulls_first() for x in keys]).limit(2), A0
    if k == "agg_again":
        return A.groupBy().agg(F.max(a).alias("m"), F.count(F.lit(1)).alias("n")), A0
    if k == "agg_again_shortcut":
        return A.groupBy().max(a), A0
    # consumers that go back to the detail rows: the aggregate's key column gets its own name
    A2 = A.withColumnRenamed("k", "k2") if keys else A
    if k == "cross_where":
        return Dt.crossJoin(A2).where(F.col("v") > F.col(a)).select("k", "v"), A0
    if k == "cross_select":
        return Dt.crossJoin(A2).select("k", (F.col("v") - F.col(a)).alias("d")), A0
    if k == "join_cond":
        return Dt.join(A2, F.col("v") >= F.col(a)).select("k", "v"), A0
    if k in ("join_key", "join_key_left"):
        return Dt.join(A, on="k", how="inner" if k == "join_key" else "left").where(F.col("v") >= F.col(a)).select("k", "v", a), A0
    if k == "union":
        B0 = aggregate(Dt, c, c["route2"])
        B = B0.toDF(*keys, *[f"u{i}" for i in range(len(B0.columns) - len(keys))])
        return A.select(*keys, F.col(a).alias("u")).union(B.select(*keys, F.col("u0").alias("u"))), A0
    if k == "two_aggs":
        B0 = aggregate(Dt, dict(c, keys=[]), c["route2"])
        B = B0.toDF(*[f"b{i}" for i in range(len(B0.columns))])
        return A2.crossJoin(B).where(F.col(a) >= F.col("b0")).select(a, "b0"), A0
    raise ValueError(k)


def show(c: dict) -> str:
    r = c["route"]
    ks = ", ".join(repr(x) for x in c["keys"])
    gb = c.get("grouping", "groupBy") if c["keys"] else "groupBy"

    def call(fn: str) -> str:
        return f"F.{fn}('v', 'k')" if (_CENSUS or {}).get(fn, {}).get("arity", 1) == 2 else f"F.{fn}('v')"

    def route(r: dict) -> str:
        if r["kind"] == "fn":
            return f"{gb}({ks}).agg(" + ", ".join(f"{call(fn)}.alias('a{i}')" for i, fn in enumerate(r["fns"])) + ")"
        if r["kind"] == "dfagg":
            return "agg(" + ", ".join(f"{call(fn)}.alias('a{i}')" for i, fn in enumerate(r["fns"])) + ")"
        if r["kind"] == "shortcut":
            return f"{gb}({ks}).{r['method']}(" + ", ".join(repr(x) for x in r["cols"]) + ")"
        if r["kind"] == "dict":
            return f"{gb}({ks}).agg({{'v': {spell(r['fn'], r.get('spell', 'lower'))!r}}})"
        return f"{gb}({ks}).count()"

    s = f"D{c['rows']}.{route(r)} [rename={c.get('rename', 'toDF')}] -> {c['consumer']}"
    if c.get("route2"):
        s += f" with D.{route(c['route2'])}"
    if c["consumer"] in ("cross_where", "cross_select", "join_cond", "join_key", "join_key_left", "union", "two_aggs"):
        s += f" [detail={c.get('detail', 'same')}]"
    return s


def route_fns(r: dict) -> t.List[str]:
    if r["kind"] in ("fn", "dfagg"):
        return list(r["fns"])
    if r["kind"] == "shortcut":
        return [r["method"]]
    if r["kind"] == "dict":
        return [r["fn"].lower()]
    return ["count"]


def case_fns(c: dict) -> t.List[str]:
    return route_fns(c["route"]) + (route_fns(c["route2"]) if c.get("route2") else [])


def valid(c: dict) -> bool:
    k = c["consumer"]
    if k in CONSUMERS_KEYED and not c["keys"]:
        return False
    if c["route"]["kind"] == "dfagg" and c["keys"]:
        return False
    if c.get("grouping", "groupBy") != "groupBy" and (not c["keys"] or k == "order_limit"):
        return False  # (a grand-total row may tie with a group's row under ORDER BY … LIMIT)
    if c.get("rename") == "keep" and k in NEEDS_NAME:
        return False
    if k in ("union", "two_aggs") and not c.get("route2"):
        return False
    if c["route"]["kind"] == "shortcut" and not c["route"]["cols"]:
        return False
    if c["route"]["kind"] in ("fn", "dfagg") and not c["route"]["fns"]:
        return False
    return True


# ------------------------------------------------------------------------------------------------
# running one program on the real code
# ------------------------------------------------------------------------------------------------


def run_texts(df: t.Any) -> t.Tuple[t.List[str], t.Dict[str, t.Any]]:
    """every flag combination: never fails, self-contained, and returns collect()'s rows (as a bag) and names"""
    import c03

    conn = session()._conn
    fails: t.List[str] = []
    artefacts = 0
    try:
        R = df.collect()
        C = [canon_row(r) for r in R]
    except Exception as e:  # noqa
        return [], {"uncollectable": f"{type(e).__name__}: {str(e)[:160]}"}
    cols = list(R[0].__fields__) if R else list(df.columns)
    for opt, quote, pretty in FLAGS:
        tag = f"optimize={opt},quote_identifiers={quote},pretty={pretty}"
        try:
            text = df.sql(dialect="duckdb", optimize=opt, quote_identifiers=quote, pretty=pretty)
        except Exception as e:  # noqa
            fails.append(f"[{tag}] sql() raised {type(e).__name__}: {str(e)[:120]}")
            continue
        try:
            names, refs, open_ = c03.chain_of(text)
            for pb in c03.closed_unique(names, refs, open_):
                fails.append(f"[{tag}] {pb}")
        except Exception as e:  # noqa
            fails.append(f"[{tag}] text does not parse back: {type(e).__name__}: {str(e)[:120]}")
        try:
            cur = conn.execute(text)
            got_cols = [d[0] for d in cur.description]
            got = [canon_row(r) for r in cur.fetchall()]
        except Exception as e:  # noqa
            fails.append(f"[{tag}] the engine rejects the text: {type(e).__name__}: {str(e).splitlines()[0][:160]}")
            continue
        if got_cols != cols:
            fails.append(f"[{tag}] column names {got_cols} differ from collect()'s {cols}")
        if vlib.bag(got) != vlib.bag(C):
            if c03.engine_artefact(conn, df, text, lambda rs: vlib.bag(canon_row(r) for r in rs)):
                artefacts += 1
            else:
                fails.append(f"[{tag}] rows differ from collect(): {got[:6]} vs {C[:6]}")
    return fails, {"collect": C, "cols": cols, "engine_artefacts": artefacts}


def inner_view(A0: t.Any, nkeys: int) -> dict:
    """the aggregating block as sqlglot's merge_subqueries sees it: which Select args are set, the node classes of each
    projection, and the answer of the real `_mergeable` when the block is read by a plain outer SELECT"""
    from sqlglot import exp
    from sqlglot.optimizer import merge_subqueries as M
    from sqlglot.optimizer.scope import traverse_scope

    eng = engine_aggregates()
    sel = A0.expression
    args = sorted(k for k, v in sel.args.items() if v and k not in ("with",))
    items = [node_info(e, eng) for e in sel.expressions[nkeys:]]
    classes = [sorted({type(n).__name__ for n in e.walk()}) for e in sel.expressions]
    # the real decision, for the least demanding reader there is: SELECT <every column> FROM (<block>) AS q
    inner = sel.copy()
    inner.set("with", None)
    src = inner.args.get("from")
    outer = exp.select(*[exp.column(e.alias_or_name, table="q", quoted=True) for e in sel.expressions]).from_(inner.subquery("q", copy=False), copy=False)
    real = None
    try:
        for sc in traverse_scope(outer):
            for sub in sc.derived_tables:
                fj = sub.find_ancestor(exp.From, exp.Join)
                real = bool(M._mergeable(sc, sc.sources[sub.alias_or_name], False, fj))
    except Exception as e:  # noqa
        real = f"error: {type(e).__name__}: {str(e)[:80]}"
    return {"args": args, "items": items, "classes": classes, "names": [e.alias_or_name for e in sel.expressions], "mergeable": real, "has_from": src is not None}


def run_case(c: dict) -> dict:
    try:
        df, A0 = build(c)
    except Exception as e:  # noqa
        return {"fails": [f"building the program raised {type(e).__name__}: {str(e)[:200]}"], "view": None}
    try:
        view = inner_view(A0, len(c["keys"]))
    except Exception as e:  # noqa
        view = {"error": f"{type(e).__name__}: {str(e)[:200]}"}
    fails, info = run_texts(df)
    return {"fails": fails, "view": view, "uncollectable": info.get("uncollectable"), "cols": info.get("cols"), "engine_artefacts": info.get("engine_artefacts", 0)}


# ------------------------------------------------------------------------------------------------
# generation
# ------------------------------------------------------------------------------------------------


def gen_rows(rng: random.Random) -> t.List[t.List[t.Any]]:
    n = rng.choice([4, 5, 6, 7])
    vs = rng.sample([3, 5, 8, 10, 12, 20, 21, 30, 40, 41, 55], n)  # distinct values: no ties in ORDER BY … LIMIT
    return [[rng.choice([1, 2, 2, 3, None]), v] for v in vs]


def gen_route(rng: random.Random, fns: t.List[str], keyed: bool, fn: t.Optional[str] = None) -> dict:
    kind = rng.choice(["fn", "fn", "shortcut", "shortcut", "dict", "dict", "count"] + ([] if keyed else ["dfagg"]))
    if fn is not None and kind in ("shortcut", "count"):
        kind = rng.choice(["fn", "dict"])
    if kind in ("fn", "dfagg"):
        first = fn or rng.choice(fns)
        return {"kind": kind, "fns": [first] + [rng.choice(fns) for _ in range(rng.choice([0, 0, 1]))]}
    if kind == "shortcut":
        return {"kind": "shortcut", "method": rng.choice(SHORTCUTS), "cols": rng.choice([["v"], ["v"], ["v", "k"]] if not keyed else [["v"]])}
    if kind == "dict":
        return {"kind": "dict", "fn": fn or rng.choice([f for f in fns if by_name_ok(f)]), "spell": rng.choice(["lower", "lower", "upper", "title"])}
    return {"kind": "count"}


def gen_case(rng: random.Random, fns: t.List[str], consumer: t.Optional[str] = None, keyed: t.Optional[bool] = None, route: t.Optional[dict] = None) -> dict:
    if keyed is None:
        keyed = rng.random() < 0.35
    if consumer is None:
        consumer = rng.choice(CONSUMERS_ANY + (CONSUMERS_KEYED if keyed else []))
    if consumer in CONSUMERS_KEYED:
        keyed = True
    route = route or gen_route(rng, fns, keyed)
    if route["kind"] == "dfagg":
        keyed = False
    c = {
        "fam": "agg",
        "rows": gen_rows(rng),
        "keys": ["k"] if keyed else [],
        "route": route,
        "rename": rng.choice(["toDF", "renamed"]) if consumer in NEEDS_NAME else rng.choice(["toDF", "renamed", "keep"]),
        "consumer": consumer,
        "detail": rng.choice(["same", "other"]),
        "th": rng.choice([4, 10, 20, 25]),
    }
    if keyed and consumer != "order_limit" and rng.random() < 0.4:
        c["grouping"] = "cube"
    if consumer in ("union", "two_aggs"):
        c["route2"] = gen_route(rng, fns, keyed and consumer == "union")
        if c["route2"]["kind"] == "dfagg" and keyed and consumer == "union":
            c["route2"]["kind"] = "fn"
        if consumer == "union" and c["route2"]["kind"] == "shortcut":
            c["route2"]["cols"] = ["v"]
    return c


MERGING = ["where", "cross_where", "cross_select", "join_cond", "agg_again", "two_aggs"]
ROUTE_KINDS = ["fn", "shortcut", "dict", "count", "dfagg"]


def route_of_kind(rng: random.Random, fns: t.List[str], keyed: bool, kind: str) -> t.Optional[dict]:
    for _ in range(40):
        r = gen_route(rng, fns, keyed)
        if r["kind"] == kind:
            return r
    return None


def by_name_ok(fn: str) -> bool:
    """`agg({col: fn})` lower-cases the name before it looks it up and calls it with one column: only names that survive
    that are asked for by name"""
    return fn == fn.lower() and (_CENSUS or {}).get(fn, {}).get("arity", 1) == 1


def family(rng: random.Random, thorough: bool, cz: t.Dict[str, dict], listed: t.Set[str]) -> t.List[dict]:
    """(1) every consumer x route kind, whole-table and keyed — all route kinds under the consumers the optimizer would
           merge with a whole-table aggregate, a draw of route kinds elsewhere (thorough: all);
       (2) every shortcut method, whole-table, under a merging consumer (thorough: four);
       (3) every function the census finds emitted as a node sqlglot cannot recognise and that the open known finding
           does not list: by function and by name, whole-table, under two merging consumers (always, not sampled);
       (4) a draw (thorough: all) of the other aggregate functions by function and by name;  (5) random programs"""
    runnable = sorted(n for n, i in cz.items() if i["runs"] and i.get("in_engine_module"))
    out: t.List[dict] = []
    for keyed in (False, True):
        for cons in CONSUMERS_ANY + (CONSUMERS_KEYED if keyed else []):
            kinds = [k for k in ROUTE_KINDS if not (k == "dfagg" and keyed)]
            if not thorough and not (cons in MERGING and not keyed):
                kinds = rng.sample(kinds, 1)
            for rk in kinds:
                r = route_of_kind(rng, runnable, keyed, rk)
                if r is not None:
                    out.append(gen_case(rng, runnable, cons, keyed, r))
    for i, sm in enumerate(SHORTCUTS):
        for cons in (("where", "cross_where")[i % 2],) if not thorough else ("where", "cross_where", "join_cond", "two_aggs"):
            out.append(gen_case(rng, runnable, cons, False, {"kind": "shortcut", "method": sm, "cols": ["v"]}))
    unlisted = sorted(n for n, i in cz.items() if i["opaque"] and not i["typed"] and n not in listed)
    sample = runnable if thorough else rng.sample(runnable, min(len(runnable), 4))
    for fn in unlisted + [f for f in sample if f not in unlisted]:
        routes = []
        if cz[fn].get("in_engine_module"):
            routes.append({"kind": "fn", "fns": [fn]})
        if by_name_ok(fn):
            routes.append({"kind": "dict", "fn": fn, "spell": rng.choice(["lower", "upper"])})
        for r in routes:
            for cons in ("where", "cross_where") if (thorough or fn in unlisted) else (rng.choice(["where", "cross_where", "join_cond"]),):
                c = gen_case(rng, runnable, cons, False, r)
                c["detail"] = "other"
                out.append(c)
    for _ in range(200 if thorough else 10):
        out.append(gen_case(rng, runnable))
    return [c for c in out if valid(c)]


# ------------------------------------------------------------------------------------------------
# Lean side: the route as the model reads it
# ------------------------------------------------------------------------------------------------


def route_to_lean(r: dict) -> t.Any:
    if r["kind"] in ("fn", "dfagg"):
        return {"fns": {"items": [[fn, ["v", f"a{i}"]] for i, fn in enumerate(r["fns"])]}}
    if r["kind"] == "shortcut":
        return {"shortcut": {"method": r["method"], "cols": r["cols"]}}
    if r["kind"] == "dict":
        return {"dict": {"pairs": [["v", spell(r["fn"], r.get("spell", "lower"))]]}}
    return "count"


def case_to_lean(i: int, c: dict) -> dict:
    return {"case": i, "agg": {"keys": c["keys"], "route": route_to_lean(c["route"])}}


# ------------------------------------------------------------------------------------------------
# shrinking and classification
# ------------------------------------------------------------------------------------------------


def shrink(c: dict, still_fails: t.Callable[[dict], bool]) -> dict:
    best = c
    for _ in range(6):
        cands: t.List[dict] = []
        r = best["route"]
        if r["kind"] in ("fn", "dfagg") and len(r["fns"]) > 1:
            cands.append(dict(best, route=dict(r, fns=r["fns"][:1])))
        if r["kind"] == "shortcut" and len(r["cols"]) > 1:
            cands.append(dict(best, route=dict(r, cols=r["cols"][:1])))
        if best.get("rename") != "toDF" and best["consumer"] in NEEDS_NAME:
            cands.append(dict(best, rename="toDF"))
        if best.get("detail") == "same":
            cands.append(dict(best, detail="other"))
        if best.get("grouping", "groupBy") != "groupBy":
            cands.append({k: v for k, v in best.items() if k != "grouping"})
        if best["keys"] and best["consumer"] not in CONSUMERS_KEYED and not (best["consumer"] == "union"):
            cands.append({k: v for k, v in dict(best, keys=[]).items() if k != "grouping"})
        for i in range(len(best["rows"])):
            if len(best["rows"]) > 1:
                cands.append(dict(best, rows=best["rows"][:i] + best["rows"][i + 1 :]))
        nxt = next((x for x in cands if valid(x) and still_fails(x)), None)
        if nxt is None:
            break
        best = nxt
    return best


def with_typed(c: dict, opaque: t.Set[str]) -> t.Optional[dict]:
    """the same program with every function of `opaque` replaced by `sum` (a function the optimizer recognises)"""

    def fix(r: dict) -> dict:
        if r["kind"] in ("fn", "dfagg"):
            return dict(r, fns=["sum" if f in opaque else f for f in r["fns"]])
        if r["kind"] == "dict" and r["fn"].lower() in opaque:
            return dict(r, fn="sum")
        return r

    d = dict(c, route=fix(c["route"]))
    if c.get("route2"):
        d["route2"] = fix(c["route2"])
    return d if d != c else None


# ------------------------------------------------------------------------------------------------
# the generated tables against the running code
# ------------------------------------------------------------------------------------------------


def live_tables(_: t.Any = None) -> dict:
    """what the generated definitions claim, read off the live objects (runs in a worker process)"""
    import inspect
    import logging

    logging.getLogger("sqlframe").setLevel(logging.ERROR)

    from sqlframe.base import functions as BF
    from sqlframe.base.group import _BaseGroupedData
    from sqlglot import exp
    from sqlglot.optimizer import merge_subqueries as M

    session()
    roots: t.Dict[str, t.Any] = {}
    for name, f in sorted(vars(BF).items()):
        if name.startswith("_") or not callable(f) or getattr(f, "__module__", "") != "sqlframe.base.functions":
            continue
        try:
            ps = [p for p in inspect.signature(f).parameters.values() if p.default is inspect.Parameter.empty and p.kind in (p.POSITIONAL_ONLY, p.POSITIONAL_OR_KEYWORD)]
            e = f(*["v"] * len(ps)).expression.unalias()
            roots[name] = ["anonymous", e.name] if isinstance(e, exp.Anonymous) else ["typed", type(e).__name__]
        except Exception:  # noqa  (arguments of another type: not exercised)
            pass

    def subs(c: type) -> t.Set[str]:
        out = {c.__name__}
        for k in c.__subclasses__():
            out |= subs(k)
        return out

    class _S:  # what `_get_function_applied_columns` needs of its receiver
        @staticmethod
        def _sanitize_column_name(n: str) -> str:
            return n

    class _G:
        session = _S

    by_name = {}
    for spelled in ("avg", "MAX", "Sum"):
        cols = _BaseGroupedData._get_function_applied_columns(_G, spelled, ("v", "k"))  # type: ignore
        by_name[spelled] = [[type(c.expression.unalias()).__name__, c.expression.alias_or_name] for c in cols]
    return {
        "roots": roots,
        "agg": sorted(subs(exp.AggFunc)),
        "barrier": sorted(set().union(*[subs(getattr(exp, r)) for r in ("AggFunc", "Select", "Explode")])),
        "unmergeable": sorted(M.UNMERGABLE_ARGS),
        "by_name": by_name,
    }


def compare_tables(model: dict, live: dict) -> t.List[str]:
    bad: t.List[str] = []
    exercised = 0
    for fn, node in model["fnNodeTable"]:
        if fn in live["roots"]:
            exercised += 1
            if [node["kind"], node["name"]] != live["roots"][fn]:
                bad.append(f"Gen.fnNodeTable says functions.{fn} returns {node['kind']} {node['name']}, the running code returns {live['roots'][fn]}")
    if exercised < len(model["fnNodeTable"]) // 2:
        bad.append(f"only {exercised} of {len(model['fnNodeTable'])} entries of Gen.fnNodeTable could be exercised")
    if sorted(model["aggFuncClasses"]) != live["agg"]:
        bad.append(f"Gen.aggFuncClasses differs from exp.AggFunc's subclasses: {sorted(set(model['aggFuncClasses']) ^ set(live['agg']))}")
    if sorted(set(model["mergeBarrierClasses"])) != live["barrier"]:
        bad.append(f"Gen.mergeBarrierClasses differs from the live classes: {sorted(set(model['mergeBarrierClasses']) ^ set(live['barrier']))}")
    if sorted(model["unmergeableArgs"]) != live["unmergeable"]:
        bad.append(f"Gen.unmergeableArgs differs from merge_subqueries.UNMERGABLE_ARGS: {sorted(set(model['unmergeableArgs']) ^ set(live['unmergeable']))}")
    table = {fn: node for fn, node in model["fnNodeTable"]}
    for spelled, items in live["by_name"].items():
        f = spelled.lower() if model["byNameLowers"] else spelled
        want = [[(table.get(f) or {}).get("name"), f"{f}({col})"] for col in ("v", "k")]
        if items != want:
            bad.append(f"_get_function_applied_columns({spelled!r}, ('v', 'k')) builds {items}, the generated dispatch says {want}")
    return bad[:6]


# ------------------------------------------------------------------------------------------------
# the stream
# ------------------------------------------------------------------------------------------------


def only_optimized(fails: t.List[str]) -> bool:
    return bool(fails) and all(f.startswith("[optimize=True") for f in fails)


def in_worker(fn: t.Callable[[t.Any], t.Any], arg: t.Any = None) -> t.Any:
    """run in a forked process (the parent must not touch DuckDB before it forks its worker pools)"""
    import multiprocessing as mp

    with mp.get_context("fork").Pool(1) as pool:
        return pool.apply(fn, (arg,))


def _census_worker(_: t.Any) -> t.Tuple[dict, dict]:
    return census(), live_tables()


def compare_model(c: dict, o: dict, o_block: t.Optional[dict], view: t.Optional[dict]) -> t.List[str]:
    """the model's reading of the route against the aggregating block of the real tree"""
    if view is None or "error" in view:
        return [f"the aggregating block of the real tree could not be read: {view}"]
    if o.get("noRoute") or "items" not in o:
        return [f"the model has no such route: {o}"]
    bad = []
    nk = len(c["keys"])
    if view["names"][nk:] != [i["alias"] for i in o["items"]]:
        bad.append(f"aggregate columns are named {view['names'][nk:]}, the model says {[i['alias'] for i in o['items']]}")
    for i, info in zip(o["items"], view["items"]):
        node = i["node"]
        if node["kind"] == "typed" and info["root"] != node["name"]:
            bad.append(f"functions.{i['fn']} is a {info['root']} node in the real tree, the model says {node['name']}")
        if node["kind"] == "anonymous" and (info["root"] != "Anonymous" or info["anon"] != node["name"]):
            bad.append(f"functions.{i['fn']} is a {info['root']} {info['anon'] or ''} node in the real tree, the model says Anonymous {node['name']}")
        if node["kind"] != "unknown" and i["typedAgg"] != (info["root"] in info["typed"]):
            bad.append(f"functions.{i['fn']}: the model says typed aggregate = {i['typedAgg']}, sqlglot's isinstance(AggFunc) says {info['root'] in info['typed']}")
    if sorted(o["block"]["args"]) != sorted(view["args"]):
        bad.append(f"the aggregating SELECT has the arguments {sorted(view['args'])} set, the model says {sorted(o['block']['args'])}")
    real_refuses = view["mergeable"] is False
    if view["mergeable"] not in (True, False):
        bad.append(f"sqlglot's _mergeable could not be asked: {view['mergeable']}")
    elif all(i["node"]["kind"] != "unknown" for i in o["items"]) and o["refuses"] != real_refuses:
        bad.append(f"the model says the block is {'kept apart' if o['refuses'] else 'mergeable'}, sqlglot's _mergeable says {'kept apart' if real_refuses else 'mergeable'}")
    if o_block is not None and view["mergeable"] in (True, False) and o_block.get("refuses") != real_refuses:
        bad.append(f"innerRefuses on the observed block says {o_block.get('refuses')}, sqlglot's _mergeable says {'kept apart' if real_refuses else 'mergeable'} (args {view['args']})")
    return bad


def excused(c: dict, fails: t.List[str], opaque: t.List[str], listed: t.Set[str], runner: t.Callable[[dict], dict]) -> bool:
    """a failure is the open known finding H_optOpaqueAggregate iff only optimized renderings fail, the model says the
    program uses functions emitted as nodes sqlglot cannot recognise, all of them are listed in the finding, and the
    same program with those functions replaced by a recognised one (`sum`) has no failure at all"""
    if not only_optimized(fails) or not opaque or not set(opaque) <= listed:
        return False  # (the driver reports H_optOpaqueAggregate as violated exactly when `opaque` is not empty)
    twin = with_typed(c, set(opaque))
    if twin is None or not valid(twin):
        return False
    r = runner(twin)
    return not r["fails"] and not r.get("uncollectable")


def run_family(ctx: t.Any, known: t.Dict[str, dict]) -> t.Tuple[t.List[dict], t.Dict[str, t.Any]]:
    """returns (violations, coverage); appends broken correspondences to ctx.broken; reports the known finding"""
    kf = known.get("H_optOpaqueAggregate")
    listed = set(((kf or {}).get("witness") or {}).get("functions", []))
    global _CENSUS
    cz, live = in_worker(_census_worker)
    _CENSUS = cz
    cases = family(ctx.rng, ctx.thorough, cz, listed)
    impls = vlib.parallel_map(run_case, cases)
    lean: t.List[dict] = []
    for i, c in enumerate(cases):
        lean.append(case_to_lean(3 * i, c))
        lean.append({"case": 3 * i + 1, "agg": {"keys": [], "route": route_to_lean(c.get("route2") or c["route"])}})
        v = impls[i].get("view") or {}
        lean.append({"case": 3 * i + 2, "block": {"args": [a for a in v.get("args", [])], "projs": v.get("classes", [])}})
    lean.append({"case": 3 * len(cases), "tables": True})
    outs: t.Optional[t.List[dict]] = None
    try:
        outs = vlib.run_driver("C03", lean)
        errs = [o for o in outs if "err" in o]
        if errs:
            ctx.broken.append(f"the driver rejected {len(errs)} aggregate cases: {errs[0]}")
            outs = None
    except Exception as e:  # noqa  (the model no longer builds: the executed comparison below still looks for a failing input)
        ctx.broken.append(f"the aggregate-route model could not be run: {type(e).__name__}: {str(e)[:300]}")
    mism: t.List[dict] = []
    viol: t.List[dict] = []
    uncollectable = 0
    known_hits = 0
    table_bad: t.List[str] = []
    if outs is not None:
        global _TABLES
        _TABLES = outs[-1]
        table_bad = compare_tables(outs[-1], live)
        for b in table_bad:
            ctx.broken.append("generated definition against the running code: " + b)
    for i, (c, im) in enumerate(zip(cases, impls)):
        o = outs[3 * i] if outs is not None else None
        o2 = outs[3 * i + 1] if outs is not None else None
        ob = outs[3 * i + 2] if outs is not None else None
        bad = compare_model(c, o, ob, im.get("view")) if o is not None else []
        if bad:
            mism.append({"program": show(c), "differences": bad})
        if im.get("uncollectable"):
            uncollectable += 1
            continue
        if im["fails"]:
            opaque = sorted(set((o or {}).get("opaque", []) + ((o2 or {}).get("opaque", []) if c.get("route2") else [])))
            if kf and not bad and excused(c, im["fails"], opaque, listed, run_case):
                known_hits += 1
                vlib.report_known(ctx, kf, kf["summary"])
            else:
                viol.append({"program": show(c), "agg_case": c, "failures": im["fails"], "family": "aggregate", "model": o})
    if mism:
        ctx.broken.append(f"correspondence stream (aggregate items / merge barrier of the real tree vs Impl/C03Agg.lean): {len(mism)} of {len(cases)} programs differ, e.g. {json.dumps(mism[0])[:600]}")
    cov = {
        "aggregate_programs": len(cases),
        "aggregate_functions_in_census": len(cz),
        "aggregate_functions_executed": sorted({f for c in cases for f in case_fns(c)}),
        "aggregate_routes": {k: sum(1 for c in cases if c["route"]["kind"] == k) for k in ROUTE_KINDS},
        "aggregate_consumers": {k: sum(1 for c in cases if c["consumer"] == k) for k in CONSUMERS_ANY + CONSUMERS_KEYED},
        "aggregate_whole_table": sum(1 for c in cases if not c["keys"]),
        "aggregate_samples": [show(c) for c in cases[:: max(1, len(cases) // 4)]][:4],
        "aggregate_model_agrees": len(cases) - len(mism) if outs is not None else 0,
        "aggregate_uncollectable_skipped": uncollectable,
        "aggregate_engine_artefacts": sum(r.get("engine_artefacts", 0) for r in impls),
        "aggregate_known_finding_hits": known_hits,
        "generated_table_entries_exercised": sum(1 for fn, _ in (outs[-1]["fnNodeTable"] if outs is not None else []) if fn in live["roots"]),
        "opaque_functions_in_census": sorted(n for n, i in cz.items() if i["opaque"] and not i["typed"]),
    }
    return viol, cov


_TABLES: t.Optional[dict] = None


def py_opaque(c: dict) -> t.List[str]:
    """the model's `opaqueFns`, recomputed from the generated tables the driver printed (used while shrinking only)"""
    if _TABLES is None:
        return []
    table = {fn: node for fn, node in _TABLES["fnNodeTable"]}
    short = {m: f for m, f in _TABLES["byNameShortcuts"]}
    out = []
    for r in [c["route"]] + ([c["route2"]] if c.get("route2") else []):
        if r["kind"] in ("fn", "dfagg"):
            fns = list(r["fns"])
        elif r["kind"] == "shortcut":
            fns = [short.get(r["method"], r["method"])]
        elif r["kind"] == "dict":
            fns = [spell(r["fn"], r.get("spell", "lower"))]
        else:
            fns = [_TABLES["count"][0]]
        for f in fns:
            if r["kind"] in ("shortcut", "dict") and _TABLES["byNameLowers"]:
                f = f.lower()
            node = table.get(f)
            if not (node and node["kind"] == "typed" and node["name"] in _TABLES["aggFuncClasses"]):
                out.append(f)
    return sorted(set(out))


def shrink_violation(v: dict, known: t.Dict[str, dict]) -> dict:
    kf = known.get("H_optOpaqueAggregate")
    listed = set(((kf or {}).get("witness") or {}).get("functions", []))

    def still(x: dict) -> bool:
        r = run_case(x)
        if not r["fails"] or r.get("uncollectable"):
            return False
        return not (kf and excused(x, r["fails"], py_opaque(x), listed, run_case))

    best = shrink(v["agg_case"], still)
    return dict(v, agg_case=best, program=show(best), failures=run_case(best)["fails"])
