"""
C08 — window specifications and window functions evaluate as in Spark.

proof      : lean/SqlframeModel/Props/C08.lean (C08_bound, C08_frame_sem, C08_partial, ... over the
             regenerated Gen.Window)
tie        : Gen.Window is regenerated from /repo's window.py / column.py on every run and exercised
             against the running code (boundary integers, Column.asc()/..., builder flags); the
             correspondence stream runs F.<fn>().over(spec) on real sqlframe + DuckDB and compares
             (a) the clause the real WindowSpec holds with the clause the Lean model says it holds,
             (b) every row's value with the model (DuckDB's reading of that clause) and
             (c) with the specification (PySpark's reading of the same builder calls).
search     : (c) is the failing-input search; a difference is a KNOWN-FINDING only when the model
             predicts the implementation's output and every violated scope hypothesis is listed.
thorough   : a sample of the cases is also run on live PySpark (JVM) to validate the specification.
"""
from __future__ import annotations

import json
import math
import os
import random
import subprocess
import sys
import typing as t

import exprs as X
import vlib
from vlib import Ctx, bag, log, plain

ID = "C08"
LEVEL = "proof"
MODULES = ["SqlframeModel.Codec.C08", "SqlframeModel.Props.C08"]
GEN = ["Window", "C08Chain", "Operations", "Methods", "Clauses"]
SOURCES = [
    "SqlframeModel/Props/C08.lean",
    "SqlframeModel/Lemmas/C08.lean",
    "SqlframeModel/Impl/C08Window.lean",
    "SqlframeModel/Impl/C08Spec.lean",
    "SqlframeModel/Impl/C08Chain.lean",
    "SqlframeModel/Lemmas/C08Chain.lean",
]

UP = -(1 << 63)  # Window.unboundedPreceding
UF = (1 << 63) - 1  # Window.unboundedFollowing
EDGE = -((1 << 63) - 1)  # -sys.maxsize

SCHEMA = {"id": "int", "g": "int", "h": "str", "v": "int", "u": "int", "x": "int"}
FORMS = ["bare_str", "bare_col", "asc", "desc", "asc_nulls_first", "asc_nulls_last", "desc_nulls_first", "desc_nulls_last"]
LEAN_FORM = {
    "bare_str": "bare",
    "bare_col": "bare",
    "asc": "asc",
    "desc": "desc",
    "asc_nulls_first": "ascNullsFirst",
    "asc_nulls_last": "ascNullsLast",
    "desc_nulls_first": "descNullsFirst",
    "desc_nulls_last": "descNullsLast",
}
EXPLICIT = [f for f in FORMS if not f.startswith("bare")]

RANKING = [["row_number"], ["rank"], ["dense_rank"], ["percent_rank"], ["cume_dist"]]
AGGS = ["sum", "avg", "min", "max", "count", "first", "last"]
RATIO = {"percent_rank", "cume_dist", "avg"}
NEEDS_ORDER_NO_FRAME = {"row_number", "rank", "dense_rank", "percent_rank", "cume_dist", "ntile", "lag", "lead"}

BOUNDARY_INTS = sorted(
    {0, 1, -1, 2, -2, 5, -5, UP, UP + 1, UP - 1, UF, UF - 1, UF + 1, -UF, sys.maxsize, -sys.maxsize, 1 << 31, -(1 << 31), (1 << 31) - 1, 1 << 62, -(1 << 62), 1 << 64, -(1 << 64)}
)

# ------------------------------------------------------------------------------------------------
# generation
# ------------------------------------------------------------------------------------------------


def gen_rows(rng: random.Random, n: t.Optional[int] = None, nonneg: bool = False) -> t.List[t.List[t.Any]]:
    if n is None:
        n = rng.choice([1, 2, 3, 4, 5, 6, 7])
    vpool = [None, None, 0, 1, 1, 2, 3] if nonneg else [None, None, 0, 1, 1, 2, 3, -1, -2]
    rows = []
    for i in range(n):
        rows.append(
            [
                i,
                rng.choice([None, 1, 1, 2]),
                rng.choice([None, "a", "a", "b"]),
                rng.choice(vpool),
                rng.choice([None, 0, 1, 2]),
                rng.choice([None, None, 0, 1, 2, 5, -3, 7]),
            ]
        )
    ids = list(range(n))
    rng.shuffle(ids)  # the unique id is not in input order
    for i, r in zip(ids, rows):
        r[0] = i
    return rows


def frame_pairs() -> t.List[t.Tuple[int, int]]:
    starts = [UP, -2, -1, 0, 1]
    ends = [-1, 0, 1, 2, UF]
    pos = lambda b: -(1 << 70) if b == UP else (1 << 70) if b == UF else b  # noqa: E731
    return [(s, e) for s in starts for e in ends if pos(s) <= pos(e)]


def kparts(k: t.Sequence[t.Any]) -> t.Tuple[str, str, t.Any]:
    """an order key of a case: [name, form] (plain column) or [name, form, expr] (expression key; `name` is the
    name of the computed column the Lean model evaluates the expression into)"""
    return k[0], k[1], (tuple_(k[2]) if len(k) > 2 and k[2] is not None else None)


def name_keys(order: t.Sequence[t.Sequence[t.Any]]) -> t.List[list]:
    """give every expression key (name None) a fresh computed-column name"""
    out, i = [], 0
    for k in order:
        if len(k) > 2 and k[2] is not None:
            out.append([f"k{i}", k[1], k[2]])
            i += 1
        else:
            out.append([k[0], k[1]])
    return out


def k_lower(e: t.Any) -> tuple:
    """function-call keys in the shared expression vocabulary (what the Lean model evaluates)"""
    e = tuple_(e)
    if e[0] == "abs":
        a = k_lower(e[1])
        return ("ite", ("bin", "lt", a, ("lit", 0)), ("neg", a), a)
    if e[0] == "coalesce":
        a, b = k_lower(e[1]), k_lower(e[2])
        return ("ite", ("isNull", a), b, a)
    return tuple(k_lower(x) if isinstance(x, tuple) else x for x in e)


def k_column(e: t.Any, F: t.Any) -> t.Any:
    e = tuple_(e)
    if e[0] == "abs":
        return F.abs(k_column(e[1], F))
    if e[0] == "coalesce":
        return F.coalesce(k_column(e[1], F), k_column(e[2], F))
    return X.to_column(e, F)  # abs / coalesce only occur at the top of a key


def k_show(e: t.Any) -> str:
    e = tuple_(e)
    if e[0] == "abs":
        return f"F.abs({k_show(e[1])})"
    if e[0] == "coalesce":
        return f"F.coalesce({k_show(e[1])}, {k_show(e[2])})"
    return X.show(e)


def k_aliased(e: t.Any) -> bool:
    """is the python Column an alias?  every F.<function>() result is auto-aliased (checked live by exercise_gen)"""
    return tuple_(e)[0] in ("ite", "abs", "coalesce")


KEY_EXPRS: t.List[tuple] = [
    ("abs", ("col", "v")),
    ("coalesce", ("col", "u"), ("col", "v")),
    ("neg", ("col", "v")),
    ("bin", "add", ("col", "v"), ("lit", 1)),
    ("bin", "add", ("col", "v"), ("col", "id")),
    ("bin", "sub", ("lit", 0), ("col", "u")),
    ("bin", "mul", ("col", "v"), ("col", "u")),
    ("ite", ("bin", "gt", ("col", "v"), ("lit", 0)), ("col", "v"), ("col", "u")),
    ("ite", ("isNull", ("col", "u")), ("col", "v"), ("neg", ("col", "v"))),
]
EXPR_FORMS = ["bare_col"] + [f for f in FORMS if not f.startswith("bare")]


def with_null(rows: t.List[t.List[t.Any]], col: str) -> t.List[t.List[t.Any]]:
    """make sure the column has a NULL (and a non-NULL) so that null placement matters"""
    i = list(SCHEMA).index(col)
    if rows and all(r[i] is not None for r in rows):
        rows[0][i] = None
    if len(rows) > 1 and all(r[i] is None for r in rows):
        rows[-1][i] = 1
    return rows


def mk_ops(part: t.List[str], order: t.Sequence[t.Sequence[t.Any]], frame: t.Optional[t.Tuple[str, int, int]]) -> t.List[dict]:
    ops: t.List[dict] = []
    if part:
        ops.append({"op": "partitionBy", "cols": part})
    if order:
        ops.append({"op": "orderBy", "keys": name_keys(order)})
    if frame:
        ops.append({"op": frame[0], "s": frame[1], "e": frame[2]})
    return ops


def mk_case(rows, ops, fn, mode="select", pre=None, post=None, origin="") -> dict:
    return {"schema": SCHEMA, "rows": rows, "ops": ops, "fn": fn, "mode": mode, "pre": pre, "post": post, "origin": origin}


def rand_part(rng: random.Random) -> t.List[str]:
    return rng.choice([[], ["g"], ["g"], ["h"], ["g", "h"]])


def rand_form(rng: random.Random, bare_p: float = 0.2) -> str:
    if rng.random() < bare_p:
        return rng.choice(["bare_str", "bare_col"])
    return rng.choice(EXPLICIT)


def rand_key(rng: random.Random, col: str, bare_p: float, expr_p: float) -> tuple:
    if rng.random() < expr_p:
        return (None, rng.choice(EXPR_FORMS) if rng.random() >= bare_p else "bare_col", rng.choice(KEY_EXPRS))
    return (col, rand_form(rng, bare_p))


def rand_order(rng: random.Random, unique: bool, single: bool = False, bare_p: float = 0.2, expr_p: float = 0.0) -> t.List[tuple]:
    if single:
        return [rand_key(rng, "v", bare_p, expr_p)]
    keys = [rand_key(rng, "v", bare_p, expr_p)]
    if rng.random() < 0.35:
        keys.append(rand_key(rng, "u", bare_p, expr_p))
    if unique:
        keys.append(("id", rng.choice(["asc", "desc", "asc_nulls_last"])))
    return keys


def rand_fn(rng: random.Random, kind: str) -> list:
    if kind == "ntile":
        return ["ntile", rng.choice([1, 2, 3, 4])]
    if kind in ("lag", "lead"):
        return [kind, "x", rng.choice([0, 1, 1, 2, -1]), rng.choice([None, None, 0, -7])]
    if kind in AGGS:
        return [kind, rng.choice(["x", "x", "v"])]
    return [kind]


def rand_filter(rng: random.Random, with_w: bool) -> tuple:
    c = rng.random()
    if with_w:
        if c < 0.5:
            return ("bin", rng.choice(["gt", "le", "eq"]), ("col", "w"), ("lit", rng.choice([0, 1, 2])))
        if c < 0.7:
            return ("isNull", ("col", "w"))
        return ("not", ("isNull", ("col", "w")))
    if c < 0.5:
        return ("bin", rng.choice(["gt", "ge", "ne"]), ("col", "x"), ("lit", rng.choice([0, 1])))
    if c < 0.8:
        return ("not", ("isNull", ("col", rng.choice(["v", "g", "x"]))))
    return ("bin", "or", ("isNull", ("col", "v")), ("bin", "lt", ("col", "v"), ("lit", 2)))


def cases_for(ctx: Ctx) -> t.List[dict]:
    rng = ctx.rng
    cases: t.List[dict] = []
    corpus_dir = os.path.join(vlib.VERIF, "corpus", ID)
    if os.path.isdir(corpus_dir):
        for fn in sorted(os.listdir(corpus_dir)):
            if fn.endswith(".json"):
                c = json.load(open(os.path.join(corpus_dir, fn)))
                c["origin"] = "corpus:" + fn
                cases.append(c)
    reps = 3 if ctx.thorough else 1

    # (1) every frame (kind x start x end) x every aggregate, on an ordering made unique by a tiebreaker
    #     (ROWS) / on a single integer key with ties and NULLs (RANGE)
    for _ in range(reps):
        for kind in ("rowsBetween", "rangeBetween"):
            for s, e in frame_pairs():
                for agg in AGGS:
                    rows = gen_rows(rng)
                    part = rand_part(rng)
                    if kind == "rowsBetween":
                        order = rand_order(rng, unique=True, bare_p=0.0)
                    else:
                        offs = any(b not in (UP, UF, 0) for b in (s, e))
                        if agg in ("first", "last"):
                            if offs:
                                order = [("id", rng.choice(["asc", "desc"]))]
                            else:
                                order = rand_order(rng, unique=True, bare_p=0.0)
                        else:
                            order = rand_order(rng, unique=False, single=offs, bare_p=0.0)
                    col = "x" if agg != "count" else rng.choice(["x", "v"])
                    cases.append(mk_case(rows, mk_ops(part, order, (kind, s, e)), [agg, col], origin="grid-frames"))

    # (2) every order-key form (x direction x null placement, incl. bare names) x ranking / offset functions
    for _ in range(reps):
        for form in FORMS:
            for fn in RANKING + [["ntile", 2], ["ntile", 3], ["lag", "x", 1, None], ["lag", "x", 2, 0], ["lead", "x", 1, -7], ["lead", "x", 0, None], ["lag", "x", -1, None]]:
                tie_dep = fn[0] in ("row_number", "ntile", "lag", "lead")
                rows = gen_rows(rng)
                order = [("v", form)] + ([("id", "asc")] if tie_dep else [])
                cases.append(mk_case(rows, mk_ops(rand_part(rng), order, None), fn, mode=rng.choice(["select", "withColumn"]), origin="grid-forms"))
            for agg in AGGS:  # default frame: RANGE UNBOUNDED PRECEDING .. CURRENT ROW incl. peers
                rows = gen_rows(rng)
                order = [("v", form)] + ([("id", "desc")] if agg in ("first", "last") else [])
                cases.append(mk_case(rows, mk_ops(rand_part(rng), order, None), [agg, "x"], origin="grid-default-frame"))

    # (3) no ORDER BY: whole partition
    for agg in ["sum", "avg", "min", "max", "count"]:
        for part in [["g"], ["h"], ["g", "h"]]:
            cases.append(mk_case(gen_rows(rng), mk_ops(part, [], None), [agg, "x"], origin="grid-no-order"))
            cases.append(mk_case(gen_rows(rng), mk_ops(part, [], ("rowsBetween", UP, UF)), [agg, "x"], origin="grid-no-order"))

    # (4) sentinel-adjacent integers as frame boundaries
    for kind in ("rowsBetween", "rangeBetween"):
        for s, e in [(UP - 1, 0), (UP, UF + 1), (EDGE, 0), (EDGE, 1), (-sys.maxsize, 0), (0, sys.maxsize), (0, UF), (-1, UF), (UP - 5, UF + 5)]:
            for nonneg in (True, False):
                rows = gen_rows(rng, nonneg=nonneg)
                order = [("v", rng.choice(["asc", "desc", "asc_nulls_last", "desc_nulls_first"]))]
                if kind == "rowsBetween":
                    order.append(("id", "asc"))
                cases.append(mk_case(rows, mk_ops(rand_part(rng), order, (kind, s, e)), [rng.choice(["sum", "count", "max"]), "x"], origin="grid-sentinels"))

    # (5) builder chains: repeated partitionBy / orderBy, frame replaced, order of calls
    for _ in range(6 * reps):
        rows = gen_rows(rng, n=rng.choice([5, 6, 7]))
        cases.append(mk_case(rows, [{"op": "partitionBy", "cols": ["g"]}, {"op": "partitionBy", "cols": ["h"]}], ["sum", "x"], origin="chain-partitionBy-twice"))
        cases.append(
            mk_case(
                rows,
                [{"op": "partitionBy", "cols": ["g"]}, {"op": "orderBy", "keys": [["v", "asc"]]}, {"op": "orderBy", "keys": [["id", "desc"]]}],
                ["row_number"],
                origin="chain-orderBy-twice",
            )
        )
        cases.append(
            mk_case(
                rows,
                [{"op": "orderBy", "keys": [["v", "desc"], ["id", "asc"]]}, {"op": "rowsBetween", "s": -1, "e": 0}, {"op": "partitionBy", "cols": ["g"]}, {"op": "rowsBetween", "s": 0, "e": 1}],
                ["sum", "x"],
                origin="chain-frame-replaced",
            )
        )
        cases.append(
            mk_case(
                rows,
                [{"op": "rangeBetween", "s": UP, "e": 0}, {"op": "orderBy", "keys": [["v", rng.choice(EXPLICIT)]]}, {"op": "partitionBy", "cols": ["h"]}],
                ["count", "x"],
                origin="chain-frame-first",
            )
        )

    # (6) the window column anywhere in a chain: filters before / after (also on the window column itself)
    for _ in range(40 * reps):
        kind = rng.choice(["row_number", "rank", "dense_rank", "sum", "count", "max", "lag", "ntile"])
        fn = rand_fn(rng, kind)
        tie_dep = kind in ("row_number", "lag", "ntile")
        order = rand_order(rng, unique=tie_dep, bare_p=0.0)
        pre = rand_filter(rng, False) if rng.random() < 0.6 else None
        post = rand_filter(rng, True) if rng.random() < 0.7 else None
        cases.append(mk_case(gen_rows(rng), mk_ops(rand_part(rng), order, None), fn, mode=rng.choice(["select", "withColumn"]), pre=pre, post=post, origin="chain-anywhere"))

    # (8) TIED order keys under ROWS frames (and the other tie-dependent functions), compared tie-safely:
    #     when the aggregated column is one of the order keys (or the function only depends on the position),
    #     the multiset of (partition key, order key, value) per table does not depend on the order of ties
    for _ in range(reps):
        for s, e in frame_pairs():
            for fn in rng.sample([["count", "id"], ["min", "v"], ["max", "v"], ["sum", "v"], ["count", "v"], ["last", "v"], ["first", "v"]], 3):
                rows = gen_rows(rng, n=rng.choice([4, 5, 6, 7]))
                cases.append(mk_case(rows, mk_ops(rand_part(rng), [("v", rng.choice(EXPLICIT))], ("rowsBetween", s, e)), fn, origin="ties-rows-frames"))
        for s, e in [(UP, 0), (UP, 0), (-1, 0), (UP, UF), (0, UF), (0, 1)]:
            cases.append(mk_case(gen_rows(rng, n=rng.choice([4, 5, 6])), mk_ops(rng.choice([["g"], ["h"], []]), [], ("rowsBetween", s, e)), ["count", "id"], origin="ties-rows-no-order"))
        for fn in [["row_number"], ["ntile", 2], ["ntile", 3], ["lag", "v", 1, None], ["lead", "v", 1, -7], ["first", "v"], ["last", "v"]]:
            cases.append(mk_case(gen_rows(rng, n=rng.choice([4, 5, 6, 7])), mk_ops(rand_part(rng), [("v", rng.choice(EXPLICIT))], None), fn, origin="ties-position-functions"))

    # (9) a second rowsBetween / rangeBetween replaces the frame stored by an earlier one (also when the
    #     second frame is UNBOUNDED PRECEDING .. CURRENT ROW, i.e. what an engine applies by default)
    for _ in range(reps):
        for k1 in ("rowsBetween", "rangeBetween"):
            for k2 in ("rowsBetween", "rangeBetween"):
                for s2, e2 in [(UP, 0), (UP, UF), (-1, 0), (0, 1)]:
                    s1, e1 = rng.choice([p for p in frame_pairs() if p != (s2, e2)])
                    offs2 = any(b not in (UP, UF, 0) for b in (s2, e2))
                    if k2 == "rowsBetween":
                        order = [("v", rng.choice(EXPLICIT)), ("id", "asc")]
                    else:
                        order = [("v", rng.choice(EXPLICIT))] if offs2 else [("v", rng.choice(EXPLICIT)), ("u", "desc")]
                    ops = mk_ops(rand_part(rng), order, (k1, s1, e1)) + [{"op": k2, "s": s2, "e": e2}]
                    cases.append(mk_case(gen_rows(rng, n=rng.choice([4, 5, 6])), ops, [rng.choice(["sum", "count", "max"]), "x"], origin="chain-frame-replaced-2"))

    # (10) ONE WindowSpec object passed to .over() several times before any of the Columns is used
    for _ in range(24 * reps):
        rows = gen_rows(rng, n=rng.choice([3, 4, 5, 6]))
        part = rand_part(rng)
        if rng.random() < 0.6:
            order = rand_order(rng, unique=True, bare_p=0.0)
            pool = [["sum", "x"], ["max", "x"], ["min", "v"], ["count", "x"], ["row_number"], ["rank"], ["dense_rank"], ["lag", "x", 1, None], ["lead", "x", 1, 0], ["ntile", 2], ["first", "x"], ["last", "x"], ["cume_dist"], ["avg", "x"]]
            ops = mk_ops(part, order, None)
        else:
            s, e = rng.choice(frame_pairs())
            pool = [["sum", "x"], ["max", "x"], ["min", "v"], ["count", "x"], ["count", "v"], ["first", "x"], ["last", "x"], ["avg", "x"]]
            ops = mk_ops(part, rand_order(rng, unique=True, bare_p=0.0), ("rowsBetween", s, e))
        fns = rng.sample(pool, rng.choice([2, 3, 3, 4]))
        c = mk_case(rows, ops, fns[0], mode=rng.choice(["select", "select", "withColumn"]), pre=rand_filter(rng, False) if rng.random() < 0.3 else None, origin="shared-spec-multi-column")
        c["more"] = fns[1:]
        cases.append(c)

    # (11) order keys that are EXPRESSIONS (-c, c + 1, c * d, when(...)) with NULL values, under every way of stating
    #      the direction (none, asc(), desc(), *_nulls_*), alone and mixed with string / column keys
    for _ in range(reps):
        for e in KEY_EXPRS:
            for form in EXPR_FORMS:
                for fn in rng.sample([["row_number"], ["rank"], ["dense_rank"], ["sum", "x"], ["count", "x"], ["lag", "x", 1, None], ["first", "x"], ["ntile", 2], ["cume_dist"], ["last", "id"]], 3):
                    tie_dep = fn[0] in ("row_number", "lag", "first", "last", "ntile")
                    rows = with_null(with_null(gen_rows(rng, n=rng.choice([4, 5, 6])), "v"), "u")
                    order = [(None, form, e)] + ([("id", rng.choice(["asc", "desc"]))] if tie_dep else [])
                    cases.append(mk_case(rows, mk_ops(rand_part(rng), order, None), fn, mode=rng.choice(["select", "withColumn"]), origin="expr-keys"))
        for form in EXPR_FORMS:
            for kind, (s, e2) in [("rowsBetween", (-1, 0)), ("rowsBetween", (UP, 0)), ("rowsBetween", (0, UF)), ("rangeBetween", (-1, 1)), ("rangeBetween", (UP, -1)), ("rangeBetween", (0, 2)), ("rangeBetween", (UP, 0))]:
                e = rng.choice(KEY_EXPRS)
                rows = with_null(with_null(gen_rows(rng, n=rng.choice([4, 5, 6])), "v"), "u")
                order = [(None, form, e)] + ([("id", "asc")] if kind == "rowsBetween" else [])
                cases.append(mk_case(rows, mk_ops(rand_part(rng), order, (kind, s, e2)), [rng.choice(["sum", "count", "max", "min"]), "x"], origin="expr-keys-frames"))
        for _i in range(20):
            rows = with_null(gen_rows(rng, n=rng.choice([4, 5, 6])), "v")
            order = rand_order(rng, unique=True, bare_p=0.4, expr_p=0.6)
            cases.append(mk_case(rows, mk_ops(rand_part(rng), order, None), rand_fn(rng, rng.choice(["row_number", "rank", "lag", "sum", "first", "dense_rank"])), origin="expr-keys-mixed"))

    # (12) the window column INSIDE a DataFrame chain: which calls share a SELECT block with the window function
    #      (tools/props/c08_chain.py)
    import c08_chain as CH

    cases += CH.cases_for(ctx)

    # (7) random specs
    n_rand = 2500 if ctx.thorough else 260
    kinds = ["row_number", "rank", "dense_rank", "percent_rank", "cume_dist", "ntile", "lag", "lead"] + AGGS
    for _ in range(n_rand):
        kind = rng.choice(kinds)
        fn = rand_fn(rng, kind)
        rows = gen_rows(rng)
        part = rand_part(rng)
        if kind in NEEDS_ORDER_NO_FRAME:
            tie_dep = kind in ("row_number", "ntile", "lag", "lead")
            ops = mk_ops(part, rand_order(rng, unique=tie_dep, expr_p=0.2), None)
        else:
            fk = rng.choice([None, "rowsBetween", "rangeBetween"])
            if fk is None:
                ops = mk_ops(part, rand_order(rng, unique=kind in ("first", "last"), expr_p=0.2), None)
            else:
                s, e = rng.choice(frame_pairs())
                offs = any(b not in (UP, UF, 0) for b in (s, e))
                if fk == "rowsBetween":
                    order = rand_order(rng, unique=True, expr_p=0.2)
                elif kind in ("first", "last"):
                    order = [("id", rng.choice(["asc", "desc"]))] if offs else rand_order(rng, unique=True)
                else:
                    order = rand_order(rng, unique=False, single=offs)
                ops = mk_ops(part, order, (fk, s, e))
        cases.append(mk_case(rows, ops, fn, mode=rng.choice(["select", "withColumn"]), origin="random"))
    return cases


# ------------------------------------------------------------------------------------------------
# encoders
# ------------------------------------------------------------------------------------------------


def tuple_(e: t.Any) -> t.Any:
    if isinstance(e, (list, tuple)):
        return tuple(tuple_(x) if isinstance(x, (list, tuple)) else x for x in e)
    return e


def op_to_lean(op: dict) -> t.Any:
    k = op["op"]
    if k == "partitionBy":
        return {"partitionBy": {"cols": op["cols"]}}
    if k == "orderBy":
        keys = []
        for k in op["keys"]:
            n, f, e = kparts(k)
            d = {"name": n, "form": LEAN_FORM[f], "aliased": bool(e is not None and k_aliased(e))}
            if e is not None:
                d["expr"] = X.to_lean(k_lower(e))
            keys.append(d)
        return {"orderBy": {"keys": keys}}
    if k in ("rowsBetween", "rangeBetween"):
        return {k: {"s": op["s"], "e": op["e"]}}
    raise ValueError(k)


def fn_to_lean(fn: list) -> t.Tuple[t.Any, t.Any]:
    """(WFn json | None, RFn json | None)"""
    k = fn[0]
    if k == "row_number":
        return "rowNumber", None
    if k == "rank":
        return "rank", None
    if k == "dense_rank":
        return "denseRank", None
    if k == "percent_rank":
        return None, "percentRank"
    if k == "cume_dist":
        return None, "cumeDist"
    if k == "avg":
        return None, {"avg": {"c": fn[1]}}
    if k == "ntile":
        return {"ntile": {"n": fn[1]}}, None
    if k in ("lag", "lead"):
        return {k: {"c": fn[1], "off": fn[2], "dflt": vlib.lval(fn[3])}}, None
    if k in ("sum", "min", "max", "count", "first", "last"):
        return {k: {"c": fn[1]}}, None
    raise ValueError(k)


def all_fns(c: dict) -> t.List[list]:
    return [c["fn"]] + [list(f) for f in (c.get("more") or [])]


def col_names(c: dict) -> t.List[str]:
    return ["w"] + [f"w{k}" for k in range(1, len(all_fns(c)))]


def case_to_lean(i: int, c: dict, fn: t.Optional[list] = None, name: str = "w") -> dict:
    wf, rf = fn_to_lean(fn if fn is not None else c["fn"])
    d: t.Dict[str, t.Any] = {
        "case": i,
        "table": X.table_to_lean(list(c["schema"]), c["rows"]),
        "ops": [op_to_lean(o) for o in c["ops"]],
        "name": name,
    }
    if wf is not None:
        d["fn"] = wf
    if rf is not None:
        d["rfn"] = rf
    if c.get("pre"):
        d["pre"] = X.to_lean(tuple_(c["pre"]))
    if c.get("post"):
        d["post"] = X.to_lean(tuple_(c["post"]))
    return d


def show_bound(b: int) -> str:
    return {UP: "Window.unboundedPreceding", UF: "Window.unboundedFollowing", 0: "Window.currentRow", EDGE: "-sys.maxsize"}.get(b, str(b))


def show_key(n: str, f: str, e: t.Any = None) -> str:
    if e is not None:
        return k_show(e) if f.startswith("bare") else f"{k_show(e)}.{f}()"
    if f == "bare_str":
        return repr(n)
    if f == "bare_col":
        return f"col({n!r})"
    return f"col({n!r}).{f}()"


def show_ops(ops: t.List[dict]) -> str:
    out = "Window"
    for o in ops:
        if o["op"] == "partitionBy":
            out += ".partitionBy(" + ", ".join(map(repr, o["cols"])) + ")"
        elif o["op"] == "orderBy":
            out += ".orderBy(" + ", ".join(show_key(*kparts(k)) for k in o["keys"]) + ")"
        else:
            out += f".{o['op']}({show_bound(o['s'])}, {show_bound(o['e'])})"
    return out


def show_fn(fn: list) -> str:
    k = fn[0]
    if k in ("row_number", "rank", "dense_rank", "percent_rank", "cume_dist"):
        return f"F.{k}()"
    if k == "ntile":
        return f"F.ntile({fn[1]})"
    if k in ("lag", "lead"):
        return f"F.{k}({fn[1]!r}, {fn[2]}" + (f", {fn[3]!r})" if fn[3] is not None else ")")
    return f"F.{k}({fn[1]!r})"


def show_case(c: dict) -> str:
    if "chain" in c:
        import c08_chain as CH

        return CH.show(c)
    s = f"df{list(c['schema'])}{c['rows']}"
    if c.get("pre"):
        s += f".where({X.show(tuple_(c['pre']))})"
    if c.get("more"):
        s = f"spec = {show_ops(c['ops'])}; cols = [" + ", ".join(f"{show_fn(f)}.over(spec)" for f in all_fns(c)) + "]; " + s
        if c.get("mode") == "withColumn":
            s += "".join(f".withColumn({n!r}, cols[{k}])" for k, n in enumerate(col_names(c)))
        else:
            s += ".select('*', " + ", ".join(f"cols[{k}].alias({n!r})" for k, n in enumerate(col_names(c))) + ")"
    else:
        w = f"{show_fn(c['fn'])}.over({show_ops(c['ops'])})"
        s += f".withColumn('w', {w})" if c.get("mode") == "withColumn" else f".select('*', {w}.alias('w'))"
    if c.get("post"):
        s += f".where({X.show(tuple_(c['post']))})"
    return s


# ------------------------------------------------------------------------------------------------
# the real implementation
# ------------------------------------------------------------------------------------------------

_SESSION = None


def session():
    global _SESSION
    if _SESSION is None:
        _SESSION = vlib.fresh_duckdb_session()
    return _SESSION


def real_key(F: t.Any, n: str, f: str, e: t.Any = None) -> t.Any:
    if e is not None:
        c = k_column(e, F)
        return c if f.startswith("bare") else getattr(c, f)()
    if f == "bare_str":
        return n
    if f == "bare_col":
        return F.col(n)
    return getattr(F.col(n), f)()


def build_spec(ops: t.List[dict], observe: t.Optional[list] = None) -> t.Any:
    """apply the builder calls on the real Window / WindowSpec; `observe` collects immutability observations"""
    from sqlframe.duckdb import Window
    from sqlframe.duckdb import functions as F

    w: t.Any = None
    for o in ops:
        target = Window if w is None else w
        before = None if w is None else w.expression.sql()
        if o["op"] == "partitionBy":
            nw = target.partitionBy(*o["cols"])
        elif o["op"] == "orderBy":
            nw = target.orderBy(*[real_key(F, *kparts(k)) for k in o["keys"]])
        elif o["op"] == "rowsBetween":
            nw = target.rowsBetween(o["s"], o["e"])
        elif o["op"] == "rangeBetween":
            nw = target.rangeBetween(o["s"], o["e"])
        else:
            raise ValueError(o["op"])
        if observe is not None and w is not None:
            observe.append({"op": o["op"], "receiver_unchanged": w.expression.sql() == before, "fresh_object": nw is not w and nw.expression is not w.expression})
        w = nw
    if w is None:
        from sqlframe.base.window import WindowSpec

        w = WindowSpec()
    return w


def real_fn(F: t.Any, fn: list) -> t.Any:
    k = fn[0]
    if k in ("row_number", "rank", "dense_rank", "percent_rank", "cume_dist"):
        return getattr(F, k)()
    if k == "ntile":
        return F.ntile(fn[1])
    if k in ("lag", "lead"):
        return getattr(F, k)(fn[1], fn[2]) if fn[3] is None else getattr(F, k)(fn[1], fn[2], fn[3])
    return getattr(F, k)(fn[1])


def clause_of(w: t.Any) -> dict:
    """the real spec's sqlglot expression in the driver's `emit` vocabulary"""
    from sqlglot import expressions as exp

    e = w.expression
    part = []
    for p in e.args.get("partition_by") or []:
        part.append(p.name if isinstance(p, exp.Column) else {"raw": p.sql()})
    order = []
    o = e.args.get("order")
    for k in o.expressions if o is not None else []:
        ordered = None
        if isinstance(k, exp.Ordered):
            nf = k.args.get("nulls_first")
            ordered = [bool(k.args.get("desc")), None if nf is None else bool(nf)]
            k = k.this
        aliased = isinstance(k, exp.Alias)  # `<expr> AS <alias>` inside ORDER BY
        if aliased:
            k = k.this
        order.append([k.name if isinstance(k, exp.Column) else {"raw": k.sql()}, ordered, aliased])
    frame = None
    sp = e.args.get("spec")
    if sp is not None:

        def val(v: t.Any) -> t.Any:
            if isinstance(v, str) or v is None:
                return v
            if isinstance(v, exp.Literal) and not v.is_string:
                return int(v.this)
            return {"raw": v.sql()}

        frame = [sp.args.get("kind"), val(sp.args.get("start")), sp.args.get("start_side"), val(sp.args.get("end")), sp.args.get("end_side")]
    return {"part": part, "order": order, "frame": frame}


def enc(v: t.Any) -> t.Any:
    if isinstance(v, float):
        return {"f": v}
    return plain(v)


def run_impl(c: dict) -> dict:
    from sqlframe.duckdb import functions as F

    out: t.Dict[str, t.Any] = {}
    try:
        obs: list = []
        w = build_spec(c["ops"], obs)
        out["clause"] = clause_of(w)
        out["keysql"] = {kparts(k)[0]: k_column(kparts(k)[2], F).column_expression.sql() for o in c["ops"] if o["op"] == "orderBy" for k in o["keys"] if kparts(k)[2] is not None}
        before = w.expression.sql()
        # every Column is built from the ONE spec object before any of them is used
        wcols = [real_fn(F, f).over(w) for f in all_fns(c)]
        names = col_names(c)
        obs.append({"op": "over", "receiver_unchanged": w.expression.sql() == before, "fresh_object": all(x.expression is not w.expression for x in wcols)})
        out["obs"] = obs
        df = X.make_df(session(), c["schema"], c["rows"])
        if c.get("pre"):
            df = df.where(X.to_column(tuple_(c["pre"]), F))
        if c.get("mode") == "withColumn":
            for n, wc in zip(names, wcols):
                df = df.withColumn(n, wc)
        else:
            df = df.select(*[F.col(n) for n in c["schema"]], *[wc.alias(n) for n, wc in zip(names, wcols)])
        if c.get("post"):
            df = df.where(X.to_column(tuple_(c["post"]), F))
        out["cols"] = list(df.columns)
        out["rows"] = [[enc(v) for v in r] for r in df.collect()]
    except Exception as e:  # noqa
        msg = f"{type(e).__name__}: {str(e)[:200]}"
        if isinstance(e, IndexError):
            out["err"] = "IndexError"
        elif "Overflow" in msg or "overflow" in msg:
            out["err"] = "overflow"
        elif 'syntax error at or near "AS"' in msg:
            out["err"] = "engine-rejects"
        else:
            out["err"] = msg
        out["detail"] = msg
    return out


# ------------------------------------------------------------------------------------------------
# comparison
# ------------------------------------------------------------------------------------------------


def tie_dependent(c: dict) -> bool:
    return any(tie_dependent_fn(c, f) for f in all_fns(c))


def tie_safe_projection(c: dict) -> t.Optional[t.List[str]]:
    """columns on which a tie-dependent case can still be compared as a multiset: the sequence of order-key
    tuples along a sorted partition does not depend on how ties are broken, so when every function is a
    function of the position and of order-key columns only, the multiset of (partition key, order key, value)
    is determined by the data"""
    if c.get("more") or c.get("post"):
        return None
    parts = [o for o in c["ops"] if o["op"] == "partitionBy"]
    orders = [o for o in c["ops"] if o["op"] == "orderBy"]
    if len(parts) > 1 or len(orders) > 1:
        return None
    pk = list(parts[0]["cols"]) if parts else []
    if orders and any(kparts(k)[2] is not None for k in orders[0]["keys"]):
        return None  # the computed key is not a column of the result
    ks = [k[0] for k in orders[0]["keys"]] if orders else []
    fn = c["fn"]
    k = fn[0]
    if k in ("row_number", "ntile"):
        ok = True
    elif k == "count" and fn[1] == "id":
        ok = True  # the id is never NULL: count(id) is the frame size
    elif k in ("lag", "lead"):
        ok = fn[1] in ks  # the default is a constant: the value is a function of the position
    elif k in ("sum", "avg", "min", "max", "count", "first", "last"):
        ok = fn[1] in ks
    else:
        ok = False
    return (pk + [x for x in ks if x not in pk] + ["w"]) if ok else None


def tie_dependent_fn(c: dict, fn: list) -> bool:
    k = fn[0]
    if k in ("row_number", "ntile", "lag", "lead", "first", "last"):
        return True
    if k in ("rank", "dense_rank", "percent_rank", "cume_dist"):
        return False
    frames = [o for o in c["ops"] if o["op"] in ("rowsBetween", "rangeBetween")]
    if frames and frames[-1]["op"] == "rowsBetween":
        f = frames[-1]
        whole = f["s"] <= UP and f["e"] >= UF
        return not whole
    return False


def cell_eq(a: t.Any, b: t.Any) -> bool:
    """a: implementation cell (plain / {"f": float}); b: driver cell (plain / {"q": [num, den]})"""
    if isinstance(b, dict) and "q" in b:
        num, den = b["q"]
        if den == 0:
            return a is None
        q = num / den
        if isinstance(a, dict) and "f" in a:
            return math.isclose(a["f"], q, rel_tol=1e-12, abs_tol=1e-12)
        if isinstance(a, int) and not isinstance(a, bool):
            return math.isclose(float(a), q, rel_tol=1e-12, abs_tol=1e-12)
        return False
    if isinstance(a, dict) and "f" in a:
        return isinstance(b, int) and not isinstance(b, bool) and a["f"] == b
    return a == b and type(a) is type(b)


def same(impl: dict, side: dict) -> bool:
    if "err" in impl or "err" in side:
        return "err" in impl and "err" in side and impl["err"] == side["err"]
    if impl["cols"] != side["cols"] or len(impl["rows"]) != len(side["rows"]):
        return False
    key = lambda r: json.dumps(r[:-1], sort_keys=True)  # noqa: E731  (the id column makes the prefix unique)
    a = sorted(impl["rows"], key=key)
    b = sorted(side["rows"], key=key)
    return all(len(x) == len(y) and all(cell_eq(p, q) for p, q in zip(x, y)) for x, y in zip(a, b))


def canon_cell(v: t.Any) -> t.Any:
    if v is None:
        return ("0",)
    if isinstance(v, dict) and "q" in v:
        return ("n", round(v["q"][0] / v["q"][1], 9)) if v["q"][1] else ("0",)
    if isinstance(v, dict) and "f" in v:
        return ("n", round(v["f"], 9))
    if isinstance(v, dict) and "s" in v:
        return ("s", v["s"])
    if isinstance(v, bool):
        return ("b", v)
    return ("n", round(float(v), 9))


def same_multiset(impl: dict, side: dict, cols: t.List[str]) -> bool:
    """equality of the multisets of rows projected on `cols` (tie-safe comparison)"""
    if "err" in impl or "err" in side:
        return "err" in impl and "err" in side and impl["err"] == side["err"]
    if impl["cols"] != side["cols"] or len(impl["rows"]) != len(side["rows"]):
        return False
    idx = [impl["cols"].index(n) for n in cols]
    a = sorted(tuple(canon_cell(r[i]) for i in idx) for r in impl["rows"])
    b = sorted(tuple(canon_cell(r[i]) for i in idx) for r in side["rows"])
    return a == b


def merge_sides(sides: t.List[dict]) -> dict:
    """one table from the per-function driver outputs of a multi-column case (each column evaluated independently)"""
    for sd in sides:
        if "err" in sd:
            return sd
    if len(sides) == 1:
        return sides[0]
    rows = [list(r) for r in sides[0]["rows"]]
    cols = list(sides[0]["cols"])
    for sd in sides[1:]:
        if len(sd["rows"]) != len(rows) or any(a[: len(sd["cols"]) - 1] != b[:-1] for a, b in zip(rows, sd["rows"])):
            raise RuntimeError("driver outputs of a multi-column case do not line up")
        cols.append(sd["cols"][-1])
        for a, b in zip(rows, sd["rows"]):
            a.append(b[-1])
    return {"cols": cols, "rows": rows}


def agree(r: dict, a: dict, b: dict) -> bool:
    if "chain" in r["case"]:
        import c08_chain as CH

        return CH.same_bag(a, b)
    return same_multiset(a, b, r["proj"]) if r.get("proj") else same(a, b)


def run_any(c: dict) -> dict:
    if "chain" in c:
        import c08_chain as CH

        return CH.run_impl(c)
    return run_impl(c)


def evaluate(cases: t.List[dict], workers: int = 0) -> t.List[dict]:
    import c08_chain as CH

    lean_cases: t.List[dict] = []
    spans: t.List[t.Tuple[int, int]] = []
    for c in cases:
        a = len(lean_cases)
        if "chain" in c:
            lean_cases.append(CH.to_lean(len(lean_cases), c))
        else:
            for fn, name in zip(all_fns(c), col_names(c)):
                lean_cases.append(case_to_lean(len(lean_cases), c, fn, name))
        spans.append((a, len(lean_cases)))
    raw = vlib.run_driver("C08", lean_cases)
    for o in raw:
        if "err" in o and "model" not in o:
            raise RuntimeError(f"driver rejected a case: {o}")
    outs = []
    for a, b in spans:
        o = dict(raw[a])
        if b - a > 1:
            o["model"] = merge_sides([x["model"] for x in raw[a:b]])
            o["spec"] = merge_sides([x["spec"] for x in raw[a:b]])
            o["accepts"] = all(x["accepts"] for x in raw[a:b])
        outs.append(o)
    impls = vlib.parallel_map(run_any, cases, workers)
    res = []
    for c, o, impl in zip(cases, outs, impls):
        if "chain" in c:
            res.append(CH.judge(c, o, impl))
            continue
        row_determined = (not tie_dependent(c)) or bool(o["unique"])
        proj = None if row_determined else tie_safe_projection(c)
        determined = row_determined or proj is not None
        if "clause" in impl and impl.get("keysql"):
            # an expression key is a computed column in the model: match it with the real key by its SQL text
            cl = impl["clause"]
            order = list(cl["order"])
            for i, it in enumerate(order):
                if i < len(o["emit"]["order"]) and isinstance(it[0], dict):
                    mname = o["emit"]["order"][i][0]
                    if impl["keysql"].get(mname) == it[0].get("raw"):
                        order[i] = [mname] + list(it[1:])
            impl = dict(impl, clause=dict(cl, order=order))
        clause_eq = ("clause" in impl and impl["clause"] == o["emit"]) or ("clause" not in impl and "err" in o["model"] and impl.get("err") == o["model"]["err"])
        r = {
            "case": c,
            "impl": {k: v for k, v in impl.items() if k in ("cols", "rows", "err", "detail")},
            "clause": impl.get("clause"),
            "obs": impl.get("obs", []),
            "emit": o["emit"],
            "model": o["model"],
            "spec": o["spec"],
            "scope": o["scope"],
            "accepts": o["accepts"],
            "determined": determined,
            "proj": proj,
            "clause_eq": clause_eq,
        }
        # the implementation must be what the model says whenever the value is determined by the data
        r["impl_eq_model"] = (not determined) or agree(r, impl, o["model"])
        r["compared_spec"] = bool(determined and o["accepts"] and "err" not in o["spec"])
        r["impl_eq_spec"] = (not r["compared_spec"]) or agree(r, impl, o["spec"])
        # a builder call PySpark accepts must not raise
        if "err" not in o["spec"] and o["accepts"] and "err" in impl:
            r["compared_spec"] = True
            r["impl_eq_spec"] = False
        res.append(r)
    return res


def is_known(r: dict, known: t.Dict[str, dict]) -> bool:
    return bool(r["scope"]) and all(h in known for h in r["scope"]) and r["impl_eq_model"] and r["clause_eq"]


def shrink(c: dict, failing: t.Callable[[dict], bool], rounds: int = 10) -> dict:
    best = c
    for _ in range(40 if "chain" in c else rounds):
        cands = []
        if "chain" in best:
            import c08_chain as CH

            cands = CH.shrink_candidates(best)
            if not cands:
                break
            res = evaluate(cands, workers=1)
            nxt = next((r["case"] for r in res if failing(r)), None)
            if nxt is None:
                break
            best = nxt
            continue
        if best.get("post"):
            cands.append(dict(best, post=None))
        if best.get("pre"):
            cands.append(dict(best, pre=None))
        if best.get("mode") == "withColumn":
            cands.append(dict(best, mode="select"))
        more = best.get("more") or []
        if len(more) > 1:
            cands += [dict(best, more=more[:i] + more[i + 1 :]) for i in range(len(more))]
        cands += [dict(best, rows=best["rows"][:i] + best["rows"][i + 1 :]) for i in range(len(best["rows"])) if len(best["rows"]) > 1]
        cands += [dict(best, ops=best["ops"][:i] + best["ops"][i + 1 :]) for i in range(len(best["ops"])) if len(best["ops"]) > 1]
        if not cands:
            break
        res = evaluate(cands, workers=1)
        nxt = next((r["case"] for r in res if failing(r)), None)
        if nxt is None:
            break
        best = nxt
    return best


# ------------------------------------------------------------------------------------------------
# the generated definitions against the running code
# ------------------------------------------------------------------------------------------------


def exercise_gen(ctx: Ctx) -> t.Dict[str, t.Any]:
    """Gen.Window vs the live objects: constants, boundary function, Column ordering table, flags"""
    if vlib.REPO not in sys.path:
        sys.path.insert(0, vlib.REPO)
    session()
    from sqlframe.base.window import Window as BW
    from sqlframe.base.window import WindowSpec
    from sqlframe.duckdb import functions as F
    from sqlglot import expressions as exp

    queries: t.List[dict] = [{"case": 0, "gen": True}] + [{"case": i + 1, "bound": x} for i, x in enumerate(BOUNDARY_INTS)]
    extra = [ctx.rng.randint(-(1 << 65), 1 << 65) for _ in range(40)] + [ctx.rng.randint(-50, 50) for _ in range(20)]
    queries += [{"case": len(queries) + i, "bound": x} for i, x in enumerate(extra)]
    outs = vlib.run_driver("C08", queries)
    gen = outs[0]
    bad: t.List[str] = []
    live = {
        "_JAVA_MIN_LONG": BW._JAVA_MIN_LONG,
        "_JAVA_MAX_LONG": BW._JAVA_MAX_LONG,
        "unboundedPreceding": BW.unboundedPreceding,
        "unboundedFollowing": BW.unboundedFollowing,
        "currentRow": BW.currentRow,
        "sys.maxsize": sys.maxsize,
    }
    for k, v in live.items():
        if gen["constants"].get(k) != v:
            bad.append(f"constant {k}: generated {gen['constants'].get(k)} live {v}")
    # boundary function
    n_bound = 0
    for q, o in zip(queries[1:], outs[1:]):
        x = q["bound"]
        d = WindowSpec()._calc_start_end(x, x)
        for slot in ("start", "end"):
            v = d[slot]
            v = int(v.this) if isinstance(v, exp.Literal) else v
            if [v, d[slot + "_side"]] != o["raw"]:
                bad.append(f"get_value_and_side({x}) [{slot}]: generated {o['raw']} live {[v, d[slot + '_side']]}")
        # ... and what the real builder stores / the SQL it prints
        for name in ("rowsBetween", "rangeBetween"):
            kind = gen["kinds"][name]
            sp = getattr(BW, name)(x, x).expression.args["spec"]
            v = sp.args["start"]
            v = int(v.this) if isinstance(v, exp.Literal) else v
            if sp.args["kind"] != kind or [v, sp.args["start_side"]] != o["raw"]:
                bad.append(f"Window.{name}({x}, {x}) stores {sp.args} but the model says {kind} {o['raw']}")
        n_bound += 1
    # PySpark's python-side constants (no JVM needed)
    try:
        from pyspark.sql.window import Window as PW

        spark_consts = {"longMin": PW.unboundedPreceding, "longMax": PW.unboundedFollowing, "edgeStart": PW._PRECEDING_THRESHOLD}
        for k, v in spark_consts.items():
            if gen["pyspark"][k] != v:
                bad.append(f"specification constant {k}: Lean {gen['pyspark'][k]} pyspark {v}")
        if PW._FOLLOWING_THRESHOLD != gen["pyspark"]["longMax"] or PW.currentRow != 0:
            bad.append("specification constants: _FOLLOWING_THRESHOLD / currentRow differ from pyspark")
        spark_checked = True
    except Exception as e:  # noqa
        log("pyspark.sql.window not importable:", e)
        spark_checked = False
    # Column.asc() ...
    for m, want in gen["ordered"].items():
        e = getattr(F.col("v"), m)().expression
        nf = e.args.get("nulls_first")
        got = [bool(e.args.get("desc")), None if nf is None else bool(nf)] if isinstance(e, exp.Ordered) else None
        if got != want:
            bad.append(f"Column.{m}(): generated {want} live {got}")
    # keys that state no ordering: plain columns and other expressions
    def live_wrap(k: t.Any) -> t.Any:
        e = BW.orderBy(k).expression.args["order"].expressions[0]
        if isinstance(e, exp.Ordered):
            nf = e.args.get("nulls_first")
            return [bool(e.args.get("desc")), None if nf is None else bool(nf)]
        return None

    for label, k in (("'v'", "v"), ("col('v')", F.col("v"))):
        if live_wrap(k) != gen["columnWrap"]:
            bad.append(f"WindowSpec.orderBy({label}) key: generated {gen['columnWrap']} live {live_wrap(k)}")
    for label, k in (
        ("-col('v')", -F.col("v")),
        ("col('v') + 1", F.col("v") + 1),
        ("col('v') * col('u')", F.col("v") * F.col("u")),
        ("when(col('v') > 0, col('v')).otherwise(col('u'))", F.when(F.col("v") > 0, F.col("v")).otherwise(F.col("u"))),
        ("abs(col('v'))", F.abs(F.col("v"))),
        ("col('v').cast('int')", F.col("v").cast("int")),
        ("coalesce(col('v'), col('u'))", F.coalesce(F.col("v"), F.col("u"))),
        ("col('v') % 2", F.col("v") % 2),
    ):
        if live_wrap(k) != gen["exprWrap"]:
            bad.append(f"WindowSpec.orderBy({label}) key: generated {gen['exprWrap']} live {live_wrap(k)}")
    # which key Columns are aliases (the generator's `k_aliased`), and whether orderBy / partitionBy keep the alias
    for e in KEY_EXPRS:
        if k_column(e, F).is_alias != k_aliased(e):
            bad.append(f"key {k_show(e)}: Column.is_alias is {k_column(e, F).is_alias}, the generator assumes {k_aliased(e)}")
    fl = gen["flags"]
    for name, flag in (("orderBy", "orderByKeepsAlias"), ("partitionBy", "partitionByKeepsAlias")):
        ws = getattr(BW, name)(F.abs(F.col("v")))
        items = ws.expression.args["order"].expressions if name == "orderBy" else ws.expression.args["partition_by"]
        kept = any(x.find(exp.Alias) is not None for x in items)
        if kept != fl[flag]:
            bad.append(f"Window.{name}(F.abs(col('v'))) keeps the alias: live {kept}, generated {fl[flag]}")
    # extends / replaces, IndexError on no arguments
    p2 = [x.name for x in BW.partitionBy("g").partitionBy("h").expression.args["partition_by"]]
    if (p2 == ["g", "h"]) != fl["partitionByExtends"] or p2 not in (["g", "h"], ["h"]):
        bad.append(f"partitionBy twice: live {p2}, generated extends={fl['partitionByExtends']}")
    o2 = [x.name if isinstance(x, exp.Column) else x.this.name for x in BW.orderBy("v").orderBy("u").expression.args["order"].expressions]
    if (o2 == ["v", "u"]) != fl["orderByExtends"] or o2 not in (["v", "u"], ["u"]):
        bad.append(f"orderBy twice: live {o2}, generated extends={fl['orderByExtends']}")
    for name, flag in (("partitionBy", "partitionByIndexesFirst"), ("orderBy", "orderByIndexesFirst")):
        try:
            getattr(BW, name)()
            raised = False
        except IndexError:
            raised = True
        if raised != fl[flag]:
            bad.append(f"Window.{name}() raises IndexError: live {raised}, generated {fl[flag]}")
    # Gen.C08Chain: how a window column enters a chain (withColumn / withColumns / _convert_leaf_to_cte / where)
    try:
        ch = gen.get("chain", {})
        base = X.make_df(session(), {"id": "int", "x": "int", "v": "int"}, [[1, 5, 2], [2, 6, None]])
        spec = BW.orderBy(F.col("id").asc())
        d = base.withColumn("x", F.lit(7))
        pos = list(d.columns).index("x") if list(d.columns).count("x") == 1 else None
        if (pos == 1) != ch.get("withColumnsExistingInPlace"):
            bad.append(f"withColumn on an existing name: columns {list(d.columns)}, generated in-place={ch.get('withColumnsExistingInPlace')}")
        d = base.withColumn("zz", F.row_number().over(spec))
        if (list(d.columns) == ["id", "x", "v", "zz"]) != ch.get("withColumnsNewAtEnd") or list(d.columns) not in (["id", "x", "v", "zz"], ["zz", "id", "x", "v"]):
            bad.append(f"withColumn with a new name: columns {list(d.columns)}, generated at-end={ch.get('withColumnsNewAtEnd')}")
        # _convert_leaf_to_cte on a block that has WHERE / ORDER BY / LIMIT: what the new open block carries
        blk = base.where(F.col("id") > 0).orderBy("id").limit(5)
        nw = blk._convert_leaf_to_cte().expression
        carried = [k for k in ("where", "order", "limit", "distinct", "group", "having") if nw.args.get(k)]
        if (not carried) != ch.get("convertLeafFreshSelect"):
            bad.append(f"_convert_leaf_to_cte: the new block carries {carried}, generated fresh={ch.get('convertLeafFreshSelect')}")
        if len(nw.ctes) != len(blk.expression.ctes) + 1:
            bad.append(f"_convert_leaf_to_cte: {len(blk.expression.ctes)} CTEs before, {len(nw.ctes)} after")
        # the *body* of where on a block whose select list holds a window function: the predicate lands in that block's WHERE
        wdf = base.withColumn("w", F.sum("x").over(spec))
        body = type(wdf).where.__wrapped__(wdf, F.col("id") > 1)
        landed = body.expression.args.get("where") is not None and len(body.expression.ctes) == len(wdf.expression.ctes) and body.expression.find(exp.Window) is not None
        if landed != ch.get("whereIntoHandedBlock"):
            bad.append(f"where.__wrapped__ on a window block: predicate in that block's WHERE = {landed}, generated {ch.get('whereIntoHandedBlock')}")
        # the decorator tags the chain model uses
        from sqlframe.base.operations import Operation

        want = gen.get("tags", {})
        for name, tag in want.items():
            m = getattr(type(base), name)
            cells = [c.cell_contents for c in (getattr(m, "__closure__", None) or ())]
            live = next((int(c) for c in cells if isinstance(c, Operation)), None)
            if live != tag:
                bad.append(f"@operation tag of {name}: live {live}, generated {tag}")
    except Exception as e:  # noqa
        bad.append(f"Gen.C08Chain could not be exercised: {type(e).__name__}: {str(e)[:200]}")
    for b in bad:
        ctx.broken.append("Gen.Window / Gen.C08Chain disagrees with the running code: " + b)
    return {"boundary_integers_checked": n_bound, "pyspark_constants_checked": spark_checked, "gen": gen}


# ------------------------------------------------------------------------------------------------
# live PySpark (thorough tier): validates the *specification*
# ------------------------------------------------------------------------------------------------

SPARK_SCRIPT = r'''
import json, sys
from pyspark.sql import SparkSession, Window, functions as F
spark = SparkSession.builder.master("local[1]").config("spark.ui.enabled", "false").config("spark.sql.shuffle.partitions", "1").getOrCreate()
spark.sparkContext.setLogLevel("ERROR")
cases = json.load(open(sys.argv[1]))
out = []
def tocol(e):
    k = e[0]
    if k == "col": return F.col(e[1])
    if k == "lit": return F.lit(e[1])
    if k == "bin":
        a, b, op = tocol(e[2]), tocol(e[3]), e[1]
        return {"add": lambda: a + b, "sub": lambda: a - b, "mul": lambda: a * b, "lt": lambda: a < b, "le": lambda: a <= b, "gt": lambda: a > b,
                "ge": lambda: a >= b, "eq": lambda: a == b, "ne": lambda: a != b, "and": lambda: a & b, "or": lambda: a | b, "nseq": lambda: a.eqNullSafe(b)}[op]()
    if k == "not": return ~tocol(e[1])
    if k == "neg": return -tocol(e[1])
    if k == "isNull": return tocol(e[1]).isNull()
    if k == "ite": return F.when(tocol(e[1]), tocol(e[2])).otherwise(tocol(e[3]))
    if k == "abs": return F.abs(tocol(e[1]))
    if k == "coalesce": return F.coalesce(tocol(e[1]), tocol(e[2]))
    raise ValueError(e)
def key(n, f, e=None):
    if e is not None:
        c = tocol(e)
        return c if f.startswith("bare") else getattr(c, f)()
    if f == "bare_str": return n
    if f == "bare_col": return F.col(n)
    return getattr(F.col(n), f)()
def fnc(fn):
    k = fn[0]
    if k in ("row_number", "rank", "dense_rank", "percent_rank", "cume_dist"): return getattr(F, k)()
    if k == "ntile": return F.ntile(fn[1])
    if k in ("lag", "lead"): return getattr(F, k)(fn[1], fn[2]) if fn[3] is None else getattr(F, k)(fn[1], fn[2], fn[3])
    return getattr(F, k)(fn[1])
def spec(ops):
    w = None
    for o in ops:
        t = Window if w is None else w
        if o["op"] == "partitionBy": w = t.partitionBy(*o["cols"])
        elif o["op"] == "orderBy": w = t.orderBy(*[key(*k) for k in o["keys"]])
        else: w = getattr(t, o["op"])(o["s"], o["e"])
    if w is None: w = Window.partitionBy()
    return w
def item(it):
    if it[0] == "col": return it[1] if (len(it) > 2 and it[2] == "str") else F.col(it[1])
    if it[0] == "expr": return tocol(it[2]).alias(it[1])
    return fnc(it[3]).over(spec(it[2])).alias(it[1])
for c in cases:
    try:
        ddl = ", ".join(f"{n} {'bigint' if k == 'int' else 'string'}" for n, k in c["schema"].items())
        df = spark.createDataFrame([tuple(r) for r in c["rows"]], schema=ddl)
        if "chain" in c:
            for st in c["chain"]:
                k = st["k"]
                if k == "where": df = df.where(st["sql"]) if st.get("str") else df.where(tocol(st["p"]))
                elif k == "select": df = df.select(*[item(i) for i in st["items"]])
                elif k == "withColumn":
                    it = st["item"]
                    df = df.withColumn(it[1], tocol(it[2]) if it[0] == "expr" else fnc(it[3]).over(spec(it[2])))
                elif k == "distinct": df = df.distinct()
                elif k == "orderBy": df = df.orderBy(*[getattr(F.col(n), f)() for n, f in st["keys"]])
                elif k == "limit": df = df.limit(st["n"])
                elif k == "drop": df = df.drop(*st["cols"])
                elif k == "groupAgg": df = df.groupBy(*st["keys"]).agg(*[getattr(F, a[1])(a[2]).alias(a[0]) for a in st["aggs"]])
                else: raise ValueError(k)
        else:
            df = df.select(*[F.col(n) for n in c["schema"]], fnc(c["fn"]).over(spec(c["ops"])).alias("w"))
        out.append({"cols": df.columns, "rows": [list(r) for r in df.collect()]})
    except Exception as e:
        out.append({"err": type(e).__name__ + ": " + str(e)[:160]})
json.dump(out, open(sys.argv[2], "w"))
'''


def run_pyspark(cases: t.List[dict]) -> t.Optional[t.List[dict]]:
    import tempfile

    d = tempfile.mkdtemp(prefix="c08spark")
    open(os.path.join(d, "s.py"), "w").write(SPARK_SCRIPT)
    import c08_chain as CH

    def wire(c: dict) -> dict:
        if "chain" in c:
            return {"schema": c["schema"], "rows": c["rows"], "chain": [dict(st, sql=CH.to_sql(st["p"])) if st["k"] == "where" and st.get("str") else st for st in c["chain"]]}
        return {k: c[k] for k in ("schema", "rows", "ops", "fn")}

    json.dump([wire(c) for c in cases], open(os.path.join(d, "in.json"), "w"))
    env = dict(os.environ, PYSPARK_PYTHON="/venv/bin/python")
    try:
        p = subprocess.run(["/venv/bin/python", os.path.join(d, "s.py"), os.path.join(d, "in.json"), os.path.join(d, "out.json")], env=env, capture_output=True, text=True, timeout=1500, cwd=d)
        if p.returncode != 0:
            log("live PySpark failed:", p.stderr[-500:])
            return None
        return json.load(open(os.path.join(d, "out.json")))
    except Exception as e:  # noqa
        log("live PySpark not available:", e)
        return None


def validate_spec_on_pyspark(ctx: Ctx, res: t.List[dict], limit: int) -> t.Dict[str, t.Any]:
    pool = [r for r in res if r["accepts"] and r["determined"] and "err" not in r["spec"] and not r["case"].get("pre") and not r["case"].get("post") and not r["case"].get("more")]
    ctx.rng.shuffle(pool)
    # keep every origin represented
    pool.sort(key=lambda r: r["case"].get("origin", ""))
    step = max(1, len(pool) // limit)
    plain_pool = [r for r in pool if "chain" not in r["case"]]
    first = [r for r in plain_pool if r["case"].get("origin", "").startswith(("corpus", "chain-", "grid-sentinels"))]
    first += [r for r in plain_pool if r["case"].get("origin", "").startswith("expr-keys")][::4][:80]
    n_chain = min(150, limit // 3)
    chains = [r for r in pool if "chain" in r["case"]]
    chain_sample = chains[:: max(1, len(chains) // n_chain)][:n_chain]
    step = max(1, len(plain_pool) // max(1, limit - n_chain))
    sample = (first + [r for r in plain_pool[::step] if r not in first])[: limit - len(chain_sample)] + chain_sample
    outs = run_pyspark([r["case"] for r in sample])
    if outs is None:
        return {"pyspark_live": "not available"}
    bad = 0
    first = None
    for r, o in zip(sample, outs):
        if "err" in o:
            side = {"err": o["err"]}
        else:
            side = {"cols": o["cols"], "rows": [[enc(v) for v in row] for row in o["rows"]]}
        if not agree(r, side, r["spec"]):
            bad += 1
            if first is None:
                first = {"program": show_case(r["case"]), "pyspark": side, "specification": r["spec"]}
    if bad:
        ctx.broken.append(f"the Lean specification (Impl/C08Window.lean + sparkDef) disagrees with live PySpark on {bad} of {len(sample)} cases; first: {json.dumps(first)[:600]}")
    return {"pyspark_live": "ok", "pyspark_cases": len(sample), "pyspark_chain_cases": sum(1 for r in sample if "chain" in r["case"]), "pyspark_disagreements": bad}


# ------------------------------------------------------------------------------------------------
# the check
# ------------------------------------------------------------------------------------------------


def known_entries() -> t.Dict[str, dict]:
    known = {e["id"]: e for e in vlib.known_findings(ID)}
    extra = os.path.join(os.path.dirname(os.path.abspath(__file__)), "c08.known.json")
    if os.path.exists(extra):
        for e in json.load(open(extra)).get("findings", []):
            if e.get("property") == ID and e.get("status") == "open":
                known.setdefault(e["id"], e)
    return known


def run(ctx: Ctx) -> None:
    idx = vlib.props_index()[ID]
    vlib.prove(ctx, MODULES, GEN, idx["theorems"], SOURCES)
    known = known_entries()

    try:
        gen_info = exercise_gen(ctx)
    except Exception as e:  # noqa
        ctx.broken.append(f"Gen.Window could not be exercised against the running code: {type(e).__name__}: {str(e)[:300]}")
        gen_info = {}

    cases = cases_for(ctx)
    try:
        res = evaluate(cases)
    except Exception as e:  # noqa  (the driver does not build when Gen.Window is missing)
        ctx.broken.append(f"correspondence stream could not run: {type(e).__name__}: {str(e)[:300]}")
        res = []

    fn_hist: t.Dict[str, int] = {}
    frame_hist: t.Dict[str, int] = {}
    form_hist: t.Dict[str, int] = {}
    origin_hist: t.Dict[str, int] = {}
    nontrivial = set()
    chain_hist: t.Dict[str, int] = {}
    for r in res:
        c = r["case"]
        if "chain" in c:
            import c08_chain as CH

            origin_hist[c.get("origin", "?").split(":")[0]] = origin_hist.get(c.get("origin", "?").split(":")[0], 0) + 1
            sig = ">".join(("window" if (st["k"] == "withColumn" and st["item"][0] == "win") or (st["k"] == "select" and any(i[0] == "win" for i in st["items"])) else st["k"]) for st in c["chain"])
            chain_hist[sig] = chain_hist.get(sig, 0) + 1
            if r["compared_spec"] and "rows" in r["impl"] and len(r["impl"]["rows"]) > 0:
                nontrivial.add(CH.digest(c))
            continue
        fn_hist[c["fn"][0]] = fn_hist.get(c["fn"][0], 0) + 1
        frames = [o for o in c["ops"] if o["op"] in ("rowsBetween", "rangeBetween")]
        fk = "default" if not frames else frames[-1]["op"][:-7]
        frame_hist[fk] = frame_hist.get(fk, 0) + 1
        for o in c["ops"]:
            if o["op"] == "orderBy":
                for k in o["keys"]:
                    f = k[1] + ("(expr)" if kparts(k)[2] is not None else "")
                    form_hist[f] = form_hist.get(f, 0) + 1
        origin_hist[c.get("origin", "?").split(":")[0]] = origin_hist.get(c.get("origin", "?").split(":")[0], 0) + 1
        if r["compared_spec"] and "rows" in r["impl"] and len({json.dumps(x[-1]) for x in r["impl"]["rows"]}) > 1:
            nontrivial.add(vlib.digest([c["ops"], c["fn"], c.get("more"), c["rows"], c.get("pre"), c.get("post")]))

    clause_mismatch = [r for r in res if not r["clause_eq"]]
    model_mismatch = [r for r in res if not r["impl_eq_model"]]
    spec_mismatch = [r for r in res if not r["impl_eq_spec"]]
    immut_bad = [r for r in res if any(not (ob["receiver_unchanged"] and ob["fresh_object"]) for ob in r["obs"])]

    new_viol = []
    for r in spec_mismatch:
        if is_known(r, known):
            for h in r["scope"]:
                vlib.report_known(ctx, known[h], known[h]["summary"])
        else:
            new_viol.append(r)

    # replay the recorded witnesses of the open known findings on the real code
    for h, e in known.items():
        w = e.get("witness")
        if w:
            r = evaluate([w], workers=1)[0]
            if not r["impl_eq_spec"]:
                vlib.report_known(ctx, e, e["summary"])

    if clause_mismatch:
        chain_mm = [r for r in clause_mismatch if "chain" in r["case"]]
        spec_mm = [r for r in clause_mismatch if "chain" not in r["case"]]
        if spec_mm:
            r = spec_mm[0]
            ctx.broken.append(
                f"correspondence stream A (clause held by the real WindowSpec vs Impl/C08Spec.lean `emit`): {len(spec_mm)} of {len(res)} differ; first: "
                f"{show_ops(r['case']['ops'])} real={json.dumps(r['clause'])} model={json.dumps(r['emit'])}"
            )
        if chain_mm:
            r = chain_mm[0]
            ctx.broken.append(
                f"correspondence stream A for chains (number of CTEs after every call: which calls share a SELECT block with the window function, real DataFrame vs Impl/C08Chain.lean): "
                f"{len(chain_mm)} of {sum(1 for x in res if 'chain' in x['case'])} differ; first: {show_case(r['case'])} real={json.dumps(r['clause'])} model={json.dumps(r['emit'])}"
            )
    if model_mismatch:
        ctx.broken.append(f"correspondence stream B (real sqlframe + DuckDB values vs the model's reading of the emitted clause): {len(model_mismatch)} of {len(res)} cases differ")
    gen = gen_info.get("gen", {})
    if immut_bad and gen and all(gen["flags"].get(k, True) for k in ("partitionByCopies", "orderByCopies", "rowsBetweenCopies", "rangeBetweenCopies", "overCopies")):
        r = immut_bad[0]
        ctx.broken.append(f"immutability observed on the real objects contradicts Gen.Window's copy flags: {show_case(r['case'])} {r['obs']}")

    pyspark_info: t.Dict[str, t.Any] = {}
    if ctx.thorough and res:
        pyspark_info = validate_spec_on_pyspark(ctx, res, 550)

    reported = 0
    for r in new_viol[:3]:
        c = shrink(r["case"], lambda rr: (not rr["impl_eq_spec"]) and not is_known(rr, known))
        rr = evaluate([c], workers=1)[0]
        vlib.report_violation(
            ctx,
            {
                "kind": "implementation differs from the Spark specification",
                "program": show_case(c),
                "case": c,
                "implementation": rr["impl"],
                "specification": rr["spec"],
                "model": rr["model"],
                "real_clause": rr["clause"],
                "model_clause": rr["emit"],
                "violated_scope_hypotheses": rr["scope"],
                "broken": ctx.broken,
            },
        )
        reported += 1
    if ctx.broken and not reported:
        first = model_mismatch[0] if model_mismatch else (clause_mismatch[0] if clause_mismatch else None)
        vlib.report_violation(
            ctx,
            {
                "kind": "proof obligation or correspondence no longer checks; no failing input found",
                "broken": ctx.broken,
                "searched": {"cases": len(res), "functions": fn_hist},
                "first_model_mismatch": (
                    {"program": show_case(first["case"]), "case": first["case"], "implementation": first["impl"], "model": first["model"], "real_clause": first["clause"], "model_clause": first["emit"]}
                    if first
                    else None
                ),
            },
            no_input=True,
        )

    n = max(1, len(res))
    ctx.cov.update(
        {
            "evaluations": len(res),
            "distinct_nontrivial": len(nontrivial),
            "rule": "corpus; every frame kind x start x end (sentinels and offsets -2..2) x every aggregate; every order-key form x ranking / offset functions and default-frame aggregates; "
            "no-ORDER-BY windows; sentinel-adjacent boundary integers; repeated builder calls (incl. a second rowsBetween/rangeBetween replacing the frame); window column between filters; "
            "tied order keys under every ROWS frame and position functions (compared as multisets); one WindowSpec object passed to .over() 2-4 times before the Columns are used; random specs; "
            "DataFrame chains around the window column (tools/props/c08_chain.py): every sensitive function x withColumn/select x a following filter on a passed-through column (Column, SQL string, filter alias), "
            "ORDER BY + LIMIT, DISTINCT, narrowing select, groupBy().agg(); filter / LIMIT / DISTINCT over duplicates / redefined column / groupBy().agg() BEFORE the window column; the window column replacing a column; "
            "a window over a window column; several window columns with calls in between; random chains (rows as bags, column names, and the number of CTEs after every call). "
            "non-trivial = distinct (spec, function, rows, filters) compared with the specification whose window column takes at least two different values",
            "traces_validated_against_impl": sum(r["impl_eq_model"] and r["clause_eq"] for r in res),
            "clause_ast_agree": sum(r["clause_eq"] for r in res),
            "compared_with_spec": sum(r["compared_spec"] for r in res),
            "impl_vs_spec_agree": sum(r["compared_spec"] and r["impl_eq_spec"] for r in res),
            "not_compared_tie_order_undetermined": sum(not r["determined"] for r in res),
            "compared_tie_safely_as_multisets": sum(1 for r in res if r.get("proj")),
            "multi_column_shared_spec_cases": sum(1 for r in res if r["case"].get("more")),
            "not_compared_pyspark_rejects": sum(not r["accepts"] for r in res),
            "out_of_scope_cases": sum(1 for r in res if r["scope"]),
            "implementation_errors": sum("err" in r["impl"] for r in res),
            "immutability_observations": sum(len(r["obs"]) for r in res),
            "function_histogram": fn_hist,
            "frame_histogram": frame_hist,
            "order_key_form_histogram": form_hist,
            "origin_histogram": origin_hist,
            "chain_cases": sum(1 for r in res if "chain" in r["case"]),
            "chain_shape_histogram": dict(sorted(chain_hist.items(), key=lambda kv: -kv[1])[:40]),
            "chain_cte_traces_agree": sum(1 for r in res if "chain" in r["case"] and r["clause_eq"]),
            "gen_exercised": {k: v for k, v in gen_info.items() if k != "gen"},
            "samples": [{"program": show_case(r["case"]), "result": r["impl"].get("rows", r["impl"].get("err"))} for r in res[:: max(1, n // 4)][:4]],
            **pyspark_info,
        }
    )
    ctx.assumptions += [
        "DuckDB evaluates a window clause with explicit null placement and frame as Impl/C08Window.lean says, sorts a key without explicit placement NULLS LAST, and fails on INT64 overflow of a RANGE offset (validated by stream B on every case of every run)",
        "PySpark's meaning of the builder calls is Impl/C08Spec.lean `sparkDef` (python thresholds + JVM boundary mapping) over Impl/C08Window.lean (validated against live PySpark 3.5 in the thorough tier when the JVM starts; python-side constants compared on every run)",
        "sys.maxsize = 2^63-1 (compared with the running interpreter)",
        "DuckDB evaluates one SELECT block in SQL's clause order: WHERE, then the window functions and the select list over the surviving rows, then DISTINCT, ORDER BY (output names), LIMIT "
        "(Impl/C08Chain.lean evalWBlock; validated by stream B on every chain case of every run); groupBy().agg() with sum/min/max/count as Impl/C08Chain.lean groupAggTable",
        "PySpark's meaning of a chain is the sequential one (Impl/C08Chain.lean specRunW: every call acts on the result of the previous one, a window function ranges over all rows of the table it is added to); "
        "validated against live PySpark 3.5 in the thorough tier on a sample of the chain cases",
        "a chain's result is compared as a bag of rows; it is compared only when every window value is determined by the data (unique order keys where the function depends on tie order) and every LIMIT directly follows an orderBy on a key that is unique in the table",
        "percent_rank / cume_dist / avg are compared as exact ratios from the model against the engine's doubles (1e-12); no theorem is stated about them beyond the shared frame / rank definitions",
        "values that depend on the order of tied rows (row_number, ntile, lag, lead, first, last, ROWS frames) are compared row by row only when the order keys are unique within every partition; "
        "with tied keys they are compared as multisets of (partition key, order key, value) when the function reads only order-key columns / the position (that multiset does not depend on the tie order)",
    ]


def replay(ctx: Ctx, rp: dict) -> None:
    c = rp.get("case")
    if not c:
        print("replay names a broken obligation, not an input:", rp.get("broken"))
        return
    r = evaluate([c], workers=1)[0]
    print(json.dumps({"program": show_case(c), "implementation": r["impl"], "specification": r["spec"], "model": r["model"], "scope": r["scope"], "agree": r["impl_eq_spec"]}, indent=1))
    if not r["impl_eq_spec"]:
        vlib.report_violation(ctx, dict(rp, implementation=r["impl"], specification=r["spec"]))
