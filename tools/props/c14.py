"""
C14 — writes to tables and files round-trip, honour save modes, fail atomically.

proof      : lean/SqlframeModel/Props/C14.lean (C14_modes_partial, C14_history, C14_byName, … over the
             regenerated Gen.Writer)
tie        : Gen.Writer regenerated from /repo on every run (tools/gen_c14.py), compared with the live
             objects (statement shapes, _validate_mode), and the correspondence streams below:
             real sqlframe + DuckDB   vs   Impl/C14Writer.lean `step` / `pathStep`   vs   the specification
             + the option stream (tools/props/c14_opts.py): write.<fmt>(path, **options) then the read with options;
             the option lists of the issued COPY / read_<fmt> statements vs Impl/C14Options.lean, files and tables vs
             DuckDB given the model's / the specification's option lists, explicit header / compression facts, round trip
search     : the same streams compare the implementation with the specification directly
workers    : tools/props/c14_pool.py (plain fork children, polled; never forked from a process that used DuckDB)
executable only (NOT decided by a theorem): csv/json/parquet content round trips, file-level
             behaviour of a failing COPY … TO (both are DuckDB's)
"""
from __future__ import annotations

import json
import os
import random
import re
import shutil
import tempfile
import typing as t

import exprs as X
import vlib
import c14_opts as O
import c14_pool
from vlib import Ctx, bag, log, lval, plain

ID = "C14"
LEVEL = "proof"
MODULES = ["SqlframeModel.Codec.C14", "SqlframeModel.Props.C14"]  # the codec is what the driver imports; the audit uses the last one
GEN = ["Writer", "C14Options"]
SOURCES = [
    "SqlframeModel/Props/C14.lean",
    "SqlframeModel/Lemmas/C14.lean",
    "SqlframeModel/Lemmas/C14Steps.lean",
    "SqlframeModel/Impl/C14Writer.lean",
    "SqlframeModel/Impl/C14Scope.lean",
    "SqlframeModel/Impl/C14Options.lean",
    "SqlframeModel/Lemmas/C14Options.lean",
]

MODES = [None, "error", "errorifexists", "ignore", "overwrite", "append"]
TARGETS = ["t1", "t2"]
TYPES = {"x": "int", "y": "int", "s": "str", "u": "str"}
FORMATS = ["csv", "json", "parquet"]

# ------------------------------------------------------------------------------------------------
# generation
# ------------------------------------------------------------------------------------------------


def gen_frame(rng: random.Random, base: t.List[str], allow_fail: bool = True) -> dict:
    """a frame related to the column list `base`: same, permuted, or different"""
    c = rng.random()
    if c < 0.4:
        cols = list(base)
    elif c < 0.75:
        cols = list(base)
        rng.shuffle(cols)
    elif c < 0.85 and len(base) > 1:
        cols = rng.sample(base, len(base) - 1)
    elif c < 0.93:
        extra = [k for k in TYPES if k not in base]
        cols = list(base) + ([rng.choice(extra)] if extra else [])
        rng.shuffle(cols)
    else:
        cols = rng.sample(list(TYPES), rng.randint(1, 3))
    schema = {k: TYPES[k] for k in cols}
    rows = X.gen_table(rng, schema, max_rows=4)
    fails = allow_fail and rng.random() < 0.12
    return {"cols": cols, "rows": rows, "fails": fails, "bad_at": rng.randint(0, len(rows)) if fails else 0}


def gen_history(rng: random.Random, n_ops: int) -> dict:
    base = {tg: rng.sample(list(TYPES), rng.randint(1, 3)) for tg in TARGETS}
    ops = []
    for _ in range(n_ops):
        tg = rng.choice(TARGETS if rng.random() < 0.8 else TARGETS[:1])
        c = rng.random()
        if c < 0.5:
            m = rng.choice(MODES)
            how = rng.random()
            if m is None:
                arg, st = None, None
            elif how < 0.6:
                arg, st = m, None
            elif how < 0.85:
                arg, st = None, m
            else:
                arg, st = m, rng.choice([x for x in MODES if x])
            o = {"k": "save", "n": tg, "arg": arg, "st": st, "f": gen_frame(rng, base[tg])}
            if st is not None and rng.random() < 0.2:
                o["st_first"] = rng.choice([x for x in MODES if x])  # .mode(a).mode(b): the last one counts
            ops.append(o)
        elif c < 0.75:
            bn = rng.random() < 0.6
            ops.append({"k": "insertInto", "n": tg, "byName": bn, "chain": rng.choice([None, "bm", "mb"] if bn else [None, None, "m"]), "f": gen_frame(rng, base[tg])})
        elif c < 0.93:
            ops.append({"k": "read", "n": tg})
        else:
            ops.append({"k": "drop", "n": tg})
    return {"ops": ops}


def gen_path_history(rng: random.Random, n_ops: int) -> dict:
    fmt = rng.choice(FORMATS)
    base = rng.sample(list(TYPES), rng.randint(1, 3))
    ops = []
    for _ in range(n_ops):
        p = rng.choice(["a", "b"]) if rng.random() < 0.3 else "a"
        m = rng.choice(MODES)
        how = rng.random()
        if m is None:
            arg, st = None, None
        elif how < 0.65:
            arg, st = m, None
        elif how < 0.9:
            arg, st = None, m
        else:
            arg, st = m, rng.choice([x for x in MODES if x])
        f = gen_frame(rng, base)
        ops.append({"p": p, "arg": arg, "st": st, "f": f})
    return {"fmt": fmt, "pops": ops}


# ------------------------------------------------------------------------------------------------
# encoders
# ------------------------------------------------------------------------------------------------


def frame_to_lean(f: dict) -> dict:
    return {
        "cols": f["cols"],
        "tys": [TYPES[c] for c in f["cols"]],
        "rows": [[lval(v) for v in r] for r in f["rows"]],
        "fails": bool(f["fails"]),
    }


def calls_of(o: dict) -> t.List[t.Any]:
    """the builder chain between `df.write` and the final call, as [["byName"] | ["mode", m], ...]"""
    if o["k"] == "save":
        calls = [["mode", o["st_first"]]] if o.get("st_first") is not None else []
        if o["st"] is not None:
            calls.append(["mode", o["st"]])
        return calls
    ch = o.get("chain")
    m = ["mode", o.get("chain_mode", "append")]
    if ch == "bm":
        return [["byName"], m]
    if ch == "mb":
        return [m, ["byName"]]
    if ch == "m":
        return ([["byName"]] if o["byName"] else []) + [m]
    return [["byName"]] if o["byName"] else []


def calls_to_lean(calls: t.List[t.Any]) -> t.List[t.Any]:
    return ["byName" if c[0] == "byName" else {"mode": {"m": c[1]}} for c in calls]


def apply_calls(w: t.Any, calls: t.List[t.Any]) -> t.Any:
    for c in calls:
        w = w.byName if c[0] == "byName" else w.mode(c[1])
    return w


def show_calls(calls: t.List[t.Any]) -> str:
    return "".join(".byName" if c[0] == "byName" else f".mode({c[1]!r})" for c in calls)


def op_to_lean(o: dict) -> t.Any:
    k = o["k"]
    if k == "save":
        return {"save": {"n": o["n"], "calls": calls_to_lean(calls_of(o)), "arg": o["arg"], "f": frame_to_lean(o["f"])}}
    if k == "insertInto":
        return {"insertInto": {"n": o["n"], "calls": calls_to_lean(calls_of(o)), "f": frame_to_lean(o["f"])}}
    if k == "read":
        return {"read": {"n": o["n"]}}
    if k == "drop":
        return {"drop": {"n": o["n"]}}
    raise ValueError(k)


def case_to_lean(i: int, c: dict) -> dict:
    if "ops" in c:
        return {"case": i, "ops": [op_to_lean(o) for o in c["ops"]]}
    return {"case": i, "pops": [{"p": o["p"], "arg": o["arg"], "st": o["st"], "f": frame_to_lean(o["f"])} for o in c["pops"]]}


def show_frame(f: dict) -> str:
    s = f"df[{', '.join(c + ':' + TYPES[c] for c in f['cols'])}]{f['rows']}"
    return s + (f"<SELECT raises after {f['bad_at']} rows>" if f["fails"] else "")


def show_op(o: dict) -> str:
    k = o.get("k")
    if k == "save":
        a = f", mode={o['arg']!r}" if o["arg"] is not None else ""
        return f"{show_frame(o['f'])}.write{show_calls(calls_of(o))}.saveAsTable({o['n']!r}{a})"
    if k == "insertInto":
        return f"{show_frame(o['f'])}.write{show_calls(calls_of(o))}.insertInto({o['n']!r})"
    if k == "read":
        return f"session.table({o['n']!r}).collect()"
    if k == "drop":
        return f"DROP TABLE {o['n']}"
    w = f".mode({o['st']!r})" if o["st"] is not None else ""
    a = f", mode={o['arg']!r}" if o["arg"] is not None else ""
    return f"{show_frame(o['f'])}.write{w}.<fmt>(<dir>/{o['p']}{a})"


def show_case(c: dict) -> str:
    if "wopts" in c:
        return O.show_case(c)
    if "ops" in c:
        return "; ".join(show_op(o) for o in c["ops"])
    return f"[{c['fmt']}] " + "; ".join(show_op(o) for o in c["pops"])


# ------------------------------------------------------------------------------------------------
# the real implementation
# ------------------------------------------------------------------------------------------------


def make_df(session: t.Any, f: dict) -> t.Any:
    from sqlframe.duckdb import functions as F

    schema = {c: TYPES[c] for c in f["cols"]}
    if not f["fails"]:
        return X.make_df(session, schema, f["rows"])
    # a frame whose SELECT raises at run time: a helper column is fed as strings, one of them not a number,
    # and a WHERE clause casts it — DuckDB raises ConversionException when it reaches that row, whatever
    # columns a later projection (byName) keeps
    rows = [list(r) + ["1"] for r in f["rows"]]
    k = min(f["bad_at"], len(rows))
    bad_row = [None] * len(f["cols"]) + ["oops"]
    data = rows[:k] + [bad_row] + rows[k:]
    ddl = ", ".join(f"{c} {'bigint' if TYPES[c] == 'int' else 'string'}" for c in f["cols"]) + ", q__ string"
    df = session.createDataFrame([tuple(r) for r in data], schema=ddl)
    return df.where(F.col("q__").cast("bigint") > F.lit(0)).select(*[F.col(c) for c in f["cols"]])


def duck_ty(s: str) -> str:
    s = s.upper()
    if s in ("BIGINT", "INTEGER", "LONG", "INT"):
        return "int"
    if s in ("VARCHAR", "STRING", "TEXT"):
        return "str"
    return s.lower()


def engine_catalog(conn: t.Any) -> t.List[t.Any]:
    names = [r[0] for r in conn.execute("select table_name from information_schema.tables where table_schema = 'main' and table_type = 'BASE TABLE' order by 1").fetchall()]
    out = []
    for n in names:
        desc = conn.execute(f'describe "{n}"').fetchall()
        rows = conn.execute(f'select * from "{n}"').fetchall()
        out.append([n, {"cols": [d[0] for d in desc], "tys": [duck_ty(d[1]) for d in desc], "rows": bag([[plain(v) for v in r] for r in rows])}])
    return out


def run_tables_impl(c: dict) -> t.List[dict]:
    session = c14_pool.fresh_session()
    conn = session._conn
    out = []
    for o in c["ops"]:
        k = o["k"]
        obs: t.Dict[str, t.Any] = {"ok": True, "out": None, "err": None}
        try:
            if k == "save":
                w = apply_calls(make_df(session, o["f"]).write, calls_of(o))
                if o["arg"] is not None:
                    w.saveAsTable(o["n"], mode=o["arg"])
                else:
                    w.saveAsTable(o["n"])
            elif k == "insertInto":
                apply_calls(make_df(session, o["f"]).write, calls_of(o)).insertInto(o["n"])
            elif k == "read":
                tb = session.table(o["n"])
                rows = tb.collect()
                fields = tb.schema.fields
                obs["out"] = {
                    "cols": [f.name for f in fields],
                    "tys": [duck_ty(f.dataType.simpleString()) for f in fields],
                    "rows": bag([[plain(v) for v in r] for r in rows]),
                }
                if list(tb.columns) != obs["out"]["cols"]:
                    obs["out"]["columns_attr"] = list(tb.columns)
            elif k == "drop":
                conn.execute(f'drop table "{o["n"]}"')
        except Exception as e:  # noqa
            obs["ok"] = False
            obs["err"] = type(e).__name__
        # the session must stay usable whatever happened
        try:
            obs["usable"] = session.sql("select 1 as one").collect()[0][0] == 1
        except Exception as e:  # noqa
            obs["usable"] = False
        obs["cat"] = engine_catalog(conn)
        n = o["n"]
        api: t.Dict[str, t.Any] = {}
        try:
            api["exists"] = bool(session.catalog.tableExists(n))
            api["tables"] = sorted(tb.name for tb in session.catalog.listTables())
            api["columns"] = [[col.name, duck_ty(col.dataType)] for col in session.catalog.listColumns(n)]
            try:
                api["getTable"] = session.catalog.getTable(n).name
            except ValueError:
                api["getTable"] = None
        except Exception as e:  # noqa
            api["err"] = f"{type(e).__name__}: {str(e)[:120]}"
        obs["api"] = api
        out.append(obs)
    return out


def canon_table(tb: t.Optional[dict]) -> t.Optional[dict]:
    if tb is None:
        return None
    return {"cols": tb["cols"], "tys": tb["tys"], "rows": bag(tb["rows"]) if tb["rows"] and not isinstance(tb["rows"][0], str) else sorted(tb["rows"])}


def canon_cat(cat: t.List[t.Any]) -> t.List[t.Any]:
    return sorted([[n, canon_table(tb)] for n, tb in cat], key=lambda e: e[0])


def step_agrees(impl: dict, ok: bool, out: t.Optional[dict], cat: t.List[t.Any]) -> bool:
    if impl["ok"] != ok:
        return False
    if canon_cat(impl["cat"]) != canon_cat(cat):
        return False
    if ok and out is not None:
        got = impl["out"]
        if got is None:
            return False
        if "columns_attr" in got:
            return False
        if canon_table({k: got[k] for k in ("cols", "tys", "rows")}) != canon_table(out):
            return False
    return True


def api_agrees(impl: dict, cat: t.List[t.Any], n: str) -> t.Optional[str]:
    """the catalog API against a catalog value (model's or specification's)"""
    api = impl["api"]
    if "err" in api:
        return "catalog API raised " + api["err"]
    d = {k: v for k, v in cat}
    if api["exists"] != (n in d):
        return f"tableExists({n!r}) = {api['exists']}"
    if api["tables"] != sorted(d):
        return f"listTables() = {api['tables']}"
    want_cols = [[c, ty] for c, ty in zip(d[n]["cols"], d[n]["tys"])] if n in d else []
    if api["columns"] != want_cols:
        return f"listColumns({n!r}) = {api['columns']}"
    if (api["getTable"] == n) != (n in d):
        return f"getTable({n!r}) -> {api['getTable']}"
    return None


# ---- path writers -----------------------------------------------------------------------------


def read_back(session: t.Any, path: str, fmt: str, f_cols: t.List[str], with_schema: bool) -> dict:
    ddl = ", ".join(f"{c} {'bigint' if TYPES[c] == 'int' else 'string'}" for c in f_cols)
    if with_schema:
        df = session.read.load(path, format=fmt, schema=ddl)
    else:
        df = getattr(session.read, fmt)(path)
    rows = df.collect()
    fields = df.schema.fields
    return {"cols": [f.name for f in fields], "tys": [duck_ty(f.dataType.simpleString()) for f in fields], "rows": [[plain(v) for v in r] for r in rows]}


# ------------------------------------------------------------------------------------------------
# evaluation
# ------------------------------------------------------------------------------------------------


def eval_tables(cases: t.List[dict], workers: int = 0) -> t.List[dict]:
    outs = vlib.run_driver("C14", [case_to_lean(i, c) for i, c in enumerate(cases)])
    impls = [run_tables_impl(c) for c in cases] if workers == 1 else c14_pool.pmap(run_tables_impl, cases, workers)
    res = []
    for c, o, impl in zip(cases, outs, impls):
        if "err" in o:
            raise RuntimeError(f"driver rejected a case: {o}")
        steps = []
        first_spec_diff = None
        first_model_diff = None
        for i, (op, st, ob) in enumerate(zip(c["ops"], o["steps"], impl)):
            m_ok = step_agrees(ob, st["model"]["ok"], st["model"]["out"], st["mcat"])
            m_api = api_agrees(ob, st["mcat"], op["n"])
            s_ok = step_agrees(ob, st["spec"]["ok"], st["spec"]["out"], st["scat"])
            s_api = api_agrees(ob, st["scat"], op["n"])
            usable = ob.get("usable", False)
            steps.append({"impl_eq_model": m_ok and m_api is None, "impl_eq_spec": s_ok and s_api is None, "api_vs_model": m_api, "api_vs_spec": s_api, "scope": st["scope"], "usable": usable})
            if first_model_diff is None and not (m_ok and m_api is None):
                first_model_diff = i
            if first_spec_diff is None and not (s_ok and s_api is None and usable):
                first_spec_diff = i
        res.append({"case": c, "driver": o["steps"], "impl": impl, "steps": steps, "first_spec_diff": first_spec_diff, "first_model_diff": first_model_diff})
    return res


def canon_rows_for(fmt: str, rows: t.List[t.List[t.Any]]) -> t.List[str]:
    if fmt == "csv":
        # CSV cannot tell '' from NULL (DuckDB's reader and PySpark's both give NULL)
        rows = [[None if v == {"s": ""} else v for v in r] for r in rows]
    return bag(rows)


def eval_paths(cases: t.List[dict]) -> t.List[dict]:
    outs = vlib.run_driver("C14", [case_to_lean(i, c) for i, c in enumerate(cases)])
    items = [(c, o) for c, o in zip(cases, outs)]
    return c14_pool.pmap(_paths_one, items, 0)


def _paths_one(item: t.Tuple[dict, dict]) -> dict:
    c, o = item
    if "err" in o:
        raise RuntimeError(f"driver rejected a case: {o}")
    session = c14_pool.fresh_session()
    fmt = c["fmt"]
    d = tempfile.mkdtemp(prefix="verif_c14_")
    steps = []
    first_spec_diff = None
    first_model_diff = None
    leftovers = 0
    try:
        for i, (op, st) in enumerate(zip(c["pops"], o["psteps"])):
            path = os.path.join(d, f"{op['p']}.{fmt}")
            existed = os.path.exists(path)
            before = open(path, "rb").read() if existed else None
            res, err = "ok", None
            try:
                w = make_df(session, op["f"]).write
                if op["st"] is not None:
                    w = w.mode(op["st"])
                if op["arg"] is not None:
                    getattr(w, fmt)(path, mode=op["arg"])
                else:
                    getattr(w, fmt)(path)
            except FileExistsError:
                res = "refused"
            except NotImplementedError:
                res = "notImplemented"
            except Exception as e:  # noqa
                res, err = "failed", type(e).__name__
            notes = []
            if res != "ok":
                if existed:
                    if not (os.path.exists(path) and open(path, "rb").read() == before):
                        notes.append("a write that did not succeed changed the existing file")
                elif os.path.exists(path):
                    # file-level behaviour of a failing COPY … TO on a new path is DuckDB's (not decided):
                    # counted, and removed so that the history continues from the modelled state
                    leftovers += 1
                    os.remove(path)
            try:
                usable = session.sql("select 1 as one").collect()[0][0] == 1
            except Exception:  # noqa
                usable = False
            if not usable:
                notes.append("session unusable after the write")

            content_tags: t.Set[str] = set()

            def content_agrees(fs: t.List[t.Any]) -> t.Optional[str]:
                want = {k: v for k, v in fs}
                for p in ("a", "b"):
                    pp = os.path.join(d, f"{p}.{fmt}")
                    if os.path.exists(pp) != (p in want):
                        return f"path {p}: exists={os.path.exists(pp)}"
                    if p not in want:
                        continue
                    tb = want[p]
                    try:
                        got = read_back(session, pp, fmt, tb["cols"], fmt != "parquet")
                    except Exception as e:  # noqa
                        if fmt == "json" and not tb["rows"]:
                            # content round trip (DuckDB's reader, not modelled): an empty frame is an empty
                            # file, which read_json cannot read with a column list
                            content_tags.add("H_jsonEmptyFrame")
                            continue
                        return f"path {p}: read raised {type(e).__name__}: {str(e)[:100]}"
                    if got["cols"] != tb["cols"] or got["tys"] != tb["tys"]:
                        return f"path {p}: read back columns {list(zip(got['cols'], got['tys']))}"
                    if canon_rows_for(fmt, got["rows"]) != canon_rows_for(fmt, tb["rows"]):
                        return f"path {p}: read back rows {got['rows']}"
                    # schema inference (no schema given): only when every column has a value that pins its type
                    if fmt != "parquet" and tb["rows"] and all(any(r[j] is not None and r[j] != {"s": ""} for r in tb["rows"]) for j in range(len(tb["cols"]))):
                        try:
                            inf = read_back(session, pp, fmt, tb["cols"], False)
                        except Exception as e:  # noqa
                            return f"path {p}: inferred read raised {type(e).__name__}: {str(e)[:100]}"
                        if inf["cols"] != tb["cols"] or inf["tys"] != tb["tys"] or canon_rows_for(fmt, inf["rows"]) != canon_rows_for(fmt, tb["rows"]):
                            return f"path {p}: inferred read gives {list(zip(inf['cols'], inf['tys']))} {inf['rows']}"
                return None

            m_diff = None if res == st["model"] else f"result {res} (model {st['model']})"
            m_diff = m_diff or content_agrees(st["mfs"])
            if st["spec"] is None:
                s_diff: t.Optional[str] = "unknown mode"
            else:
                s_diff = None if res == st["spec"] else f"result {res} (specification {st['spec']})"
                s_diff = s_diff or content_agrees(st["sfs"])
            if notes:
                s_diff = s_diff or "; ".join(notes)
            if content_tags:
                s_diff = s_diff or "content round trip: " + ", ".join(sorted(content_tags))
            steps.append({"impl": res, "err": err, "impl_eq_model": m_diff is None, "impl_eq_spec": s_diff is None, "model_diff": m_diff, "spec_diff": s_diff, "scope": st["scope"] + sorted(content_tags), "notes": notes})
            if first_model_diff is None and m_diff is not None:
                first_model_diff = i
            if first_spec_diff is None and s_diff is not None:
                first_spec_diff = i
    finally:
        shutil.rmtree(d, ignore_errors=True)
    return {"case": c, "driver": o["psteps"], "steps": steps, "first_spec_diff": first_spec_diff, "first_model_diff": first_model_diff, "leftovers": leftovers}


# ------------------------------------------------------------------------------------------------
# the generated decisions against the live objects
# ------------------------------------------------------------------------------------------------


def check_options_against_live(ctx: Ctx, gen: dict, session: t.Any) -> int:
    """Gen.C14Options against the live objects: signatures, what the entry points hand to `_write` / `load`
    (captured by stand-ins), `to_csv` on sample values"""
    import inspect

    from sqlframe.base.util import to_csv

    g = gen["options"]
    n = 0
    df = session.createDataFrame([(1,)], schema="x bigint")
    for v, keeps in g["toCsvKeeps"]:
        live = to_csv({"k": v}) != ""
        if live != keeps:
            ctx.broken.append(f"Gen.C14Options.toCsvKeeps({v!r}) = {keeps} but to_csv({{'k': {v!r}}}) = {to_csv({'k': v})!r}")
        n += 1
    for fmt in FORMATS:
        w = df.write
        sig = [p for p in inspect.signature(getattr(w, fmt)).parameters if p not in ("path", "mode")]
        if sig != g["writerParams"][fmt]:
            ctx.broken.append(f"Gen.C14Options.writerParams({fmt}) = {g['writerParams'][fmt]} but the live signature has {sig}")
        n += 1
        got: t.Dict[str, t.Any] = {}

        def fake_write(**kw: t.Any) -> None:
            got.clear()
            got.update(kw)

        w._write = fake_write  # type: ignore
        # every parameter a distinct marker; then every parameter the falsy values (they are values too)
        for vals in ({p: f"<{p}>" for p in sig}, {p: False for p in sig}, {p: 0 for p in sig}, {p: "" for p in sig}):
            getattr(w, fmt)("p", **vals)
            live = [[k, v] for k, v in got.items() if k not in ("path", "mode")]
            want = []
            for k, a in g["writerCall"][fmt]:
                m = re.match(r'Sqlframe\.Gen\.WArg\.(lit|param) "(.*)"$', a)
                if not m:
                    ctx.broken.append(f"cannot read Gen.C14Options.writerCall entry {a!r}")
                    continue
                want.append([k, m.group(2) if m.group(1) == "lit" else vals[m.group(2)]])
            if live != want:
                ctx.broken.append(f"Gen.C14Options.writerCall({fmt}) says _write receives {want} but write.{fmt}(**{vals}) handed it {live}")
            n += 1
    for fmt in ("csv", "json"):
        sig = [p for p in inspect.signature(getattr(session.read, fmt)).parameters if p not in ("path", "schema")]
        if sig != g["readerParams"][fmt]:
            ctx.broken.append(f"Gen.C14Options.readerParams({fmt}) = {g['readerParams'][fmt]} but the live signature has {sig}")
        n += 1
    for fmt in FORMATS:
        keeps = {json.dumps(v): k for v, k in g["readerKeeps"][fmt]}
        key = {"csv": "header", "json": "multiLine", "parquet": "anything"}[fmt]
        for v in (None, True, False, "", "x", 0, 3):
            rd = session.read.option("stored", 1)
            got2: t.Dict[str, t.Any] = {}

            def fake_load(**kw: t.Any) -> t.Any:
                got2.clear()
                got2.update(kw)
                return df

            rd.load = fake_load  # type: ignore
            getattr(rd, fmt)("p", **{key: v})
            live_keeps = key in got2 and got2[key] is v
            if live_keeps != keeps[json.dumps(v)]:
                ctx.broken.append(f"Gen.C14Options.readerKeeps({fmt}, {v!r}) = {keeps[json.dumps(v)]} but read.{fmt}({key}={v!r}) handed load() {got2}")
            if got2.get("stored") != 1:
                ctx.broken.append(f"read.option('stored', 1).{fmt}(…) handed load() {got2}: the stored option is missing")
            n += 1
    # a fresh reader starts without options; .option / .options store the last value
    rd = session.read.option("a", 1).options(a=2, b=3).option("b", None)
    if dict(rd.state_options) != {"a": 2, "b": None} or dict(session.read.state_options) != {}:
        ctx.broken.append(f"reader state: .option('a',1).options(a=2,b=3).option('b',None) stores {dict(rd.state_options)}; a fresh reader has {dict(session.read.state_options)}")
    n += 1
    return n


def check_gen_against_live(ctx: Ctx, gen: dict) -> int:
    n = 0
    session = c14_pool.fresh_session()
    conn = session._conn
    log_sql: t.List[str] = []
    orig = session._execute

    def spy(sql: str) -> None:
        log_sql.append(sql)
        orig(sql)

    session._execute = spy  # type: ignore
    df = session.createDataFrame([(1,)], schema="x bigint")

    def shape(sql: str) -> str:
        u = sql.upper()
        if " INSERT INTO" in " " + u and "CREATE" not in u.split("INSERT INTO")[0]:
            return "Sqlframe.Gen.SaveAction.insert"
        if "CREATE OR REPLACE TABLE" in u:
            return "Sqlframe.Gen.SaveAction.create false true"
        if "CREATE TABLE IF NOT EXISTS" in u:
            return "Sqlframe.Gen.SaveAction.create true false"
        if "CREATE TABLE" in u:
            return "Sqlframe.Gen.SaveAction.create false false"
        return "?" + sql[:40]

    eff = {(a, s): k for a, s, k in gen["effectiveMode"]}
    act = {(k, ex): a for k, ex, a in gen["saveAction"]}
    i = 0
    for (a, s), key in sorted(eff.items(), key=str):
        for ex in (True, False):
            if (key, ex) not in act:
                continue
            i += 1
            nm = f"g{i}"
            if ex:
                conn.execute(f"create table {nm} (x bigint)")
            del log_sql[:]
            w = df.write
            if s is not None:
                w = w.mode(s)
            try:
                w.saveAsTable(nm, mode=a) if a is not None else w.saveAsTable(nm)
            except Exception:  # noqa
                pass
            mine = [q for q in log_sql if f'"{nm}"' in q]
            live = shape(mine[-1]) if mine else "Sqlframe.Gen.SaveAction.raise"
            want = act[(key, ex)]
            if not (want == live or (live.endswith(".insert") and want.startswith(live + " "))):
                ctx.broken.append(f"Gen.Writer.saveAction({key!r}, exists={ex}) = {want} but saveAsTable(mode={a!r}) on .mode({s!r}) issued {live}")
            n += 1
    # _validate_mode
    w = df.write
    pm = {(a, s): k for a, s, k in gen["pathMode"]}
    vm = {(k, ex): d for k, ex, d in gen["validateMode"]}
    d = tempfile.mkdtemp(prefix="verif_c14_")
    try:
        there = os.path.join(d, "there")
        open(there, "w").close()
        for a in MODES + ["bogus"]:
            for ex in (True, False):
                key = pm[(a, None)]
                want = vm.get((key, ex))
                if want is None:
                    continue
                try:
                    _, skip = w._validate_mode(there if ex else os.path.join(d, "nope"), a)
                    live = "Sqlframe.Gen.PathDecision.skip" if skip else "Sqlframe.Gen.PathDecision.write"
                except FileExistsError:
                    live = "Sqlframe.Gen.PathDecision.refuse"
                if live != want:
                    ctx.broken.append(f"Gen.Writer.validateMode({key!r}, exists={ex}) = {want} but _validate_mode gave {live}")
                n += 1
    finally:
        shutil.rmtree(d, ignore_errors=True)
    session._execute = orig  # type: ignore
    n += check_options_against_live(ctx, gen, session)
    return n


# ------------------------------------------------------------------------------------------------
# classification, shrinking
# ------------------------------------------------------------------------------------------------


def known_entries() -> t.Dict[str, dict]:
    known = {e["id"]: e for e in vlib.known_findings(ID)}
    extra = os.path.join(os.path.dirname(os.path.abspath(__file__)), "c14.known.json")
    if os.path.exists(extra):
        for e in json.load(open(extra)).get("findings", []):
            if e.get("property") == ID and e.get("status") == "open":
                known.setdefault(e["id"], e)
    return known


def classify(r: dict, known: t.Dict[str, dict]) -> t.Tuple[str, t.List[str]]:
    """'ok' | 'known' | 'declared' | 'violation' | 'model' for one evaluated history"""
    i = r["first_spec_diff"]
    j = r["first_model_diff"]
    if j is not None and (i is None or j <= i):
        return "model", []
    if i is None:
        return "ok", []
    sc = r["steps"][i]["scope"]
    hs = [h for h in sc if h.startswith("H_")]
    ds = [h for h in sc if h.startswith("D_")]
    if not sc:
        return "violation", []
    if all(h in known for h in hs):
        return ("known", hs) if hs else ("declared", ds)
    return "violation", hs


def eval_any(cases: t.List[dict]) -> t.List[dict]:
    """evaluate cases of one kind (after the streams: in-process, see c14_pool)"""
    if not cases:
        return []
    if "ops" in cases[0]:
        return eval_tables(cases, workers=1)
    if "pops" in cases[0]:
        return eval_paths(cases)
    return O.evaluate(cases)


def shrink(c: dict, evaluate: t.Callable[[t.List[dict]], t.List[dict]], bad: t.Callable[[dict], bool], rounds: int = 10) -> dict:
    if "wopts" in c:
        best = c
        for _ in range(rounds * 2):
            cands = O.shrink_candidates(best)
            if not cands:
                break
            nxt = next((r["case"] for r in evaluate(cands) if bad(r)), None)
            if nxt is None:
                break
            best = nxt
        return best
    key = "ops" if "ops" in c else "pops"
    best = c
    for _ in range(rounds):
        cands = [dict(best, **{key: best[key][:i] + best[key][i + 1 :]}) for i in range(len(best[key])) if len(best[key]) > 1]
        for i, o in enumerate(best[key]):
            f = o.get("f")
            if f and f["rows"]:
                for j in range(len(f["rows"])):
                    o2 = dict(o, f=dict(f, rows=f["rows"][:j] + f["rows"][j + 1 :], bad_at=min(f["bad_at"], len(f["rows"]) - 1)))
                    cands.append(dict(best, **{key: best[key][:i] + [o2] + best[key][i + 1 :]}))
        if not cands:
            break
        res = evaluate(cands)
        nxt = next((r["case"] for r in res if bad(r)), None)
        if nxt is None:
            break
        best = nxt
    return best


# ------------------------------------------------------------------------------------------------
# the check
# ------------------------------------------------------------------------------------------------


def corpus_cases() -> t.List[dict]:
    cases = []
    d = os.path.join(vlib.VERIF, "corpus", ID)
    if os.path.isdir(d):
        for fn in sorted(os.listdir(d)):
            if fn.endswith(".json"):
                c = json.load(open(os.path.join(d, fn)))
                c["origin"] = "corpus:" + fn
                cases.append(c)
    return cases


def table_cases(ctx: Ctx) -> t.List[dict]:
    rng = ctx.rng
    cases = [c for c in corpus_cases() if "ops" in c]
    # every (mode, how it is given) x (target missing | exists) x (same | permuted | failing frame)
    for m in MODES:
        for via in ("arg", "state"):
            if m is None and via == "state":
                continue
            for exists in (False, True):
                for variant in ("same", "perm", "fails"):
                    base = rng.sample(list(TYPES), rng.randint(2, 3))
                    ops = []
                    if exists:
                        f0 = gen_frame(rng, base, allow_fail=False)
                        f0["cols"] = list(base)
                        f0["rows"] = X.gen_table(rng, {k: TYPES[k] for k in base}, 3)
                        ops.append({"k": "save", "n": "t1", "arg": None, "st": None, "f": f0})
                    f = {"cols": list(base), "rows": X.gen_table(rng, {k: TYPES[k] for k in base}, 3), "fails": variant == "fails", "bad_at": 1}
                    if variant == "perm":
                        f["cols"] = base[1:] + base[:1]
                        f["rows"] = X.gen_table(rng, {k: TYPES[k] for k in f["cols"]}, 3)
                    f["bad_at"] = min(1, len(f["rows"]))
                    ops.append({"k": "save", "n": "t1", "arg": m if via == "arg" else None, "st": m if via == "state" else None, "f": f})
                    ops.append({"k": "read", "n": "t1"})
                    cases.append({"ops": ops, "origin": "modes-grid"})
    # insertInto positional / byName x builder-chain order x cached? x permutation (half of them over
    # bigint columns only, so that a positional insert of permuted columns is accepted by the engine)
    for by_name, chain in ((False, None), (False, "m"), (True, None), (True, "bm"), (True, "mb")):
        for cached in (False, True):
            for rep in range(4 if not ctx.thorough else 12):
                base = rng.sample(list(TYPES), rng.randint(2, 3)) if rep % 2 else rng.sample(["x", "y"], 2)
                f0 = {"cols": list(base), "rows": X.gen_table(rng, {k: TYPES[k] for k in base}, 3), "fails": False, "bad_at": 0}
                perm = list(base)
                rng.shuffle(perm)
                if rep % 2 == 0:
                    perm = base[1:] + base[:1]
                f1 = {"cols": perm, "rows": X.gen_table(rng, {k: TYPES[k] for k in perm}, 3), "fails": False, "bad_at": 0}
                f1["rows"].append([(10 + j) if TYPES[k] == "int" else "r" + str(j) for j, k in enumerate(perm)])  # a row that shows the order
                ops = [{"k": "save", "n": "t1", "arg": None, "st": None, "f": f0}]
                if cached:
                    ops.append({"k": "read", "n": "t1"})
                ops.append({"k": "insertInto", "n": "t1", "byName": by_name, "chain": chain, "f": f1})
                ops.append({"k": "read", "n": "t1"})
                cases.append({"ops": ops, "origin": "insert-grid"})
    n_rand = 1500 if ctx.thorough else 220
    for _ in range(n_rand):
        c = gen_history(rng, rng.randint(2, 8))
        c["origin"] = "random"
        cases.append(c)
    return cases


def path_cases(ctx: Ctx) -> t.List[dict]:
    rng = ctx.rng
    cases = [c for c in corpus_cases() if "pops" in c]
    for fmt in FORMATS:
        for m in MODES:
            for via in ("arg", "state"):
                if m is None and via == "state":
                    continue
                for exists in (False, True):
                    for fails in (False, True):
                        base = rng.sample(list(TYPES), rng.randint(1, 3))
                        pops = []
                        if exists:
                            pops.append({"p": "a", "arg": None, "st": None, "f": dict(gen_frame(rng, base, False), cols=list(base), rows=X.gen_table(rng, {k: TYPES[k] for k in base}, 3))})
                        f = {"cols": list(base), "rows": X.gen_table(rng, {k: TYPES[k] for k in base}, 3), "fails": fails, "bad_at": 0}
                        f["bad_at"] = rng.randint(0, len(f["rows"]))
                        pops.append({"p": "a", "arg": m if via == "arg" else None, "st": m if via == "state" else None, "f": f})
                        cases.append({"fmt": fmt, "pops": pops, "origin": "path-grid"})
    for _ in range(400 if ctx.thorough else 60):
        c = gen_path_history(rng, rng.randint(1, 5))
        c["origin"] = "random"
        cases.append(c)
    return cases


def option_cases(ctx: Ctx, gen: dict) -> t.List[dict]:
    rng = ctx.rng
    cases = [c for c in corpus_cases() if "wopts" in c]
    g = gen["options"]
    cases += O.targeted(rng, ctx.thorough, g["writerParams"], g["readerParams"])
    for _ in range(1200 if ctx.thorough else 160):
        cases.append(O.gen_random(rng))
    return cases


def replay_dict(kind: str, c: dict, r: dict) -> dict:
    i = r["first_spec_diff"] if r["first_spec_diff"] is not None else r["first_model_diff"]
    if "wopts" in c:
        st = r["steps"][i] if i is not None else {}
        return {
            "kind": kind,
            "program": O.show_case(c),
            "case": c,
            "failing_step": st.get("what"),
            "violated_scope_hypotheses": st.get("scope", []),
            "implementation": {"result": st.get("impl"), "error": st.get("err"), "statement_options": st.get("impl_options"),
                               "difference_from_specification": st.get("spec_diff"), "difference_from_model": st.get("model_diff")},
            "specification": {"write_options": r["driver"]["w_spec"], "read_options": r["driver"]["r_spec"], "round_trip_demanded": O.expects_frame(c)},
            "model": {"write_options": r["driver"]["w_model"], "read_options": r["driver"]["r_model"]},
        }
    d = {
        "kind": kind,
        "program": show_case(c),
        "case": c,
        "failing_step": i,
        "failing_call": show_op((c.get("ops") or c.get("pops"))[i]) if i is not None else None,
        "violated_scope_hypotheses": r["steps"][i]["scope"] if i is not None else [],
    }
    if i is not None:
        st = r["driver"][i]
        if "ops" in c:
            ob = r["impl"][i]
            d["implementation"] = {"ok": ob["ok"], "error": ob["err"], "read": ob["out"], "catalog": ob["cat"], "api": ob["api"], "session_usable": ob.get("usable")}
            d["specification"] = {"ok": st["spec"]["ok"], "read": st["spec"]["out"], "catalog": st["scat"]}
            d["model"] = {"ok": st["model"]["ok"], "read": st["model"]["out"], "catalog": st["mcat"], "schema_cache": st["cache"]}
        else:
            d["implementation"] = {"result": r["steps"][i]["impl"], "error": r["steps"][i]["err"], "difference_from_specification": r["steps"][i]["spec_diff"], "difference_from_model": r["steps"][i]["model_diff"]}
            d["specification"] = {"result": st["spec"], "files": st["sfs"]}
            d["model"] = {"result": st["model"], "files": st["mfs"]}
    return d


def run(ctx: Ctx) -> None:
    idx = vlib.props_index()[ID]
    vlib.prove(ctx, MODULES, GEN, idx["theorems"], SOURCES)
    known = known_entries()

    # the streams fork worker processes: nothing may touch DuckDB in this process before they ran
    # (c14_pool refuses to fork once it has; everything later runs in-process)
    t0 = ctx.elapsed()
    gen = vlib.run_driver("C14", [{"case": 0, "gen": True}])[0]["gen"]
    tcases = table_cases(ctx)
    tres = eval_tables(tcases)
    t1 = ctx.elapsed()
    pcases = path_cases(ctx)
    pres = eval_paths(pcases)
    t2 = ctx.elapsed()
    ocases = option_cases(ctx, gen)
    ores = O.evaluate(ocases)
    t3 = ctx.elapsed()
    log(f"C14: prove {t0:.1f}s; tables {len(tcases)} cases {t1 - t0:.1f}s; paths {len(pcases)} cases {t2 - t1:.1f}s; options {len(ocases)} cases {t3 - t2:.1f}s")
    nb = len(ctx.broken)
    try:
        n_gen = check_gen_against_live(ctx, gen)
    except Exception as e:  # noqa  (a probe of the live objects failed outright: that is a disagreement too)
        n_gen = 0
        ctx.broken.append(f"comparison of Gen.Writer with the live objects raised {type(e).__name__}: {str(e)[:160]}")
    if len(ctx.broken) > nb + 4:
        extra = len(ctx.broken) - nb - 4
        del ctx.broken[nb + 4 :]
        ctx.broken.append(f"... and {extra} more generated decisions disagree with the live objects")

    viol: t.List[t.Tuple[str, dict]] = []
    model_bad: t.List[t.Tuple[str, dict]] = []
    hist: t.Dict[str, int] = {}
    for kind, results in (("tables", tres), ("paths", pres), ("options", ores)):
        for r in results:
            cl, hs = classify(r, known)
            hist[cl] = hist.get(cl, 0) + 1
            if cl == "known":
                for h in hs:
                    vlib.report_known(ctx, known[h], known[h]["summary"])
            elif cl == "violation":
                viol.append((kind, r))
            elif cl == "model":
                model_bad.append((kind, r))

    # known findings: replay the recorded witnesses on the real code
    for h, e in known.items():
        w = e.get("witness")
        if not w:
            continue
        r = eval_any([w])[0]
        if r["first_spec_diff"] is not None:
            vlib.report_known(ctx, e, e["summary"])
        else:
            log(f"known finding {h}: the recorded witness no longer fails")

    if model_bad:
        kind, r = model_bad[0]
        i = r["first_model_diff"]
        ctx.broken.append(
            f"correspondence stream ({kind}: implementation vs Impl/C14Writer.lean): {len(model_bad)} histories differ; first: {show_case(r['case'])} at step {i}"
        )

    reported = 0
    # one report per stream first (a change may show in several), then failures that look different, up to three;
    # the generated-decision messages are cut to a readable length
    ctx.broken[:] = [b if len(b) <= 420 else b[:400] + " …" for b in ctx.broken]

    def signature(kind: str, r: dict) -> str:
        i = r["first_spec_diff"] if r["first_spec_diff"] is not None else r["first_model_diff"]
        st = r["steps"][i]
        what = st.get("what") or (r["case"]["ops"][i]["k"] if "ops" in r["case"] else "")
        txt = str(st.get("spec_diff") or st.get("model_diff") or st.get("api_vs_spec") or "")
        return kind + ":" + str(what) + ":" + re.sub(r"[^A-Za-z ]+", "#", txt)[:40]

    distinct: t.List[t.Tuple[str, dict]] = []
    seen_sig: t.Set[str] = set()
    for x in viol + model_bad:
        if signature(*x) not in seen_sig:
            seen_sig.add(signature(*x))
            distinct.append(x)
    todo: t.List[t.Tuple[str, dict]] = []
    for kd in ("options", "paths", "tables"):
        todo += [x for x in distinct if x[0] == kd][:1]
    todo += [x for x in distinct if not any(x is y for y in todo)]
    shown_cases: t.List[t.Any] = []
    for kind, r in todo[:3]:
        ev = eval_any
        bad = lambda rr: classify(rr, known)[0] in ("violation", "model")  # noqa
        c = shrink(r["case"], ev, bad)
        key = {k: v for k, v in c.items() if k != "origin"}
        if key in shown_cases:
            continue
        shown_cases.append(key)
        rr = ev([c])[0]
        vlib.report_violation(
            ctx,
            dict(
                replay_dict("implementation differs from the specification" if rr["first_spec_diff"] is not None else "implementation differs from the model (correspondence broken)", c, rr),
                broken=ctx.broken,
            ),
        )
        reported += 1
    if ctx.broken and not reported:
        vlib.report_violation(
            ctx,
            {"kind": "proof obligation or generated decision no longer checks; no failing input found", "broken": ctx.broken, "searched": {"table_histories": len(tres), "path_histories": len(pres), "option_cases": len(ores)}},
            no_input=True,
        )

    # coverage
    op_hist: t.Dict[str, int] = {}
    mode_hist: t.Dict[str, int] = {}
    len_hist: t.Dict[str, int] = {}
    err_hist: t.Dict[str, int] = {}
    nontrivial = set()
    n_steps = 0
    n_fault = 0
    n_fault_intact = 0
    for r in tres:
        c = r["case"]
        len_hist[str(len(c["ops"]))] = len_hist.get(str(len(c["ops"])), 0) + 1
        for o, ob in zip(c["ops"], r["impl"]):
            n_steps += 1
            op_hist[o["k"]] = op_hist.get(o["k"], 0) + 1
            if o["k"] == "save":
                mk = f"{o['arg']}/{o['st']}"
                mode_hist[mk] = mode_hist.get(mk, 0) + 1
            if ob["err"]:
                err_hist[ob["err"]] = err_hist.get(ob["err"], 0) + 1
            if o.get("f", {}).get("fails"):
                n_fault += 1
                n_fault_intact += not ob["ok"]
        if any(tb["rows"] for _, tb in r["impl"][-1]["cat"]):
            nontrivial.add(vlib.digest(c["ops"]))
    path_res_hist: t.Dict[str, int] = {}
    for r in pres:
        for s in r["steps"]:
            n_steps += 1
            path_res_hist[s["impl"]] = path_res_hist.get(s["impl"], 0) + 1
        nontrivial.add(vlib.digest([r["case"]["fmt"], r["case"]["pops"]]))
    opt_origin: t.Dict[str, int] = {}
    opt_keys: t.Dict[str, int] = {}
    opt_results: t.Dict[str, int] = {}
    n_round_trips = 0
    for r in ores:
        c = r["case"]
        opt_origin[c.get("origin", "?")] = opt_origin.get(c.get("origin", "?"), 0) + 1
        for k, v in c["wopts"]:
            opt_keys[f"write.{c['fmt']}({k}={v!r})"] = opt_keys.get(f"write.{c['fmt']}({k}={v!r})", 0) + 1
        for s_ in r["steps"]:
            n_steps += 1
            opt_results[f"{s_['what']}:{s_['impl']}"] = opt_results.get(f"{s_['what']}:{s_['impl']}", 0) + 1
            n_round_trips += bool(s_.get("round_trip_demanded"))
        if any(s_["what"] == "read" and s_["impl"] == "ok" for s_ in r["steps"]) or (c["wopts"] and r["steps"] and r["steps"][0]["impl"] == "ok"):
            nontrivial.add(vlib.digest([c["fmt"], c["f"], c["wopts"], c.get("rcalls"), c.get("ropts"), c.get("via"), c.get("schema"), c.get("pre")]))
    ctx.cov.update(
        {
            "evaluations": len(tres) + len(pres) + len(ores),
            "calls_executed": n_steps,
            "distinct_nontrivial": len(nontrivial),
            "rule": "corpus; every mode x {argument, .mode()} x {target missing, exists} x {same, permuted, failing frame}; insertInto x {positional, byName} x {schema cached or not}; "
            "random histories of 2..8 calls on 2 targets; the same grid for csv/json/parquet paths plus random path histories; "
            "option cases: every spelling of csv header x compression x {new path, overwrite} read back by the matching call (method / load / format().load), "
            "stored-vs-call precedence, json/parquet compression, every option parameter of every writer (and a sample of the readers') given a falsy value, random option sets. "
            "non-trivial = distinct table histories that leave at least one non-empty table, plus distinct path histories, plus distinct option cases whose write (with options) or read succeeded",
            "traces_validated_against_impl": sum(r["first_model_diff"] is None for r in tres) + sum(r["first_model_diff"] is None for r in pres) + sum(r["first_model_diff"] is None for r in ores),
            "option_cases": len(ores),
            "option_case_origins": opt_origin,
            "option_step_results": opt_results,
            "option_round_trips_demanded": n_round_trips,
            "writer_option_histogram": dict(sorted(opt_keys.items(), key=lambda kv: -kv[1])[:40]),
            "histories_agreeing_with_specification": hist.get("ok", 0),
            "histories_with_known_finding": hist.get("known", 0),
            "histories_outside_declared_scope": hist.get("declared", 0),
            "generated_decisions_checked_against_live_objects": n_gen,
            "fault_writes": n_fault,
            "fault_writes_rejected_by_engine": n_fault_intact,
            "file_leftovers_after_failed_copy_to_new_path": sum(r["leftovers"] for r in pres),
            "op_kind_histogram": op_hist,
            "mode_histogram(arg/state)": mode_hist,
            "length_histogram": dict(sorted(len_hist.items())),
            "implementation_errors": err_hist,
            "path_result_histogram": path_res_hist,
            "samples": [{"program": show_case(r["case"])[:600], "final_catalog": r["impl"][-1]["cat"]} for r in tres[:: max(1, len(tres) // 3)][:3]]
            + [{"program": show_case(r["case"])[:600], "results": [s["impl"] for s in r["steps"]]} for r in pres[:: max(1, len(pres) // 2)][:2]]
            + [{"program": show_case(r["case"])[:600], "results": [s["impl"] for s in r["steps"]], "statement_options": [s["impl_options"] for s in r["steps"]]} for r in ores[:: max(1, len(ores) // 2)][:2]],
        }
    )
    ctx.assumptions += [
        "DuckDB executes CREATE TABLE AS / CREATE OR REPLACE / IF NOT EXISTS / INSERT INTO / DROP TABLE as Impl/C14Writer.lean `exec` says, and a failing statement has no effect (validated by the table stream on every call, including writes whose SELECT raises after k rows)",
        "csv/json/parquet content round trips (COPY … TO, read_<format>) and the file-level behaviour of a failing COPY are DuckDB's: compared executably, not proved; a file left behind by a failing COPY to a new path is counted and removed by the harness",
        "CSV cannot distinguish '' from NULL (both DuckDB and PySpark read NULL): rows are compared modulo that for csv only",
        "PySpark's behaviour of the six save modes, of saveAsTable(append) assigning by name and of mode().csv() was confirmed once against live PySpark 3.5.9; `byName` is a sqlframe extension (specified as: project the frame onto the target's columns by name)",
        "catalog observations use DuckDB's information_schema directly; rows are compared as bags",
        "what DuckDB does with an option of COPY … TO / read_<format> (header, compression, sep, …; which options it rejects) is the engine's and is not modelled: the option lists of the model and of the specification are executed on DuckDB itself and the resulting files / tables compared; independently of that, an explicit header=True/False must show as a header line present/absent and compression='gzip' as a gzip file",
        "a string option value that is a bare word (gzip, true, snappy) means the same to DuckDB with and without quotes; other string values are under H_optionValueQuoted",
        "option cases also use boolean / double / date columns (half of the frames): doubles are drawn from {0.0, 1.5, -0.25, 2.0} (binary fractions with a short decimal form, written and parsed exactly by csv / json / parquet) and compared exactly; such frames are built from typed VALUES through session.sql, because createDataFrame's bare literals reach DuckDB as DECIMAL / INTEGER whatever the declared schema says (C09's subject)",
        "the round trip (read == frame) is demanded only for the matching read: the read's effective header / compression equal the write's explicit ones, a schema is given when the file has no header line, inferred types only when every column has a value that pins its type; an empty headerless csv / empty json file is DuckDB's to interpret (H_jsonEmptyFrame)",
        "the statement text the reader issues has passed through sqlglot's parser and generator; option values are compared after a common normalisation (TRUE/True, \"word\"/word)",
    ]


def replay(ctx: Ctx, rp: dict) -> None:
    c = rp.get("case")
    if not c:
        print("replay names a broken obligation, not an input:", rp.get("broken"))
        return
    known = known_entries()
    r = eval_any([c])[0]
    cl, hs = classify(r, known)
    print(json.dumps(dict(replay_dict(cl, c, r), classification=cl), indent=1, default=str))
    if cl in ("violation", "model"):
        vlib.report_violation(ctx, replay_dict(cl, c, r))
