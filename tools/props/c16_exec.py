#!/venv/bin/python
"""
c16_exec.py — the EXECUTED part of the C16 comparison (DuckDB session, real `DataFrame.select(...).collect()`).

For every (function, PySpark ColumnOrName position[, element]) cell of sqlframe.duckdb.functions the two argument forms
`f(.., 'name', ..)` and `f(.., col('name'), ..)` are put into a select over a real DuckDB table whose columns carry
unusual but legitimate names, and three things are compared: the NAMES of the output columns (`df.columns`), the names of
nested struct fields (through `Row.asDict(recursive)`), and the VALUES of all rows.

The table: one per (type of the named column, type of the other column arguments); columns

    a.b   my col   Cd   1x   select   x   ab   a   b      of the target's type (every column has different values, so a
                                                          reference that lands on another column - e.g. the characters
                                                          'a', 'b' of 'ab' - changes the result)
    s                                                     STRUCT(x, y) of the target's type (the qualified name 's.x')
    d0 … d12, d90 … d93                                   the typed dummy columns of the other arguments

and it is read through `session.sql("select * from <table>")` under the alias `tq` (the alias-qualified name 'tq.ab').

Which types make a cell executable is found by search (the Column form with the plain name `x` must run) and remembered
in tools/oracle/c16_exec_typing.json as a HINT only: a remembered typing that no longer runs is searched again.
A cell no typing runs for is counted as not executable (no claim from this stream; the text/tree comparison still covers it).
"""
from __future__ import annotations

import json
import os
import types
import typing as t
import warnings

import c16_trace as T

HERE = os.path.dirname(os.path.abspath(__file__))
TYPING_FILE = os.path.join(os.path.dirname(HERE), "oracle", "c16_exec_typing.json")

# column names of the target's type: (column name in the engine, how PySpark code names it)
UNUSUAL: t.List[t.Tuple[str, str, str]] = [
    # engine column, reference, what is unusual            (the quick tier runs the first six)
    ("ab", "ab", "two characters, each of which is also a column"),
    ("a.b", "`a.b`", "a dot inside the name"),
    ("s", "s.x", "field of a struct column (qualified)"),
    ("Cd", "Cd", "upper-case letters"),
    ("1x", "1x", "leading digit"),
    ("select", "select", "reserved word"),
    ("x", "x", "one character"),
    ("my col", "my col", "a space"),
    ("ab", "tq.ab", "qualified by the DataFrame's alias"),
    ("my col", "`my col`", "a space, quoted by the caller"),
    ("Cd", "cd", "another spelling of an upper-case name"),
]
PLAIN_COLUMNS = ["x", "ab", "a.b", "Cd", "1x", "select", "my col", "a", "b"]
DUMMIES = [f"d{k}" for k in list(range(0, 13)) + [90, 91, 92, 93]]


def _v(tag: str, j: int, r: int) -> str:
    """SQL literal of the r-th value of the j-th column of type `tag`"""
    if tag == "i":
        return [f"{3 + 10 * j}", f"{-(4 + 10 * j)}"][r]
    if tag == "f":
        return [f"{1.5 + j}", f"{-(0.25 + j)}"][r]
    if tag == "u":  # small positive integers (months, days, bit counts, code points)
        return [f"{1 + j % 9}", f"{2 + j % 7}"][r]
    if tag == "p":  # fractions in (0, 1) (domains of acos / asin / ln / sqrt)
        return [f"{round(0.05 + (j % 17) * 0.05, 2)}", f"{round(0.9 - (j % 17) * 0.05, 2)}"][r]
    if tag == "s":
        return [f"'{j}ab,x Y'", f"'Hello{j} World'"][r]
    if tag == "n":  # strings that read as numbers
        return [f"'{12 + j}'", f"'-{3 + j}'"][r]
    if tag == "ds":  # strings that read as dates / timestamps
        return [f"'2021-03-{10 + j % 18} 01:02:03'", f"'1999-12-{1 + j % 27} 23:59:58'"][r]
    if tag == "js":  # strings that read as JSON
        return [f"'{{\"a\": {j}, \"b\": [1, 2]}}'", f"'{{\"a\": -{j}}}'"][r]
    if tag == "d":
        return [f"DATE '2021-03-{10 + j % 18}'", f"DATE '1999-12-{1 + j % 27}'"][r]
    if tag == "t":
        return [f"TIMESTAMP '2021-03-{10 + j % 18} 01:02:03'", f"TIMESTAMP '1999-12-{1 + j % 27} 23:59:58'"][r]
    if tag == "b":
        return ["true", "false"][(r + j) % 2]
    if tag == "ai":
        return [f"[{j}, {j + 1}, 3]", f"[-{j + 1}]"][r]
    if tag == "as":
        return [f"['a{j}', 'b']", f"['z{j}']"][r]
    if tag == "aa":
        return [f"[[{j}], [{j + 1}, 2]]", f"[[-{j + 1}]]"][r]
    if tag == "m":
        return [f"MAP {{'k{j}': {j}, 'z': 0}}", f"MAP {{'q{j}': -{j}}}"][r]
    if tag == "st":
        return [f"{{'x': {j}, 'y': {j + 1}}}", f"{{'x': -{j}, 'y': 0}}"][r]
    if tag == "bl":
        return [f"'\\x4{j % 10}\\x42'::BLOB", f"'\\x5{j % 10}'::BLOB"][r]
    raise KeyError(tag)


SQLTYPE = {
    "i": "INTEGER", "f": "DOUBLE", "u": "INTEGER", "p": "DOUBLE", "s": "VARCHAR", "n": "VARCHAR", "ds": "VARCHAR", "js": "VARCHAR", "d": "DATE", "t": "TIMESTAMP",
    "b": "BOOLEAN", "ai": "INTEGER[]", "as": "VARCHAR[]", "aa": "INTEGER[][]", "m": "MAP(VARCHAR, INTEGER)",
    "st": "STRUCT(x INTEGER, y INTEGER)", "bl": "BLOB",
}
TAGS = list(SQLTYPE)


class Bench:
    """one DuckDB session with the typed tables, created on demand"""

    def __init__(self) -> None:
        self.session = T.make_session("duckdb")
        self.F = T.functions_module("duckdb")
        self.conn = self.session._conn
        self.frames: t.Dict[t.Tuple[str, str], t.Any] = {}
        self.last_sql = ""
        from sqlframe.base.window import Window

        self.Window = Window

    def frame(self, tt: str, dt: str) -> t.Any:
        key = (tt, dt)
        if key not in self.frames:
            name = f"c16_{tt}_{dt}"
            cols, vals0, vals1 = [], [], []
            for j, c in enumerate(PLAIN_COLUMNS):
                cols.append(f'"{c}" {SQLTYPE[tt]}')
                vals0.append(_v(tt, j, 0))
                vals1.append(_v(tt, j, 1))
            cols.append(f"s STRUCT(x {SQLTYPE[tt]}, y {SQLTYPE[tt]})")
            vals0.append(f"{{'x': {_v(tt, 20, 0)}, 'y': {_v(tt, 21, 0)}}}")
            vals1.append(f"{{'x': {_v(tt, 20, 1)}, 'y': {_v(tt, 21, 1)}}}")
            for j, c in enumerate(DUMMIES):
                cols.append(f"{c} {SQLTYPE[dt]}")
                vals0.append(_v(dt, 30 + j, 0))
                vals1.append(_v(dt, 30 + j, 1))
            self.conn.execute(f"create or replace table {name} ({', '.join(cols)})")
            self.conn.execute(f"insert into {name} values ({', '.join(vals0)}), ({', '.join(vals1)}), ({', '.join('NULL' for _ in vals0)})")
            self.frames[key] = self.session.sql(f"select * from {name}").alias("tq")
        return self.frames[key]

    def run(self, tt: str, dt: str, over: bool, cell: dict, value: t.Any, variant: str) -> t.Tuple[t.List[str], str]:
        """(output column names, canonical text of all rows) of `select f(.., value, ..)`; the statement is kept in
        `self.last_sql`"""
        from sqlframe.base.column import Column

        with warnings.catch_warnings():
            warnings.simplefilter("ignore")
            res = T.call_cell(self.F, cell, value, variant)
            if not isinstance(res, Column):
                raise TypeError("the function does not return a Column")
            if over:
                res = res.over(self.Window.partitionBy(self.F.lit(1)).orderBy(self.F.col("d0")))
            df = self.frame(tt, dt).select(res)
            self.last_sql = df.sql(pretty=False)
            rows = df.collect()
            return list(df.columns), canon_rows(rows)


def canon(v: t.Any) -> t.Any:
    from sqlframe.base.types import Row

    if isinstance(v, Row):
        return {"Row": [[k, canon(x)] for k, x in zip(v.__fields__, v)]} if hasattr(v, "__fields__") else {"Row": [canon(x) for x in v]}
    if isinstance(v, dict):
        return {"dict": sorted(([repr(k), canon(x)] for k, x in v.items()), key=lambda kv: kv[0])}
    if isinstance(v, (list, tuple)):
        return [canon(x) for x in v]
    if isinstance(v, float):
        return "nan" if v != v else repr(v)
    return repr(v)


def canon_rows(rows: t.List[t.Any]) -> str:
    return json.dumps([canon(r) for r in rows], sort_keys=True)


def load_typing() -> t.Dict[str, t.Any]:
    if os.path.exists(TYPING_FILE):
        return json.load(open(TYPING_FILE)).get("typing", {})
    return {}


def key_of(cell: dict, variant: str) -> str:
    return f"{cell['f']}|{cell['pos']}|{cell['sub']}|{variant}"


def candidates(hint: t.Optional[t.List[t.Any]], full: bool) -> t.Iterator[t.Tuple[str, str, bool]]:
    seen = set()

    def emit(c):
        if c not in seen:
            seen.add(c)
            return True
        return False

    if hint:
        c = (hint[0], hint[1], bool(hint[2]))
        if emit(c):
            yield c
    for over in (False, True):
        for tt in TAGS:
            c = (tt, tt, over)
            if emit(c):
                yield c
    if full:
        for over in (False, True):
            for tt in TAGS:
                for dt in TAGS:
                    c = (tt, dt, over)
                    if emit(c):
                        yield c


def find_typing(bench: Bench, cell: dict, variant: str, hint: t.Any, full: bool) -> t.Tuple[t.Optional[t.Tuple[str, str, bool]], int]:
    """a typing under which the Column form with the plain name `x` runs"""
    if hint == "none" and not full:
        return None, 0
    ref = T.reference_cell(cell)
    n = 0
    for tt, dt, over in candidates(hint if isinstance(hint, list) else None, full):
        n += 1
        try:
            bench.run(tt, dt, over, ref, bench.F.col("x"), variant)
            return (tt, dt, over), n
        except Exception:  # noqa
            continue
    return None, n


def exec_cell(bench: Bench, cell: dict, variant: str, typing: t.Tuple[str, str, bool], refs: t.List[str]) -> t.List[dict]:
    """for each reference: both forms executed; one record per reference"""
    tt, dt, over = typing
    F = bench.F
    ref_cell = T.reference_cell(cell)
    out = []
    for name in refs:
        rec: dict = {"f": cell["f"], "e": "duckdb", "pos": cell["pos"], "sub": cell["sub"], "pname": cell["pname"], "variant": variant, "name": name, "typing": [tt, dt, over]}
        try:
            ccols, crows = bench.run(tt, dt, over, ref_cell, F.col(name), variant)
        except Exception as e:  # noqa
            rec["skipped"] = f"Column form does not run: {type(e).__name__}: {str(e).splitlines()[0][:100] if str(e) else ''}"
            out.append(rec)
            continue
        rec["col_columns"], rec["col_rows"] = ccols, crows
        col_sql = bench.last_sql
        forms = [("str", name)] + ([("listcol", F.col(name))] if ref_cell is not cell else [])
        rec["equal"] = True
        for label, value in forms:
            try:
                scols, srows = bench.run(tt, dt, over, cell, value, variant)
                if scols != ccols or srows != crows:
                    if bench.last_sql == col_sql:
                        # the very same statement gave another result: the engine's nondeterminism (the order inside a
                        # collected set, rand, uuid, now), not a difference between the two forms
                        rec["nondeterministic"] = True
                        continue
                    rec["statement_with_col"], rec[f"{label}_statement"] = col_sql, bench.last_sql
                    # a function whose value changes from one execution to the next says nothing about the values
                    c2 = bench.run(tt, dt, over, ref_cell, F.col(name), variant)
                    if c2 != (ccols, crows):
                        rec["nondeterministic"] = True
                        if scols == ccols:
                            continue
                    rec["equal"] = False
                    rec[f"{label}_columns"], rec[f"{label}_rows"] = scols, srows
                    rec.setdefault("differs_in", {})[label] = [w for w, a, b in (("columns", scols, ccols), ("rows", srows, crows)) if a != b]
            except Exception as e:  # noqa
                rec["equal"] = False
                rec[f"{label}_error"] = f"{type(e).__name__}: {str(e).splitlines()[0][:160] if str(e) else ''}"
        out.append(rec)
    return out


def exec_job(arg: t.Tuple[int, int, t.List[str], bool]) -> dict:
    """shard `k` of `n` of the DuckDB cells"""
    k, n, refs, full = arg
    import logging

    logging.disable(logging.WARNING)
    T.install_stubs()
    bench = Bench()
    hints = load_typing()
    recs: t.List[dict] = []
    found: t.Dict[str, t.Any] = {}
    attempts = 0
    cells = [c for c in T.cells_for("duckdb") if c.get("tgt") is not None]
    for idx, cell in enumerate(cells):
        if idx % n != k:
            continue
        for variant in [v for v in T.variants_for(bench.F, cell) if v in ("min", "full")]:
            key = key_of(cell, variant)
            typing, tries = find_typing(bench, cell, variant, hints.get(key), full)
            attempts += tries
            found[key] = list(typing) if typing else "none"
            if typing:
                recs.extend(exec_cell(bench, cell, variant, typing, refs))
    return {"records": recs, "typing": found, "attempts": attempts}


def one(function: str, position: int, sub: int, variant: str, name: str, typing: t.List[t.Any]) -> t.Optional[dict]:
    T.install_stubs()
    bench = Bench()
    for cell in T.cells_for("duckdb"):
        if cell["f"] == function and cell["pos"] == position and cell["sub"] == sub:
            r = exec_cell(bench, cell, variant, (typing[0], typing[1], bool(typing[2])), [name])
            return r[0] if r else None
    return None


def main() -> int:
    """rebuild the typing hints by full search (development aid): c16_exec.py [workers]"""
    import multiprocessing as mp
    import sys

    sys.path.insert(0, os.path.dirname(HERE))
    import vlib  # noqa

    T.install_stubs(vlib.REPO)
    n = int(sys.argv[1]) if len(sys.argv) > 1 else 8
    refs = [u[1] for u in UNUSUAL]
    with mp.get_context("fork").Pool(n) as pool:
        res = pool.map(exec_job, [(k, n, refs, True) for k in range(n)], chunksize=1)
    typing: dict = {}
    recs = []
    for r in res:
        typing.update(r["typing"])
        recs.extend(r["records"])
    with open(TYPING_FILE, "w") as f:
        json.dump({"_doc": "typing hints for tools/props/c16_exec.py: (function|position|element|variant) -> [type of the named column, type of the dummy columns, needs OVER] or 'none'; found by search, re-validated on every run", "typing": dict(sorted(typing.items()))}, f, indent=0)
    ok = sum(1 for v in typing.values() if v != "none")
    print(f"{ok} of {len(typing)} (cell, variant) pairs run; attempts {sum(r['attempts'] for r in res)}; records {len(recs)}", file=sys.stderr)
    bad = [r for r in recs if r.get("equal") is False]
    sk = [r for r in recs if "skipped" in r]
    print(f"failing {len(bad)} skipped {len(sk)}", file=sys.stderr)
    for r in bad[:40]:
        print(json.dumps(r)[:600], file=sys.stderr)
    import collections

    print(collections.Counter(r["name"] for r in sk), file=sys.stderr)
    print(collections.Counter(r["skipped"][:60] for r in sk).most_common(12), file=sys.stderr)
    return 0


if __name__ == "__main__":
    import sys

    sys.exit(main())
