"""
C12 — the same pipeline means the same thing on every supported engine.

proof      : lean/SqlframeModel/Props/C12.lean over Gen/Engines.lean (tools/gen_c12.py): name sanitising (idempotent, safe,
             length preserving, identity off the removed characters — every string), the engine table (execution dialect =
             the engine's own, input = output = spark, exactly its own `_is_<engine>` flag, sanitising exactly where
             documented), the three-dialect plumbing (`_to_sql` input -> execution, result columns execution -> output),
             and names up to case + sanitising for every normalisation-strategy assignment (C12_names / C12_partial).
tie        : every generated definition is compared with the running code: the live Builder defaults / session dialects /
             SANITIZE_COLUMN_NAMES / `_is_<engine>` of every session class (built on stub driver modules), the live
             `_sanitize_column_name` on adversarial strings vs the Lean `sanitize`, sqlglot's live `normalize_identifier`
             vs the modelled strategies, the live `_to_sql` on identifiers vs `stmtIdent`, the live `_collect` on reported
             names vs `collectName`.
VALIDATION (not proof; the main cross-engine claim C12_full_statement is NOT proved): for generated relational-core programs
             (C01 chains, joins, set operations, groupBy, windows) and every engine E:
               (a) df.sql(dialect=E, optimize=False) on a DuckDB session,
               (b) the statements the real engine session class sends through a recording fake DB-API connection,
               (c) df.sql(dialect='duckdb', optimize=False) on the engine session,
             each text must parse in E, re-rendering the parse must be a fixed point, and — read by sqlglot in E, written
             for DuckDB, executed there — it must return the rows / column order / column names (up to letter case and the
             engine's sanitising) of the DuckDB session's collect().  The interpretation of a dialect is sqlglot's, not the
             real engine's.
functions  : c12_fns.py — "forall engine-supported functions from a per-engine table": every function whose body (in the tree under
             test) takes a per-engine decision is called with every argument form its own signature admits (name / Column /
             Python literal / lit() / omitted); engine-native functions DuckDB lacks are read by a table of ASSUMED primitives.
             proof side: Gen/EngineFns.lean (tools/gen_c12_fns.py: symbolic execution of the dispatching bodies) + Impl/C12Fns.lean:
             time-format roles and sqlglot's format rewriting (C12_default_time_format, C12_try_to_timestamp_default,
             C12_format_execution_time for formats of any length), overlay (C12_overlay: every string / position / length / len form,
             NULLs), sequence without a step (C12_sequence_noStep: all integers), regexp_replace (C12_regexp_replace_all).
             tie: the running time helpers on every session (and on sessions with three different dialects) vs the model; the rows
             every engine's overlay / sequence / regexp_replace statement returns vs the model's value for that engine.
"""
from __future__ import annotations

import vlib  # noqa: E402  (first: puts the tree under test first on sys.path)

import datetime
import decimal
import importlib
import json
import os
import random
import sys
import types
import typing as t
import warnings

import c01
import c12_fns as FN
import exprs as X
from vlib import Ctx

ID = "C12"
LEVEL = "proof"
MODULES = ["SqlframeModel.Codec.C12", "SqlframeModel.Props.C12"]
GEN = ["Engines", "EngineFns"]
SOURCES = [
    "SqlframeModel/Props/C12.lean",
    "SqlframeModel/Lemmas/C12.lean",
    "SqlframeModel/Impl/C12Names.lean",
    "SqlframeModel/Impl/C12Round.lean",
    "SqlframeModel/Impl/C12Fns.lean",
    "SqlframeModel/Impl/C12TimeTables.lean",
    "SqlframeModel/Lemmas/C12Fns.lean",
    "SqlframeModel/Lemmas/C12Format.lean",
]

ENGINES = ["bigquery", "snowflake", "postgres", "databricks", "spark", "redshift", "duckdb"]
ALL_PACKAGES = ENGINES + ["standalone"]
MUST_SANITIZE = {"bigquery"}  # the specification (Props/C12.lean `mustSanitize`)
OWN_DIALECT = {e: e for e in ENGINES}
OWN_DIALECT["standalone"] = "spark"

# ------------------------------------------------------------------------------------------------
# stub driver modules + recording fake connections
# ------------------------------------------------------------------------------------------------


class FakeProgrammingError(Exception):
    pass


class StatementRejected(Exception):
    """raised by the fake cursor when a statement fails an obligation (so collect() cannot silently go on)"""


def _mod(name: str, **attrs: t.Any) -> types.ModuleType:
    m = sys.modules.get(name)
    if m is None or not getattr(m, "__c12_stub__", False):
        m = types.ModuleType(name)
        m.__c12_stub__ = True  # type: ignore
        sys.modules[name] = m
    m.__dict__.update(attrs)
    return m


_STUBS = False


def install_stubs() -> None:
    """the driver packages are not installed in this sandbox: minimal stand-ins for what the session modules import"""
    global _STUBS
    if _STUBS:
        return
    _STUBS = True
    import logging

    logging.getLogger("sqlglot").setLevel(logging.ERROR)  # "EXCEPT ALL is not supported" etc. are collected as failures instead

    def missing(name: str) -> bool:
        try:
            return importlib.util.find_spec(name) is None
        except (ImportError, ValueError, AttributeError):
            return True

    if missing("google.cloud.bigquery"):

        class QueryJobConfig:
            def __init__(self, **kw: t.Any):
                self.__dict__.update(kw)
                self.default_dataset = None

        g = _mod("google")
        g.__path__ = []  # type: ignore
        gc = _mod("google.cloud")
        gc.__path__ = []  # type: ignore
        g.cloud = gc  # type: ignore
        bq = _mod("google.cloud.bigquery", QueryJobConfig=QueryJobConfig, SchemaField=type("SchemaField", (), {}))
        bq.__path__ = []  # type: ignore
        gc.bigquery = bq  # type: ignore
        bq.dbapi = _mod("google.cloud.bigquery.dbapi", connect=lambda *a, **k: None)  # type: ignore
    if missing("snowflake.connector"):
        sf = _mod("snowflake")
        sf.__path__ = []  # type: ignore
        sfc = _mod("snowflake.connector")
        sfc.__path__ = []  # type: ignore
        sf.connector = sfc  # type: ignore
        sfc.cursor = _mod("snowflake.connector.cursor", CAN_USE_ARROW_RESULT_FORMAT=True)  # type: ignore

        class SnowflakeConverter:
            def __init__(self, **kw: t.Any):
                pass

        sfc.converter = _mod("snowflake.connector.converter", SnowflakeConverter=SnowflakeConverter)  # type: ignore
    if missing("psycopg2"):
        _mod("psycopg2", ProgrammingError=FakeProgrammingError)
    if missing("databricks.sql"):
        db = _mod("databricks")
        db.__path__ = []  # type: ignore
        db.sql = _mod("databricks.sql", connect=lambda *a, **k: None, ServerOperationError=type("ServerOperationError", (Exception,), {}))  # type: ignore
    if missing("redshift_connector"):
        _mod("redshift_connector")


def reset_singleton() -> None:
    from sqlframe.base.session import _BaseSession

    for cls in list(_BaseSession.__subclasses__()) + [_BaseSession]:
        if "_instance" in cls.__dict__:
            try:
                delattr(cls, "_instance")
            except Exception:
                pass
    _BaseSession._instance = None  # type: ignore


CASE_KEEPING_DIALECTS = ("postgres", "snowflake")  # compared with the live NORMALIZATION_STRATEGY in `exercise`
SETUP_PREFIXES = ("CREATE EXTENSION", "CREATE OR REPLACE FUNCTION pg_temp.")


class Interp:
    """sqlglot's reading of a dialect, executed on DuckDB — the (third-party) executable interpretation of each engine"""

    def __init__(self) -> None:
        import duckdb

        self.duck = duckdb.connect(":memory:")
        self.duck.execute("SET TimeZone='UTC'")

    def run(self, text: str, dialect: str) -> dict:
        import sqlglot
        from sqlglot import exp

        out: dict = {"text": text, "dialect": dialect}
        try:
            tree = sqlglot.parse_one(text, dialect=dialect)
        except Exception as e:  # noqa
            out["fail"] = f"does not parse in {dialect}: {type(e).__name__}: {str(e)[:160]}"
            return out
        try:
            norm = tree.sql(dialect=dialect)
            again = sqlglot.parse_one(norm, dialect=dialect).sql(dialect=dialect)
        except Exception as e:  # noqa
            out["fail"] = f"re-rendering in {dialect} raised {type(e).__name__}: {str(e)[:160]}"
            return out
        # sqlglot's description of the dialect: a construct its generator declares unsupported there (it only warns by default)
        try:
            tree.sql(dialect=dialect, unsupported_level=sqlglot.ErrorLevel.RAISE)
        except sqlglot.errors.UnsupportedError as e:
            out["unsupported"] = f"uses a construct sqlglot's {dialect} generator declares unsupported in {dialect}: {str(e)[:120]}"
        except Exception:  # noqa
            pass
        if norm != again:
            out["fail"] = f"re-rendering the parse is not a fixed point in {dialect}: {norm[:200]!r} vs {again[:200]!r}"
            return out
        out["is_own_normal_form"] = norm == text
        # ASSUMED engine primitives: functions the engine runs natively and DuckDB does not have are read by their documented
        # definition (c12_fns.apply_prims; Impl/C12Fns.lean)
        prims: t.List[str] = []
        try:
            tree = FN.apply_prims(tree, dialect, prims)
        except Exception as e:  # noqa
            out["fail"] = f"cannot apply the assumed engine primitives to the {dialect} text: {type(e).__name__}: {str(e)[:160]}"
            out["oracle"] = True
            return out
        if prims:
            out["prims"] = prims
        # every column reference must resolve under the dialect's OWN identifier rules.  DuckDB (the executor below) folds
        # quoted names too, so a reference spelled differently from its quoted definition would go unnoticed there; for the
        # dialects that keep quoted identifiers as written (sqlglot strategy LOWERCASE / UPPERCASE: Postgres, Snowflake)
        # sqlglot's qualifier is run under that dialect.
        qualified = None
        if dialect in CASE_KEEPING_DIALECTS:
            try:
                from sqlglot.optimizer.qualify import qualify

                qualified = qualify(tree.copy(), dialect=dialect, validate_qualify_columns=True, quote_identifiers=False)
            except Exception as e:  # noqa  (sqlglot.errors.OptimizeError)
                out["fail"] = f"a column reference does not resolve under {dialect}'s identifier rules (quoted identifiers keep their spelling there): {type(e).__name__}: {str(e)[:160]}"
                return out
        # oracle adaptation: Redshift's VARCHAR(MAX) is an unbounded string; sqlglot writes it as TEXT(MAX) for DuckDB, which
        # DuckDB cannot read.  The *meaning* (unbounded text) is kept by dropping the modifier.
        back_tree = tree.copy()
        for dt in back_tree.find_all(exp.DataType):
            if any(isinstance(p, exp.DataTypeParam) and p.name.upper() == "MAX" for p in dt.expressions):
                dt.set("expressions", None)
        # ASSUMED engine primitives (Impl/C12Names.lean `primRound`): Postgres' round(double precision) rounds ties to even,
        # round(numeric) away from zero, and round(double precision, integer) does not exist; the other engines' ROUND is
        # half away from zero like DuckDB's.
        if dialect == "postgres" and any(True for _ in tree.find_all(exp.Round)):
            try:
                from sqlglot.optimizer.annotate_types import annotate_types
                from sqlglot.optimizer.qualify import qualify

                typed = annotate_types(qualified.copy() if qualified is not None else qualify(tree.copy(), dialect=dialect, quote_identifiers=False), dialect=dialect)
                for dt in typed.find_all(exp.DataType):
                    if any(isinstance(p, exp.DataTypeParam) and p.name.upper() == "MAX" for p in dt.expressions):
                        dt.set("expressions", None)
                for node in list(typed.find_all(exp.Round)):
                    if node.this.is_type(exp.DataType.Type.DOUBLE, exp.DataType.Type.FLOAT):
                        if node.args.get("decimals") is None:
                            node.replace(exp.Anonymous(this="ROUND_EVEN", expressions=[node.this.copy(), exp.Literal.number(0)]))
                        else:
                            out["fail"] = "Postgres has no round(double precision, integer): the operand of a ROUND with a scale must be NUMERIC"
                            return out
                back_tree = typed
                out["postgres_round_primitives"] = True
            except Exception as e:  # noqa
                out["fail"] = f"cannot type the postgres text to apply Postgres' round() primitives: {type(e).__name__}: {str(e)[:160]}"
                out["oracle"] = True
                return out
        try:
            back = back_tree.sql(dialect="duckdb")
        except Exception as e:  # noqa
            out["fail"] = f"sqlglot cannot write the {dialect} parse for DuckDB: {type(e).__name__}: {str(e)[:160]}"
            out["oracle"] = True
            return out
        out["back"] = back
        try:
            cur = self.duck.execute(back)
            out["description"] = list(cur.description or [])
            out["cols"] = [d[0] for d in out["description"]]
            out["raw_rows"] = cur.fetchall()
        except Exception as e:  # noqa
            out["fail"] = f"DuckDB rejects sqlglot's DuckDB rendering of the {dialect} text: {type(e).__name__}: {str(e)[:200]}"
            out["oracle"] = True
        return out


class FakeCursor:
    def __init__(self, conn: "FakeConn"):
        self.conn = conn
        self.description: t.Optional[list] = None
        self._rows: list = []
        self.sfqid = "0"

    def execute(self, sql: str, *a: t.Any, **k: t.Any) -> "FakeCursor":
        self.conn.log.append(sql)
        if sql.startswith(SETUP_PREFIXES):
            self.conn.setup.append(sql)
            return self
        if self.conn.canned is not None:
            self.description, self._rows = self.conn.canned
            return self
        r = self.conn.interp.run(sql, self.conn.dialect)
        self.conn.results.append(r)
        if "fail" in r:
            raise StatementRejected(r["fail"])
        self.description, self._rows = r["description"], r["raw_rows"]
        return self

    def fetchall(self) -> list:
        return self._rows


class _Client:
    default_query_job_config = None
    project = "p"


class FakeConn:
    """DB-API connection that records the statements and answers them through `Interp`"""

    def __init__(self, dialect: str):
        self.dialect = dialect
        self.interp = Interp()
        self.log: t.List[str] = []
        self.setup: t.List[str] = []
        self.results: t.List[dict] = []
        self.canned: t.Optional[t.Tuple[list, list]] = None
        self._client = _Client()
        self.converter = None
        self._numpy = False
        self._support_negative_year = False

    def cursor(self) -> FakeCursor:
        return FakeCursor(self)

    # the PySpark session interface (SparkSession._execute / _collect)
    def sql(self, text: str) -> "FakeSparkDF":
        cur = FakeCursor(self).execute(text)
        return FakeSparkDF(cur)


class FakeSparkRow:
    def __init__(self, names: t.List[str], values: tuple):
        self._d = dict(zip(names, values))

    def asDict(self) -> dict:
        return dict(self._d)


class FakeSparkDF:
    def __init__(self, cur: FakeCursor):
        self.cur = cur

    def collect(self) -> list:
        names = [d[0] for d in (self.cur.description or [])]
        return [FakeSparkRow(names, r) for r in self.cur._rows]


SESSION_CLASS = {
    "bigquery": "BigQuerySession",
    "snowflake": "SnowflakeSession",
    "postgres": "PostgresSession",
    "databricks": "DatabricksSession",
    "spark": "SparkSession",
    "redshift": "RedshiftSession",
    "duckdb": "DuckDBSession",
    "standalone": "StandaloneSession",
}


def session_class(engine: str, cls_name: t.Optional[str] = None) -> t.Any:
    install_stubs()
    with warnings.catch_warnings():
        warnings.simplefilter("ignore")
        m = importlib.import_module(f"sqlframe.{engine}.session")
    return getattr(m, cls_name or SESSION_CLASS[engine])


def make_session(engine: str, cls_name: t.Optional[str] = None) -> t.Tuple[t.Any, t.Any]:
    """(session, connection) — a fresh instance of the engine's real session class on a fake connection"""
    cls = session_class(engine, cls_name)
    reset_singleton()
    with warnings.catch_warnings():
        warnings.simplefilter("ignore")
        if engine == "duckdb":
            import duckdb

            conn = duckdb.connect(":memory:")
            conn.execute("SET TimeZone='UTC'")
            return cls(conn=conn), conn
        if engine == "standalone":
            return cls(), None
        conn = FakeConn(engine)
        return cls(conn=conn), conn


def engine_api(engine: str) -> t.Tuple[t.Any, t.Any]:
    with warnings.catch_warnings():
        warnings.simplefilter("ignore")
        F = importlib.import_module(f"sqlframe.{engine}.functions")
        W = importlib.import_module(f"sqlframe.{engine}.window").Window
    return F, W


# ------------------------------------------------------------------------------------------------
# programs
# ------------------------------------------------------------------------------------------------

JOIN_HOWS = ["inner", "left", "right", "full", "left_semi", "left_anti", "cross"]
SETOPS = ["union", "unionAll", "intersect", "exceptAll", "unionByName", "intersectAll"]
AGGS = ["sum", "min", "max", "count", "avg"]
WINFNS = ["row_number", "rank", "dense_rank", "sum", "min", "lag"]

INT_POOL = [None, 0, 1, 2, 3, -1, 5]


def _kv_table(rng: random.Random, second: str) -> t.List[t.List[t.Any]]:
    n = rng.choice([0, 1, 2, 3, 4, 5])
    rows: t.List[t.List[t.Any]] = []
    for _ in range(n):
        if rows and rng.random() < 0.25:
            rows.append(list(rng.choice(rows)))
        else:
            rows.append([rng.choice([None, 1, 2, 2, 3]), rng.choice(INT_POOL)])
    return rows


SOURCE_NAME_POOL = ["Order Id", "Amt", "an tan", "Unit-Price", "k", "QTY", "my Col", "X", "Total Amount", "a b C"]
ROUND_TIES = [0.5, 1.5, 2.5, -2.5, 2.4, 4.5, -0.5, 3.0, None, 6.5, -1.5]
ROUND_SCALED = [0.25, 0.75, 1.25, -0.25, 2.4, None, 0.125, 3.0]


ALIAS_POOL = ["MyCol", "my col", "ABC", "a_b", "X1", "select", "Order", "K2", "ünï", "1x", "q", "Total Amount"]  # no dots (col("a.b") is a qualified reference), no parentheses (user-chosen names are the user's)


def gen_extra(rng: random.Random) -> dict:
    fam = rng.choice(["join", "join", "setop", "group", "group", "window", "alias", "srcnames", "fn"])
    a = _kv_table(rng, "v")
    b = _kv_table(rng, "w")
    if fam == "srcnames":
        n1, n2 = rng.sample(SOURCE_NAME_POOL, 2)
        rows = [[rng.choice([1, 2, 3]), rng.choice([0, 5, 10, 20])] for _ in range(rng.randint(1, 4))]
        return {"fam": "srcnames", "names": [n1, n2], "rows": rows, "then": rng.choice(["plain", "filter", "sorted", "sorted", "full", "group"])}
    if fam == "fn":
        scale = rng.choice([None, None, 0, 1])
        pool = ROUND_TIES if not scale else ROUND_SCALED
        return {"fam": "fn", "fn": "round", "scale": scale, "xs": rng.sample(pool, rng.randint(2, 6)), "arg": rng.choice(["name", "col"])}
    if fam == "alias":
        n1, n2 = rng.sample(ALIAS_POOL, 2)
        return {"fam": "alias", "a": a, "names": [n1, n2], "then": rng.choice([None, "where", "distinct", "group"])}
    if fam == "join":
        how = rng.choice(JOIN_HOWS)
        return {"fam": "join", "a": a, "b": b, "how": how, "on": "name" if how != "cross" and rng.random() < 0.5 else ("expr" if how != "cross" else "none"), "where": rng.random() < 0.3}
    if fam == "setop":
        return {"fam": "setop", "a": a, "b": b, "op": rng.choice(SETOPS), "distinct_after": rng.random() < 0.2}
    if fam == "group":
        fns = rng.sample(AGGS, rng.randint(1, 3))
        return {"fam": "group", "a": a or [[1, 2]], "keys": rng.choice([["k"], [], ["k", "v"]]), "fns": fns, "style": rng.choice(["shortcut", "agg", "alias", "dict"]), "having": rng.random() < 0.25}
    return {"fam": "window", "a": a or [[1, 2]], "fn": rng.choice(WINFNS), "part": rng.random() < 0.7, "desc": rng.random() < 0.4, "frame": rng.choice([None, "rows"])}


FIXED_EXTRA: t.List[dict] = [
    {"fam": "group", "a": [[1, 2], [1, 3], [None, 5], [2, None]], "keys": ["k"], "fns": ["sum", "count"], "style": "shortcut", "having": False},
    {"fam": "group", "a": [[1, 2], [1, 3], [None, 5]], "keys": [], "fns": ["max", "avg"], "style": "dict", "having": False},
    {"fam": "join", "a": [[1, 10], [2, 20], [None, 5]], "b": [[2, 7], [3, 8], [None, 9]], "how": "full", "on": "name", "where": False},
    {"fam": "join", "a": [[1, 10], [2, 20]], "b": [[2, 7], [2, 8]], "how": "left_anti", "on": "expr", "where": False},
    {"fam": "setop", "a": [[1, 1], [1, 1], [2, 0]], "b": [[1, 1], [3, 3]], "op": "exceptAll", "distinct_after": False},
    {"fam": "window", "a": [[1, 3], [1, None], [2, 5], [1, 3]], "fn": "rank", "part": True, "desc": False, "frame": None},
    {"fam": "window", "a": [[1, 3], [1, 1], [2, 5], [1, 2]], "fn": "sum", "part": True, "desc": True, "frame": "rows"},
    {"fam": "alias", "a": [[1, 2], [None, 3], [1, 2]], "names": ["MyCol", "Total Amount"], "then": "where"},
    {"fam": "alias", "a": [[1, 2], [None, 3], [2, 0]], "names": ["select", "1x"], "then": "group"},
    {"fam": "srcnames", "names": ["Order Id", "Amt"], "rows": [[1, 10], [2, 20]], "then": "sorted"},
    {"fam": "srcnames", "names": ["Order Id", "Amt"], "rows": [[1, 10], [2, 20]], "then": "full"},
    {"fam": "srcnames", "names": ["my Col", "QTY"], "rows": [[1, 10], [1, 0], [2, 5]], "then": "group"},
    {"fam": "fn", "fn": "round", "scale": None, "xs": [0.5, 1.5, 2.5, -2.5, 2.4, 4.5], "arg": "name"},
    {"fam": "fn", "fn": "round", "scale": 1, "xs": [0.25, 0.75, -0.25, 2.4, None], "arg": "col"},
    {"fam": "fn", "fn": "round", "scale": 0, "xs": [0.5, 2.5, -2.5], "arg": "col"},
]


def _df2(session: t.Any, rows: t.List[t.List[t.Any]], second: str) -> t.Any:
    return X.make_df(session, {"k": "int", second: "int"}, rows)


def build(p: dict, session: t.Any, F: t.Any, W: t.Any) -> t.Any:
    fam = p["fam"]
    if fam == "fncall":
        return FN.build(p, session, F)
    if fam == "chain":
        df = X.make_df(session, p["schema"], p["rows"])
        for s in p["steps"]:
            df = c01.apply_step(df, s, F)
        return df
    if fam == "join":
        A, B = _df2(session, p["a"], "v"), _df2(session, p["b"], "w")
        how = p["how"]
        if how == "cross":
            j = A.crossJoin(B.select(F.col("k").alias("k2"), "w"))
            out = j.select("k", "v", "k2", "w")
        elif p["on"] == "name":
            j = A.join(B, on="k", how=how)
            out = j.select("k", "v") if how in ("left_semi", "left_anti") else j.select("k", "v", "w")
        else:
            B2 = B.select(F.col("k").alias("k2"), "w")
            j = A.join(B2, on=A["k"] == B2["k2"], how=how)
            out = j.select("k", "v") if how in ("left_semi", "left_anti") else j.select("k", "v", "k2", "w")
        if p.get("where"):
            out = out.where(F.col("v") > F.lit(0))
        return out
    if fam == "setop":
        A, B = _df2(session, p["a"], "v"), _df2(session, p["b"], "v")
        op = p["op"]
        out = getattr(A, op)(B)
        if p.get("distinct_after"):
            out = out.distinct()
        return out
    if fam == "group":
        A = _df2(session, p["a"], "v")
        g = A.groupBy(*p["keys"])
        target = "v" if "v" not in p["keys"] else "k"
        st = p["style"]
        if st == "shortcut":
            fn = p["fns"][0]
            out = g.count() if fn == "count" else getattr(g, fn)(target)
        elif st == "dict":
            out = g.agg({target: p["fns"][0]})
        elif st == "alias":
            out = g.agg(*[getattr(F, fn)(F.col(target)).alias(f"{fn}_{target}") for fn in p["fns"]])
        else:
            out = g.agg(*[getattr(F, fn)(F.col(target)) for fn in p["fns"]])
        if p.get("having") and st == "alias":
            first = f"{p['fns'][0]}_{target}"
            out = out.where(F.col(first).isNotNull())
        return out
    if fam == "srcnames":
        # createDataFrame column names that need quoting and/or carry upper case, referred to by name afterwards
        n1, n2 = p["names"]
        df = session.createDataFrame([tuple(r) for r in p["rows"]], [n1, n2])
        th = p["then"]
        if th == "plain":
            return df.select(n1, n2)
        if th == "filter":
            return df.filter(F.col(n2) >= F.lit(5)).select(n1)
        if th == "group":
            return df.groupBy(n1).agg(F.max(F.col(n2)).alias("m"))
        if th == "sorted":
            return df.filter(F.col(n2) > F.lit(1)).select(n1, (F.col(n2) * F.lit(2)).alias("Dbl " + n2)).orderBy(n1)
        return df.filter(F.col(n2) > F.lit(1)).select(n1, (F.col(n2) * F.lit(2)).alias("Dbl " + n2)).orderBy(n1, "Dbl " + n2)
    if fam == "fn":
        # an engine-supported function where sqlframe's own per-engine decision matters
        df = session.createDataFrame([(i, x) for i, x in enumerate(p["xs"])], schema="id bigint, x double")
        arg = "x" if p["arg"] == "name" else F.col("x")
        c = F.round(arg) if p["scale"] is None else F.round(arg, p["scale"])
        return df.select("id", c.alias("r"))
    if fam == "alias":
        A = _df2(session, p["a"], "v")
        n1, n2 = p["names"]
        out = A.select(F.col("k").alias(n1), (F.col("v") + F.lit(1)).alias(n2))
        if p["then"] == "where":
            out = out.where(F.col(n2) > F.lit(1))
        elif p["then"] == "distinct":
            out = out.distinct()
        elif p["then"] == "group":
            out = out.groupBy(n1).agg(F.max(F.col(n2)).alias(n2))
        return out
    if fam == "window":
        A = _df2(session, p["a"], "v")
        order = F.col("v").desc_nulls_last() if p["desc"] else F.col("v").asc_nulls_first()
        w = W.partitionBy("k").orderBy(order, F.col("k").asc_nulls_first()) if p["part"] else W.orderBy(order, F.col("k").asc_nulls_first())
        fn = p["fn"]
        if fn in ("row_number", "rank", "dense_rank"):
            c = getattr(F, fn)().over(w)
            if fn == "row_number":  # ties: make the numbering determinate
                return A.distinct().select("k", "v", c.alias("r"))
        elif fn == "lag":
            return A.distinct().select("k", "v", F.lag(F.col("v"), 1).over(w).alias("r"))
        else:
            if p["frame"] == "rows":
                return A.distinct().select("k", "v", getattr(F, fn)(F.col("v")).over(w.rowsBetween(W.unboundedPreceding, W.currentRow)).alias("r"))
            c = getattr(F, fn)(F.col("v")).over(w)
        return A.select("k", "v", c.alias("r"))
    raise ValueError(fam)


def show_prog(p: dict) -> str:
    fam = p["fam"]
    if fam == "fncall":
        return FN.show(p)
    if fam == "chain":
        return c01.show_case(p)
    if fam == "join":
        return f"A[k,v]{p['a']}.join(B[k,w]{p['b']}, on={p['on']}, how={p['how']!r}){'.where(v>0)' if p.get('where') else ''}"
    if fam == "setop":
        return f"A[k,v]{p['a']}.{p['op']}(B[k,v]{p['b']}){'.distinct()' if p.get('distinct_after') else ''}"
    if fam == "group":
        return f"A[k,v]{p['a']}.groupBy({p['keys']}).{p['style']}({p['fns']}){'.where(notnull)' if p.get('having') else ''}"
    if fam == "srcnames":
        return f"createDataFrame({p['rows']}, {p['names']}).{p['then']}(..)"
    if fam == "fn":
        return f"createDataFrame(enumerate({p['xs']}), 'id bigint, x double').select(id, round({'x' if p['arg'] == 'name' else 'col(x)'}{'' if p['scale'] is None else ', ' + str(p['scale'])}).alias('r'))"
    if fam == "alias":
        return f"A[k,v]{p['a']}.select(k.alias({p['names'][0]!r}), (v+1).alias({p['names'][1]!r})){'.' + p['then'] + '(..)' if p['then'] else ''}"
    return f"A[k,v]{p['a']}.select(k, v, {p['fn']}().over({'partitionBy(k).' if p['part'] else ''}orderBy(v {'desc' if p['desc'] else 'asc'}, k){', ' + p['frame'] if p['frame'] else ''}))"


def ordered(p: dict) -> bool:
    return p["fam"] == "chain" and c01.order_checked(p)


def gen_programs(ctx: Ctx) -> t.List[dict]:
    progs: t.List[dict] = []
    cdir = os.path.join(vlib.VERIF, "corpus", ID)
    if os.path.isdir(cdir):
        for fn in sorted(os.listdir(cdir)):
            if fn.endswith(".json"):
                p = json.load(open(os.path.join(cdir, fn)))
                p["origin"] = "corpus:" + fn
                progs.append(p)
    for p in FIXED_EXTRA:
        progs.append(dict(p, origin="fixed"))
    n_chain, n_extra = (600, 400) if ctx.thorough else (70, 50)
    tries = 0
    got = 0
    while got < n_chain and tries < n_chain * 10:
        tries += 1
        L = ctx.rng.randint(1, 6)
        c = c01.gen_program(ctx.rng, [ctx.rng.choice(c01.KINDS) for _ in range(L)])
        if c and c01.valid(c) and not c01.has_risky_limit(c):
            c["fam"] = "chain"
            c["origin"] = "random-chain"
            progs.append(c)
            got += 1
    for _ in range(n_extra):
        progs.append(dict(gen_extra(ctx.rng), origin="random-extra"))
    # the function stream (c12_fns): engine-specific function renderings x argument forms
    try:
        with warnings.catch_warnings():
            warnings.simplefilter("ignore")
            BF = importlib.import_module("sqlframe.base.functions")
        try:
            import gen_c12_fns

            branchy: t.Optional[t.Set[str]] = {f for f, _ in gen_c12_fns.fn_flags(vlib.REPO)}
        except Exception as e:  # noqa: the source does not parse: `prove` has recorded it
            branchy = None
            vlib.log(f"C12: engine-specific functions not read from the source ({e}); using the marked recipes only")
        fcases, problems, fstats = FN.gen_cases(ctx.rng, BF, ctx.thorough, branchy)
    except Exception as e:  # noqa
        fcases, problems, fstats = [], [f"function stream: cannot enumerate the cases: {type(e).__name__}: {str(e)[:200]}"], {}
    for pb in problems:
        ctx.broken.append(pb)
    ctx.cov["function_stream"] = fstats
    for c in fcases:
        progs.append(dict(c, origin="fncall"))
    return progs


# ------------------------------------------------------------------------------------------------
# comparison
# ------------------------------------------------------------------------------------------------


def canon_value(v: t.Any) -> t.Any:
    if v is None or isinstance(v, (bool, str)):
        return v
    if isinstance(v, int):
        return v
    if isinstance(v, decimal.Decimal):
        v = float(v)
    if isinstance(v, float):
        if v != v:
            return "NaN"
        if v in (float("inf"), float("-inf")):
            return repr(v)
        if v == int(v) and abs(v) < 1e15:
            return int(v)
        return float(f"{v:.9g}")  # stated tolerance: 9 significant digits
    if isinstance(v, datetime.datetime):
        # an instant: zone-aware values are brought to UTC (every session of the stream runs in UTC), then compared as wall-clock text
        if v.tzinfo is not None:
            v = v.astimezone(datetime.timezone.utc).replace(tzinfo=None)
        return "T:" + v.strftime("%Y-%m-%d %H:%M:%S.%f")
    if isinstance(v, datetime.date):
        return "D:" + v.isoformat()
    if isinstance(v, (bytes, bytearray)):
        return "B:" + bytes(v).hex()
    if isinstance(v, (list, tuple)):
        return [canon_value(x) for x in v]
    return repr(v)


def canon_rows(rows: t.Iterable[t.Iterable[t.Any]]) -> t.List[t.List[t.Any]]:
    return [[canon_value(v) for v in r] for r in rows]


_REPS: t.List[t.Tuple[str, str]] = [("(", "_"), (")", "_")]  # replaced by the generated chain in run()


def load_chain(ctx: t.Optional[Ctx] = None) -> None:
    """the generated replacement chain (the same extraction Gen/Engines.lean is written from)"""
    global _REPS
    try:
        import gen_c12

        _REPS = [(a, b) for a, b in gen_c12.extract(vlib.REPO)["replacements"]]
    except Exception as e:  # noqa: untranslatable source: `prove` has recorded the broken obligation; keep the documented chain
        if ctx is not None:
            vlib.log(f"C12: replacement chain not extracted ({e}); comparing names with the documented chain")


def py_sanitize(name: str) -> str:
    for a, b in _REPS:
        name = name.replace(a, b)
    return name


def name_equiv(san: bool, engine_name: str, duck_name: str) -> bool:
    """Props/C12.lean `NameEquiv`"""
    return engine_name.lower() == (py_sanitize(duck_name) if san else duck_name).lower()


def compare(ref: dict, cols: t.List[str], rows: t.List[t.List[t.Any]], san: bool, is_ordered: bool, tag: str, full: bool = False) -> t.List[str]:
    fails = []
    if len(cols) != len(ref["cols"]) or not all(name_equiv(san, c, d) for c, d in zip(cols, ref["cols"])):
        fails.append(f"[{tag}] column names {cols} differ from the DuckDB session's {ref['cols']} (beyond letter case{' and sanitising' if san else ''})")
    if san and any(a in c for c in cols for a, _ in _REPS):
        fails.append(f"[{tag}] column names {cols} carry characters the engine cannot carry")
    if (rows != ref["rows"]) if is_ordered else (vlib.bag(rows) != vlib.bag(ref["rows"])):
        # (function cases carry both results in full, machine-readable, for the row-wise rules of the open findings)
        blob = FN.BLOB + json.dumps({"rows": rows, "ref": ref["rows"]}, default=str) if full else ""
        fails.append(f"[{tag}] rows differ from the DuckDB session's: {rows[:6]} vs {ref['rows'][:6]}{blob}")
    return fails


# ------------------------------------------------------------------------------------------------
# running one engine over a list of programs (the session class is a process-wide singleton)
# ------------------------------------------------------------------------------------------------


def reference(progs: t.List[dict]) -> t.List[dict]:
    """the DuckDB session's collect(), plus (a): df.sql(dialect=E) for every engine, interpreted"""
    s, _ = make_session("duckdb")
    F, W = engine_api("duckdb")
    interp = Interp()
    out = []
    for p in progs:
        try:
            df = build(p, s, F, W)
            rows = df.collect()
            ref = {"cols": list(rows[0].__fields__) if rows else list(df.columns), "rows": canon_rows(rows), "df_columns": list(df.columns)}
        except Exception as e:  # noqa: DuckDB is one of the engines: its own statement must be valid, and it is the reference
            msg = f"{type(e).__name__}: {str(e)[:160]}"
            out.append({"skip": msg, "fails": [f"[duckdb-session.collect()] raised {msg}"]})
            continue
        fails: t.List[str] = []
        texts: t.Dict[str, str] = {}
        nf = 0
        # function calls: a session's per-engine function decisions are taken when the Column is built, so df.sql(dialect=X) for
        # another engine X keeps them (open finding H_sqlDialectKeepsSessionFunctions); the function stream therefore reads a
        # session's text only in the session's own dialect
        for e in ENGINES if p["fam"] != "fncall" else ["duckdb"]:
            tag = f"duckdb-session.sql(dialect={e})"
            try:
                text = df.sql(dialect=e, optimize=False)
            except Exception as ex:  # noqa
                fails.append(f"[{tag}] sql() raised {type(ex).__name__}: {str(ex)[:160]}")
                continue
            texts[e] = text
            r = interp.run(text, e)
            if "unsupported" in r:
                fails.append(f"[{tag}] {r['unsupported']}")
            if "fail" in r:
                fails.append(f"[{tag}] {r['fail']}")
                continue
            nf += 1
            fails += compare(ref, r["cols"], canon_rows(r["raw_rows"]), False, ordered(p), tag)
        out.append({"ref": ref, "fails": fails, "texts": texts, "renderings": nf})
    return out


def run_engine(args: t.Tuple[str, t.List[dict], t.List[dict]]) -> t.List[dict]:
    """(b) the engine session's collect() through the recording connection, (c) its df.sql(dialect='duckdb')"""
    engine, progs, refs = args
    s, conn = make_session(engine)
    F, W = engine_api(engine)
    san = engine in MUST_SANITIZE
    interp = Interp()
    out = []
    for p, rf in zip(progs, refs):
        if "skip" in rf:
            out.append({"skip": True})
            continue
        ref = rf["ref"]
        fails: t.List[str] = []
        sent: t.List[str] = []
        if p["fam"] == "fncall" and (not hasattr(F, p["fn"]) or (p["fn"], engine) in FN.SKIP):
            # declared unsupported on this engine (`unsupported_engines`), or a pair the oracle cannot read (FN.SKIP)
            out.append({"skip": True})
            continue
        tag = f"{engine}-session.collect()"
        crows: t.Optional[list] = None
        n0 = len(conn.log)
        r0 = len(conn.results)
        try:
            df = build(p, s, F, W)
        except Exception as e:  # noqa
            out.append({"fails": [f"[{engine}-session] building the pipeline raised {type(e).__name__}: {str(e)[:200]}"], "sent": []})
            continue
        try:
            rows = df.collect()
            sent = conn.log[n0:]
            cols = list(rows[0].__fields__) if rows else [d[0] for d in (conn.results[-1].get("description") or [])]
            crows = canon_rows(rows)
            fails += compare(ref, cols, crows, san, ordered(p), tag, full=p["fam"] == "fncall")
        except StatementRejected as e:
            sent = conn.log[n0:]
            fails.append(f"[{tag}] {e}")
        except Exception as e:  # noqa
            sent = conn.log[n0:]
            fails.append(f"[{tag}] raised {type(e).__name__}: {str(e)[:200]}")
        for x in conn.results[r0:]:
            if "unsupported" in x:
                fails.append(f"[{tag}] {x['unsupported']}")
        # (c)
        tag = f"{engine}-session.sql(dialect=duckdb)"
        if p["fam"] == "fncall":
            out.append({"fails": fails, "sent": sent, "own_nf": [x.get("is_own_normal_form") for x in conn.results[-1:]], "rows": crows})
            continue
        try:
            text = df.sql(dialect="duckdb", optimize=False)
            r = interp.run(text, "duckdb")
            if "fail" in r:
                fails.append(f"[{tag}] {r['fail']}")
            else:
                fails += compare(ref, r["cols"], canon_rows(r["raw_rows"]), san, ordered(p), tag)
        except Exception as e:  # noqa
            fails.append(f"[{tag}] raised {type(e).__name__}: {str(e)[:200]}")
        out.append({"fails": fails, "sent": sent, "own_nf": [x.get("is_own_normal_form") for x in conn.results[-1:]]})
    return out


def run_chunk(progs: t.List[dict]) -> t.List[dict]:
    """one worker task: the reference and every engine for a few programs.  (DuckDB must not be touched in the parent
    before the workers are forked: a forked child of a process with live DuckDB threads deadlocks.)"""
    warnings.simplefilter("ignore")
    refs = reference(progs)
    out = [{"ref": rf, "fails": list(rf.get("fails", [])), "sent": {}, "own_nf": 0} for rf in refs]
    for e in ENGINES:
        if e == "duckdb":
            continue
        for o, r in zip(out, run_engine((e, progs, refs))):
            if r.get("skip"):
                continue
            o["fails"] += r["fails"]
            o["sent"][e] = r["sent"]
            if r.get("rows") is not None:
                o.setdefault("rows", {})[e] = r["rows"]
            o["own_nf"] += sum(1 for x in r.get("own_nf", []) if x)
    reset_singleton()
    return out


def run_spark_live(progs: t.List[dict], refs: t.List[dict]) -> t.Tuple[t.List[t.List[str]], str]:
    """thorough tier: the real sqlframe SparkSession on a live PySpark JVM (the one engine besides DuckDB that is reachable) —
    the statements are executed by Spark itself, not by sqlglot's reading of the Spark dialect"""
    os.environ.setdefault("PYSPARK_PYTHON", sys.executable)
    out: t.List[t.List[str]] = [[] for _ in progs]
    try:
        from pyspark.sql import SparkSession as PySparkSession

        ps = PySparkSession.builder.master("local[1]").config("spark.ui.enabled", "false").config("spark.sql.shuffle.partitions", "1").getOrCreate()
        ps.sparkContext.setLogLevel("ERROR")
    except Exception as e:  # noqa
        return out, f"unavailable: {type(e).__name__}: {str(e)[:120]}"
    try:
        reset_singleton()
        s = session_class("spark")(conn=ps)
        F, W = engine_api("spark")
        n = 0
        for i, (p, rf) in enumerate(zip(progs, refs)):
            if "skip" in rf:
                continue
            tag = "spark-jvm-session.collect()"
            try:
                rows = build(p, s, F, W).collect()
                cols = list(rows[0].__fields__) if rows else rf["ref"]["cols"]
                out[i] = compare(rf["ref"], cols, canon_rows(rows), False, ordered(p), tag)
            except Exception as e:  # noqa
                out[i] = [f"[{tag}] raised {type(e).__name__}: {str(e)[:200]}"]
            n += 1
        return out, f"ok: {n} programs executed on PySpark {ps.version}"
    finally:
        try:
            ps.stop()
        except Exception:  # noqa
            pass
        reset_singleton()


def run_one(p: dict, engines: t.Optional[t.List[str]] = None) -> t.Dict[str, t.Any]:
    """everything for one program (used by shrinking and replay)"""
    rf = reference([p])[0]
    if "skip" in rf:
        return {"skip": rf["skip"], "fails": list(rf["fails"]), "sent": {}, "texts": {}}
    fails = list(rf["fails"])
    sent: t.Dict[str, t.List[str]] = {}
    for e in engines or [x for x in ENGINES if x != "duckdb"]:
        r = run_engine((e, [p], [rf]))[0]
        fails += r.get("fails", [])
        sent[e] = r.get("sent", [])
    return {"fails": fails, "ref": rf["ref"], "texts": rf["texts"], "sent": sent}


# ------------------------------------------------------------------------------------------------
# known findings (third party: sqlglot's generators / parsers) — by engine, failure text and program shape
# ------------------------------------------------------------------------------------------------


def load_known() -> t.Dict[str, dict]:
    known = {e["id"]: e for e in vlib.known_findings(ID)}
    path = os.path.join(os.path.dirname(os.path.abspath(__file__)), "c12.known.json")
    if os.path.exists(path):
        for e in json.load(open(path)):
            if e.get("property") == ID and e.get("status") == "open":
                known.setdefault(e["id"], e)
    return known


def shape_rules() -> t.Dict[str, t.Callable[[dict, str], bool]]:
    """id -> predicate(program, failure line).  A failure is a known finding only if a rule names it exactly."""


    def setop_all(p: dict, f: str) -> bool:
        # DataFrame.exceptAll / intersectAll on an engine whose dialect (per sqlglot's generator) has no EXCEPT ALL / INTERSECT ALL
        return (
            p.get("fam") == "setop"
            and p.get("op") in ("exceptAll", "intersectAll")
            and "declares unsupported" in f
            and (("EXCEPT ALL is not supported" in f and p["op"] == "exceptAll") or ("INTERSECT ALL is not supported" in f and p["op"] == "intersectAll"))
            and any(f.startswith(f"[{e}-session.collect()]") or f.startswith(f"[duckdb-session.sql(dialect={e})]") for e in ("bigquery", "snowflake", "redshift"))
        )

    def order_keys_and_defs(p: dict) -> t.Tuple[t.Set[str], t.Set[str]]:
        """(names used as bare orderBy keys, names some step defines as a select alias) — display spelling"""
        keys: t.Set[str] = set()
        defs: t.Set[str] = set()
        fam = p.get("fam")
        if fam == "chain":
            for st in p["steps"]:
                k = st["k"]
                if k == "orderBy":
                    keys |= {x["name"] for x in st["keys"]}
                elif k == "select":
                    defs |= {n for n, e in st["items"] if c01.tuple_(e) != ("col", n)}
                elif k == "withColumn":
                    defs.add(st["n"])
                elif k == "withColumnRenamed":
                    defs.add(st["b"])
                elif k == "toDF":
                    defs |= set(st["names"])
        elif fam == "srcnames" and p.get("then") == "full":
            keys = {p["names"][0], "Dbl " + p["names"][1]}
            defs = {"Dbl " + p["names"][1]}
        return keys, defs

    def orderby_display_alias(p: dict, f: str) -> bool:
        # an ORDER BY key that names a select alias of the same block: the alias is written in the user's display spelling
        # (`_set_display_names`), the key in the dialect-normalised spelling; Snowflake / Postgres keep quoted spellings apart
        import re

        m = re.search(r"does not resolve under (snowflake|postgres)'s identifier rules.*Column '\"?([^'\"]+)\"?' could not be resolved", f)
        if not m:
            return False
        dialect, unresolved = m.group(1), m.group(2)
        if not (f.startswith(f"[{dialect}-session.collect()]") or f.startswith(f"[duckdb-session.sql(dialect={dialect})]")):
            return False
        keys, defs = order_keys_and_defs(p)
        # the unresolved reference is the normalised spelling of an alias that is both defined by a step and used as an
        # orderBy key, and that spelling differs (in letter case only) from the display spelling the alias is written in
        return any(n.lower() == unresolved.lower() and n != unresolved for n in keys & defs)

    def sql_other_dialect_functions(p: dict, f: str) -> bool:
        # df.sql(dialect='postgres') on a session of ANOTHER engine keeps that session's function decisions: round() gets no
        # NUMERIC cast, so the Postgres text uses round(double precision) (ties to even) / round(double precision, int) (absent)
        return (
            p.get("fam") == "fn"
            and p.get("fn") == "round"
            and f.startswith("[duckdb-session.sql(dialect=postgres)]")
            and (("rows differ" in f and p.get("scale") is None) or ("Postgres has no round(double precision, integer)" in f and p.get("scale") is not None))
        )

    return {"H_setOpAllUnsupported": setop_all, "H_orderByDisplayAlias": orderby_display_alias, "H_sqlDialectKeepsSessionFunctions": sql_other_dialect_functions}


def classify(p: dict, fails: t.List[str], known: t.Dict[str, dict]) -> t.Optional[t.List[str]]:
    """None = at least one failure is not covered by an open known finding"""
    rules = shape_rules()
    hs: t.List[str] = []
    for f in fails:
        if p.get("fam") == "fncall":
            h = FN.classify_failure(p, f)
            h = h if h in known else None
        else:
            h = next((k for k, pred in rules.items() if k in known and pred(p, f)), None)
        if h is None:
            return None
        if h not in hs:
            hs.append(h)
    return hs


# ------------------------------------------------------------------------------------------------
# exercising the generated definitions against the running code
# ------------------------------------------------------------------------------------------------

ADVERSARIAL = [
    "", "a", "sum(x)", "count(1)", "((", "))", ")(", "f(g(x))", "a_b", "_", "(_)", "x y", "SUM(X)", "é(ü)", "a(b)c(d)e", "（x）", "sum_x_", "sum(sum_x_)",
    "\\(", "'('", '"(")', "`(`", "(" * 40, "a\n(b)", "\t)", "[x]", "{(}", "😀(😀)",
]

IDENT_NAMES = ["a", "A", "MyCol", "my_col", "X1", "sum(x)", "a b", "ABC", "abc", "Zz", "_x", "x_Y_z", "q", "Q"]
REPORTED_NAMES = ["a", "A", "MyCol", "sum(x)", "SUM(X)", "a b", "x_1", "COUNT(1)", "k", "K2", "sum_x_", "é", "a.b"]


def dialect_name(d: t.Any) -> str:
    return d.__class__.__name__.lower()


def live_table() -> t.Tuple[t.Dict[str, dict], t.List[str]]:
    """what the running classes say, per engine package"""
    live: t.Dict[str, dict] = {}
    problems: t.List[str] = []
    for e in ALL_PACKAGES:
        try:
            cls = session_class(e)
            s, conn = make_session(e)
            b = cls.Builder
            flags = sorted((k, bool(getattr(s, k))) for k in dir(type(s)) if k.startswith("_is_") and isinstance(getattr(type(s), k, None), property))
            live[e] = {
                "cls": cls.__name__,
                "builder": [b.DEFAULT_INPUT_DIALECT, b.DEFAULT_OUTPUT_DIALECT, b.DEFAULT_EXECUTION_DIALECT],
                "session": [dialect_name(s.input_dialect), dialect_name(s.output_dialect), dialect_name(s.execution_dialect)],
                "sanitize": bool(cls.SANITIZE_COLUMN_NAMES),
                "flags": [list(x) for x in flags],
                "sanitized": [s._sanitize_column_name(x) for x in ADVERSARIAL],
            }
            # through the builder (Builder.__init__ / _set_session_properties)
            if e not in ("spark", "standalone"):
                reset_singleton()
                with warnings.catch_warnings():
                    warnings.simplefilter("ignore")
                    if e == "duckdb":
                        import duckdb

                        conn = duckdb.connect(":memory:")
                    bs = cls.Builder().config(map={"sqlframe.conn": conn}).getOrCreate()
                live[e]["via_builder"] = [dialect_name(bs.input_dialect), dialect_name(bs.output_dialect), dialect_name(bs.execution_dialect)]
        except Exception as ex:  # noqa
            problems.append(f"cannot build the {e} session on the stub driver: {type(ex).__name__}: {str(ex)[:200]}")
    reset_singleton()
    return live, problems


def live_idents() -> t.List[dict]:
    """sqlglot's own normalize_identifier for every (dialect, name, quoted, marked)"""
    from sqlglot import exp
    from sqlglot.dialects.dialect import Dialect
    from sqlglot.optimizer.normalize_identifiers import normalize_identifiers

    out = []
    for d in ENGINES:
        for n in IDENT_NAMES:
            for q in (False, True):
                for m in (False, True):
                    i = exp.to_identifier(n, quoted=q)
                    if m:
                        i._meta = {"case_sensitive": True}
                    r = normalize_identifiers(i, dialect=d)
                    out.append({"kind": "ident", "dialect": d, "name": n, "quoted": q, "marked": m, "live": r.this, "live_quoted": bool(r.args.get("quoted"))})
    return out


def live_names() -> t.List[dict]:
    """the real `_to_sql` on an identifier and the real `_collect` on reported names, per engine session"""
    from sqlglot import exp

    out = []
    for e in ENGINES:
        if e == "duckdb":
            s, conn = make_session("duckdb")
        else:
            s, conn = make_session(e)
        for n in IDENT_NAMES:
            for q in (False, True):
                c: dict = {"kind": "name", "engine": e, "name": n, "quoted": q}
                try:
                    text = s._to_sql(exp.to_identifier(n, quoted=q), quote_identifiers=False)
                    back = exp.parse_identifier(text, dialect=s.execution_dialect)
                    c["live_stmt"] = back.this
                    c["live_text"] = text
                except Exception as ex:  # noqa
                    c["live_err"] = f"{type(ex).__name__}: {str(ex)[:120]}"
                out.append(c)
        if e not in ("duckdb",):
            # `_collect` on canned reported names
            conn.canned = ([(n, None, None, None, None, None, None) for n in REPORTED_NAMES], [tuple(range(len(REPORTED_NAMES)))])
            try:
                rows = s._collect("SELECT 1")
                fields = list(rows[0].__fields__)
            except Exception as ex:  # noqa
                fields = [f"{type(ex).__name__}: {str(ex)[:120]}"]
            conn.canned = None
            for n, f in zip(REPORTED_NAMES, fields + [None] * len(REPORTED_NAMES)):
                out.append({"kind": "name", "engine": e, "name": n, "quoted": False, "reported": True, "live_collect": f})
    reset_singleton()
    return out


def driver_usable(ctx: Ctx) -> bool:
    """the driver imports Codec/C12 -> Impl/C12Names -> Gen/Engines; it is current unless one of those failed to (re)build
    (a failure confined to Props/C12.lean does not matter to it)"""
    import re

    for b in ctx.broken:
        if b.startswith("Gen.Engines untranslatable"):
            return False
        if b.startswith("lake build failed"):
            files = set(re.findall(r"SqlframeModel/[A-Za-z0-9_/]+\.lean", b))
            if not files or files - {"SqlframeModel/Props/C12.lean"}:
                return False
    return True


def config_failures_of(live: t.Dict[str, dict]) -> t.List[dict]:
    """the running session classes against the specification (needs neither the translator nor Lean):
    a failing configuration is a concrete failing input"""
    failures: t.List[dict] = []
    for e in ALL_PACKAGES:
        if e not in live:
            continue
        lv = live[e]
        # the running class against the specification (a concrete failing configuration)
        spec_fail = []
        if lv["session"] != ["spark", "spark", OWN_DIALECT[e]]:
            spec_fail.append(f"a fresh {lv['cls']} has (input, output, execution) dialects {lv['session']}, expected ['spark', 'spark', '{OWN_DIALECT[e]}']")
        if "via_builder" in lv and lv["via_builder"] != ["spark", "spark", OWN_DIALECT[e]]:
            spec_fail.append(f"{lv['cls']}.Builder().getOrCreate() has dialects {lv['via_builder']}, expected ['spark', 'spark', '{OWN_DIALECT[e]}']")
        on = [k for k, v in lv["flags"] if v]
        if on != [f"_is_{e}"]:
            spec_fail.append(f"{lv['cls']} answers True to {on}, expected ['_is_{e}']")
        if lv["sanitize"] != (e in MUST_SANITIZE):
            spec_fail.append(f"{lv['cls']}.SANITIZE_COLUMN_NAMES = {lv['sanitize']}, expected {e in MUST_SANITIZE}")
        if spec_fail:
            failures.append({"family": "config", "engine": e, "failures": spec_fail, "program": f"{lv['cls']}(conn=<fake>)"})
    # a sanitising session really removes the characters its engine cannot carry
    for e in ALL_PACKAGES:
        if e in live and e in MUST_SANITIZE:
            bad = [(x, y) for x, y in zip(ADVERSARIAL, live[e]["sanitized"]) if "(" in y or ")" in y or len(y) != len(x)]
            if bad:
                failures.append({"family": "config", "engine": e, "failures": [f"{live[e]['cls']}._sanitize_column_name({bad[0][0]!r}) = {bad[0][1]!r}"], "program": f"{live[e]['cls']}(conn=<fake>)"})
    return failures


def live_round() -> t.Dict[str, t.Any]:
    """what the running functions.round builds on each engine session, and DuckDB's two rounding primitives on k/2"""
    from sqlglot import exp

    out: t.Dict[str, t.Any] = {"operand": {}, "prims": {}}
    for e in ENGINES:
        try:
            s, _ = make_session(e)
            F, _W = engine_api(e)
            kinds = []
            for c in (F.round(F.col("x")), F.round(F.col("x"), 1)):
                r = c.expression.find(exp.Round)
                inner = r.this if r is not None else None
                kinds.append("numeric" if isinstance(inner, exp.Cast) and inner.to.is_type(exp.DataType.Type.DECIMAL) else "double")
            out["operand"][e] = kinds
        except Exception as ex:  # noqa
            out["operand"][e] = f"{type(ex).__name__}: {str(ex)[:120]}"
    reset_singleton()
    import duckdb

    con = duckdb.connect(":memory:")
    for h in range(-13, 14):
        a, ev = con.execute(f"SELECT ROUND(CAST({h} AS DOUBLE) / 2), ROUND_EVEN(CAST({h} AS DOUBLE) / 2, 0)").fetchone()
        out["prims"][h] = [int(a), int(ev)]
    return out


TIME_TRIPLES = [("spark", "bigquery", "snowflake"), ("snowflake", "spark", "postgres"), ("postgres", "snowflake", "spark"), ("spark", "postgres", "duckdb")]


def live_timefmt() -> t.List[dict]:
    """the running time-format helpers of _BaseSession: on every engine's fresh session, and on sessions whose three dialects are
    pairwise different (so that a helper reading the wrong ROLE shows even where the default dialects coincide)"""
    from sqlglot.dialects.dialect import Dialect

    fmts: t.List[t.Optional[str]] = [None] + [f for f, _ in FN.TS_FORMATS] + [f for f, _ in FN.D_FORMATS]
    out: t.List[dict] = []
    configs: t.List[t.Tuple[str, t.Optional[t.Tuple[str, str, str]]]] = [(e, None) for e in ENGINES] + [("postgres", tr) for tr in TIME_TRIPLES]
    for e, triple in configs:
        try:
            s, _ = make_session(e)
            if triple:
                s.input_dialect, s.output_dialect, s.execution_dialect = (Dialect.get_or_raise(x) for x in triple)
            ds = [dialect_name(s.input_dialect), dialect_name(s.output_dialect), dialect_name(s.execution_dialect)]
            for f in fmts:
                c: dict = {"kind": "timefmt", "engine": e, "input": ds[0], "output": ds[1], "execution": ds[2], "fmt": f}
                try:
                    c["live"] = {
                        "defaultTimeFormat": s.default_time_format,
                        "formatTime": s.format_time(f).this,
                        "formatExecutionTime": s.format_execution_time(f).this,
                    }
                except Exception as ex:  # noqa
                    c["live_err"] = f"{type(ex).__name__}: {str(ex)[:120]}"
                out.append(c)
        except Exception as ex:  # noqa
            out.append({"kind": "timefmt", "engine": e, "input": "spark", "output": "spark", "execution": e, "fmt": None, "live_err": f"{type(ex).__name__}: {str(ex)[:120]}"})
    reset_singleton()
    return out


def live_fmttime() -> t.List[dict]:
    """sqlglot's own format_time (third party) on the formats the stream uses, in both directions, for every dialect"""
    from sqlglot import exp
    from sqlglot.dialects.dialect import Dialect

    out = []
    for d in ENGINES:
        D = Dialect.get_or_raise(d)
        texts = {D.TIME_FORMAT.strip("'")} | {f for f, _ in FN.TS_FORMATS + FN.D_FORMATS} | {"yyyy-MM-dd'T'HH:mm", "HH24:MI", "x-%Y", "%Y%m%d"}
        for f in sorted(texts):
            try:
                out.append({"kind": "fmttime", "dialect": d, "s": f, "dir": "read", "live": D.format_time(exp.Literal.string(f)).this})
            except Exception as ex:  # noqa
                out.append({"kind": "fmttime", "dialect": d, "s": f, "dir": "read", "live_err": str(ex)[:100]})
        for _, strf in FN.TS_FORMATS + FN.D_FORMATS + [("", "%Y-%m-%d %H:%M:%S"), ("", "%-d/%-m/%y %I:%M %p"), ("", "%j %H")]:
            try:
                lv = D.generator().format_time(exp.StrToTime(this=exp.Null(), format=exp.Literal.string(strf)))
                out.append({"kind": "fmttime", "dialect": d, "s": strf, "dir": "write", "live": (lv or "").strip("'")})
            except Exception as ex:  # noqa
                out.append({"kind": "fmttime", "dialect": d, "s": strf, "dir": "write", "live_err": str(ex)[:100]})
    return out


def exercise_time(ctx: Ctx, stats: dict) -> None:
    """Gen/EngineFns' time roles + Impl/C12Fns' format model + Impl/C12TimeTables against the running helpers and the live sqlglot"""
    from sqlglot.dialects.dialect import Dialect

    cases: t.List[dict] = [{"kind": "timetables"}] + live_fmttime() + live_timefmt()
    try:
        outs = vlib.run_driver("C12", [dict({k: v for k, v in c.items() if not k.startswith("live")}, case=i) for i, c in enumerate(cases)])
    except Exception as e:  # noqa
        ctx.broken.append(f"Driver/C12.lean does not run (time formats): {str(e)[:300]}")
        return
    stats["time_cases"] = len(cases)
    tables = outs[0].get("tables", {})
    for d in ENGINES:
        D = Dialect.get_or_raise(d)
        tb = tables.get(d)
        live = {"format": D.TIME_FORMAT.strip("'"), "mapping": [[k, v] for k, v in D.TIME_MAPPING.items()], "inverse": [[k, v] for k, v in D.INVERSE_TIME_MAPPING.items()]}
        if tb is None:
            ctx.broken.append(f"third-party model: Impl/C12TimeTables has no tables for {d}")
            continue
        for k in ("format", "mapping", "inverse"):
            if tb[k] != live[k]:
                ctx.broken.append(f"third-party model: sqlglot's {d} {'TIME_FORMAT' if k == 'format' else 'TIME_MAPPING' if k == 'mapping' else 'INVERSE_TIME_MAPPING'} is {str(live[k])[:160]}, Impl/C12TimeTables / inverseOf gives {str(tb[k])[:160]}")
    bad = 0
    for c, o in zip(cases, outs):
        msg = None
        if c["kind"] == "fmttime":
            if "err" in o or "live_err" in c:
                msg = f"third-party model: format_time({c['s']!r}) in {c['dialect']}: {o.get('err') or c.get('live_err')}"
            elif o["out"] != c["live"]:
                msg = f"third-party model: sqlglot {'reads' if c['dir'] == 'read' else 'writes'} the format {c['s']!r} in {c['dialect']} as {c['live']!r}, Impl/C12Fns.fmtTime gives {o['out']!r}"
        elif c["kind"] == "timefmt":
            where = f"on a {c['engine']} session with (input, output, execution) = ({c['input']}, {c['output']}, {c['execution']})"
            if "live_err" in c:
                msg = f"correspondence (time formats): the running helpers raised {where}: {c['live_err']}"
            elif "err" in o:
                msg = f"driver: {o['err']}"
            else:
                for k, lv in c["live"].items():
                    if o[k] != lv:
                        msg = f"correspondence (time formats): session.{ {'defaultTimeFormat': 'default_time_format', 'formatTime': 'format_time', 'formatExecutionTime': 'format_execution_time'}[k] }({'' if k == 'defaultTimeFormat' else repr(c['fmt'])}) {where} gives {lv!r}, the model (generated roles) {o[k]!r}"
                        break
        if msg:
            bad += 1
            if bad <= 3:
                ctx.broken.append(msg)


def _fn_arg(p: dict, param: str) -> t.Optional[dict]:
    return next((a for a in p["args"] if a["param"] == param), None)


def _fn_value(p: dict, row: t.Dict[str, t.Any], param: str) -> t.Any:
    a = _fn_arg(p, param)
    if a is None or a["form"] == "none":
        return None
    return row.get(a["column"]) if "column" in a else a["value"]


def _len_form(p: dict, param: str) -> str:
    a = _fn_arg(p, param)
    if a is None or a["form"] == "none":
        return "omitted"
    return "pyInt" if a["form"] == "py" else "column"


def fn_model_check(ctx: Ctx, progs: t.List[dict], per_prog: t.List[dict], stats: dict) -> None:
    """implementation <-> model for the functions Impl/C12Fns.lean models (overlay, sequence without a step, regexp_replace):
    the rows every engine's statement returned (DuckDB: executed; the others: read by the oracle) against the Lean model's value
    for that engine, computed from the decisions regenerated from the source.  A disagreement breaks the correspondence."""
    import re

    reqs: t.List[dict] = []
    meta: t.List[t.Tuple[int, str, t.List[int]]] = []  # (program index, engine, row ids)
    for i, (p, pp) in enumerate(zip(progs, per_prog)):
        if p.get("fam") != "fncall" or "ref" not in pp.get("ref", {}):
            continue
        data = {r[0]: dict(zip(p["cols"], r[1:])) for r in p["rows"]}
        ids = sorted(data)
        by_engine = dict(pp.get("rows", {}))
        by_engine["duckdb"] = pp["ref"]["ref"]["rows"]
        fn = p["fn"]
        for e, rows in by_engine.items():
            if fn == "overlay":
                reqs.append({"kind": "overlay", "engine": e, "form": _len_form(p, "len"), "rows": [[_fn_value(p, data[k], "src"), _fn_value(p, data[k], "replace"), _fn_value(p, data[k], "pos"), _fn_value(p, data[k], "len")] for k in ids]})
            elif fn == "sequence" and _len_form(p, "step") == "omitted" and e in ("duckdb", "bigquery", "spark", "databricks"):
                ok = [k for k in ids if _fn_value(p, data[k], "start") is not None and _fn_value(p, data[k], "stop") is not None]
                reqs.append({"kind": "sequence", "engine": e, "rows": [[_fn_value(p, data[k], "start"), _fn_value(p, data[k], "stop")] for k in ok]})
                meta.append((i, e, ok))
                continue
            elif fn == "rint":
                ok = [k for k in ids if isinstance(_fn_value(p, data[k], "col"), (int, float)) and float(_fn_value(p, data[k], "col") * 2).is_integer()]
                reqs.append({"kind": "rint", "engine": e, "rows": [[int(_fn_value(p, data[k], "col") * 2)] for k in ok]})
                meta.append((i, e, ok))
                continue
            elif fn == "regexp_replace" and (_fn_value(p, {}, "position") in (None, 1)):
                pat = _fn_value(p, {}, "pattern")
                ok = [k for k in ids if _fn_value(p, data[k], "str") is not None]
                subs = [re.sub(pat, "\x01", _fn_value(p, data[k], "str")) for k in ok]
                reqs.append({"kind": "regexp", "engine": e, "posGiven": _len_form(p, "position") != "omitted", "subjects": subs})
                meta.append((i, e, ok))
                continue
            else:
                continue
            meta.append((i, e, ids))
    if not reqs:
        return
    try:
        outs = vlib.run_driver("C12", [dict(r, case=j) for j, r in enumerate(reqs)])
    except Exception as ex:  # noqa
        ctx.broken.append(f"Driver/C12.lean does not run (function models): {str(ex)[:300]}")
        return
    bad = 0
    for r, o, (i, e, ids) in zip(reqs, outs, meta):
        p, pp = progs[i], per_prog[i]
        rows = (dict(pp.get("rows", {}), duckdb=pp["ref"]["ref"]["rows"])).get(e)
        if rows is None or "err" in o:
            if "err" in o:
                ctx.broken.append(f"driver: {o['err']}")
            continue
        got = {x[0]: x[1] for x in rows if len(x) == 2}
        model = o["model"]
        if r["kind"] == "overlay" and o.get("emulated"):
            # ASSUMED primitive table `concatSkipsNull` against sqlglot's description of the dialect's CONCAT
            from sqlglot.dialects.dialect import Dialect

            if bool(Dialect.get_or_raise(e).CONCAT_COALESCE) != bool(o.get("concatSkipsNull")) and f"concat:{e}" not in stats:
                stats[f"concat:{e}"] = True
                ctx.broken.append(f"third-party model: sqlglot says CONCAT_COALESCE = {Dialect.get_or_raise(e).CONCAT_COALESCE} for {e}, Impl/C12Fns.concatSkipsNull says {o.get('concatSkipsNull')}")
        if r["kind"] == "regexp":
            rep = _fn_value(p, {}, "replacement")
            pat = _fn_value(p, {}, "pattern")
            data = {x[0]: dict(zip(p["cols"], x[1:])) for x in p["rows"]}
            fixed = []
            for k, m in zip(ids, model):
                hits = iter(re.findall(pat, _fn_value(p, data[k], "str")))
                fixed.append("".join(rep if ch == "\x02" else next(hits) if ch == "\x01" else ch for ch in m))
            model = fixed
        stats["fn_model_rows"] = stats.get("fn_model_rows", 0) + len(ids)
        for k, m in zip(ids, model):
            if k in got and canon_value(m) != got[k]:
                bad += 1
                if bad <= 3:
                    ctx.broken.append(f"correspondence ({r['kind']} model): {show_prog(p)[:260]}: the {e} statement gives {got[k]!r} on row {k}, Impl/C12Fns (regenerated decisions) gives {m!r}")
                break
        # the REFERENCE itself against the specification: the DuckDB session is what every other engine is compared with, so a
        # change of its own rendering that happens to agree with the other emulations is invisible to the cross-engine comparison;
        # where the Lean specification (PySpark's value) exists, the DuckDB session's rows must equal it on every row that meets
        # the scope hypotheses the driver reports
        if e == "duckdb" and r["kind"] != "regexp":
            hkeys = [x for x in o if x.startswith("H_")]
            for j, (k, sp) in enumerate(zip(ids, o["spec"])):
                if k in got and all(o[hk][j] for hk in hkeys) and canon_value(sp) != got[k]:
                    pp["fails"].append(f"[duckdb-session.collect()] row {k}: the DuckDB session returns {got[k]!r}, PySpark's value (Lean specification of {p['fn']}) is {canon_value(sp)!r}")
                    break


def exercise(ctx: Ctx) -> t.Tuple[t.List[dict], dict]:
    """returns (configuration failures = concrete failing inputs, statistics); model/translator disagreements go to ctx.broken"""
    stats = {"table_cells": 0, "sanitize_strings": 0, "ident_cases": 0, "name_cases": 0}
    live, problems = live_table()
    for pb in problems:
        ctx.broken.append(pb)
    failures: t.List[dict] = config_failures_of(live)
    if not driver_usable(ctx):
        ctx.broken.append("Driver/C12.lean not run: the model it evaluates did not build from the current source (its compiled form would be stale)")
        return failures, stats
    extra = ["".join(ctx.rng.choice("ab(_) )(XY") for _ in range(ctx.rng.randint(0, 12))) for _ in range(40)]
    strings = ADVERSARIAL + extra
    idents = live_idents()
    names = live_names()
    lr = live_round()
    rounds = [{"kind": "round", "engine": e, "h": h} for e in ENGINES for h in range(-13, 14)]
    cases: t.List[dict] = [{"kind": "table"}] + [{"kind": "sanitize", "s": s} for s in strings] + idents + names + rounds
    try:
        outs = vlib.run_driver("C12", [dict({k: v for k, v in c.items() if not k.startswith("live") and k != "reported"}, case=i) for i, c in enumerate(cases)])
    except Exception as e:  # noqa: the driver does not build when a Gen module is missing
        ctx.broken.append(f"Driver/C12.lean does not run: {str(e)[:300]}")
        return failures, stats
    table = outs[0]["table"]
    if [tuple(x) for x in table["replacements"]] != [tuple(x) for x in _REPS]:
        ctx.broken.append(f"translator correspondence: Gen.sanitizeReplacements = {table['replacements']}, gen_c12.extract = {_REPS}")
    if [list(x) for x in table["replacements"]] != [list(x) for x in table["replacementsText"]]:
        ctx.broken.append("Gen.Engines: the character and text forms of the replacement chain differ (translator)")
    gen_rows = {r["engine"]: r for r in table["engines"]}
    # the generated table vs the running classes (translator correspondence), and the running classes vs the specification
    for e in ALL_PACKAGES:
        if e not in live:
            continue
        lv = live[e]
        g = gen_rows.get(e)
        if g is None:
            ctx.broken.append(f"Gen.Engines has no row for sqlframe/{e}/session.py")
            continue
        pairs = [
            ("cls", g["cls"], lv["cls"]),
            ("Builder.DEFAULT_*", [g["input"], g["output"], g["execution"]], lv["builder"]),
            ("session dialects", [g["input"], g["output"], g["execution"]], lv["session"]),
            ("SANITIZE_COLUMN_NAMES", g["sanitize"], lv["sanitize"]),
            ("_is_<engine>", [list(x) for x in g["flags"]], lv["flags"]),
        ]
        if "via_builder" in lv:
            pairs.append(("dialects via Builder.getOrCreate", [g["input"], g["output"], g["execution"]], lv["via_builder"]))
        for what, a, b in pairs:
            stats["table_cells"] += 1
            if a != b:
                ctx.broken.append(f"translator correspondence: Gen.Engines says {what} of {e} = {a}, the running class says {b}")

    # sanitize: Lean vs the running method, on every string, for a sanitising and a non-sanitising session
    san_out = {c["s"]: o for c, o in zip(cases, outs) if c.get("kind") == "sanitize"}
    for e in ALL_PACKAGES:
        if e not in live:
            continue
        flag = live[e]["sanitize"]
        for s_, got in zip(ADVERSARIAL, live[e]["sanitized"]):
            stats["sanitize_strings"] += 1
            want = san_out[s_]["flagTrue" if flag else "flagFalse"]
            if got != want:
                ctx.broken.append(f"correspondence (sanitize): {e}._sanitize_column_name({s_!r}) = {got!r}, Lean sanitizeColumnName {flag} = {want!r}")
                break
    for s_, o in san_out.items():
        stats["sanitize_strings"] += 1
        py = s_
        for a, b in _REPS:
            py = py.replace(a, b)
        if o["sanitized"] != py or not o["idem"] or o["len"] != len(s_) or any(a in o["sanitized"] for a, _ in _REPS):
            ctx.broken.append(f"correspondence (sanitize): Lean sanitize {s_!r} = {o['sanitized']!r}, python chain = {py!r}, idem={o['idem']}")
            break
    # a sanitising session really uses the chain (BigQuery, live)
    if "bigquery" in live and live["bigquery"]["sanitize"]:
        for s_, got in zip(ADVERSARIAL, live["bigquery"]["sanitized"]):
            if got != san_out[s_]["sanitized"]:
                ctx.broken.append(f"correspondence (sanitize): BigQuery session gives {got!r} for {s_!r}, Lean sanitize gives {san_out[s_]['sanitized']!r}")
                break

    # sqlglot's strategies vs the modelled ones (third-party model; ASCII names)
    from sqlglot.dialects.dialect import Dialect

    for d, st in table["strategies"].items():
        lv_st = Dialect.get_or_raise(d).NORMALIZATION_STRATEGY.name
        stats["ident_cases"] += 1
        if lv_st != st:
            ctx.broken.append(f"third-party model: sqlglot's {d} NORMALIZATION_STRATEGY is {lv_st}, Impl/C12Names.strategyOf says {st}")
    bad = 0
    for c, o in zip(cases, outs):
        if c.get("kind") == "ident":
            stats["ident_cases"] += 1
            if (o.get("name"), o.get("quoted")) != (c["live"], c["live_quoted"]):
                bad += 1
                if bad == 1:
                    ctx.broken.append(f"third-party model: sqlglot normalises {c['name']!r} (quoted={c['quoted']}, marked={c['marked']}) in {c['dialect']} to {c['live']!r}, the model to {o.get('name')!r}")
    # `_to_sql` / `_collect` vs stmtIdent / collectName
    bad = 0
    for c, o in zip(cases, outs):
        if c.get("kind") != "name":
            continue
        stats["name_cases"] += 1
        msg = None
        if "err" in o:
            msg = f"driver: {o['err']}"
        elif c.get("reported"):
            if c["live_collect"] != o["collectName"]:
                msg = f"`_collect` on {c['engine']} returns the reported column {c['name']!r} as {c['live_collect']!r}, the model (collectName) as {o['collectName']!r}"
        elif "live_err" in c:
            msg = f"`_to_sql` on {c['engine']} raised for identifier {c['name']!r}: {c['live_err']}"
        else:
            if c["live_stmt"] != o["stmtName"]:
                msg = f"`_to_sql` on {c['engine']} writes identifier {c['name']!r} (quoted={c['quoted']}) as {c['live_text']!r}, the model (stmtIdent) as {o['stmtName']!r}"
            elif not o["nameEquiv"]:
                msg = f"model: NameEquiv fails for {c['name']!r} on {c['engine']}"
        if msg:
            bad += 1
            if bad <= 2:
                ctx.broken.append("correspondence (names): " + msg)
    # functions.round: the generated decision vs the expression the running function builds; the Lean primitives vs the oracle's
    bad = 0
    for c, o in zip(cases, outs):
        if c.get("kind") != "round":
            continue
        stats["round_cases"] = stats.get("round_cases", 0) + 1
        e, h = c["engine"], c["h"]
        msg = None
        if "err" in o:
            msg = f"driver: {o['err']}"
        elif lr["operand"].get(e) != [o["operandNoScale"], o["operandWithScale"]]:
            msg = f"functions.round on the {e} session hands ROUND a {lr['operand'].get(e)} operand (no scale, with scale); Gen.roundPgCast* says {[o['operandNoScale'], o['operandWithScale']]}"
        elif lr["prims"][h] != [o["away"], o["even"]]:
            msg = f"rounding primitives on {h}/2: DuckDB ROUND / ROUND_EVEN give {lr['prims'][h]}, Impl/C12Round halfAway / halfEven give {[o['away'], o['even']]}"
        if msg:
            bad += 1
            if bad <= 2:
                ctx.broken.append("correspondence (round): " + msg)
    # the dialects whose quoted identifiers keep their spelling (used by the resolution obligation of the stream)
    for d, st in table["strategies"].items():
        if (st in ("LOWERCASE", "UPPERCASE")) != (d in CASE_KEEPING_DIALECTS):
            ctx.broken.append(f"harness: CASE_KEEPING_DIALECTS disagrees with the strategy table on {d} ({st})")
    stats["gen_table"] = {e: [r["input"], r["output"], r["execution"], r["sanitize"], r["trueFlags"]] for e, r in gen_rows.items()}
    exercise_time(ctx, stats)
    return failures, stats


# ------------------------------------------------------------------------------------------------
# the check
# ------------------------------------------------------------------------------------------------


def name_obligations(ctx: Ctx) -> None:
    """`lake build failed: …Props/C12.lean:<line>…` -> the theorem (or example) of Props/C12.lean the error falls in"""
    import re

    try:
        lines = open(os.path.join(vlib.LEAN_DIR, "SqlframeModel", "Props", "C12.lean"), encoding="utf-8").read().split("\n")
    except OSError:
        return
    named: t.List[str] = []
    for b in ctx.broken:
        if not b.startswith("lake build failed"):
            continue
        for m in re.finditer(r"Props/C12\.lean:(\d+):", b):
            ln = int(m.group(1))
            for i in range(min(ln, len(lines)) - 1, -1, -1):
                d = re.match(r"(theorem|example|def|instance)\s*([A-Za-z0-9_.]*)", lines[i])
                if d:
                    what = f"theorem {d.group(2)}" if d.group(1) == "theorem" else f"{d.group(1)} at Props/C12.lean:{i + 1} ({lines[i].strip()[:90]})"
                    msg = f"proof obligation no longer holds for the generated tables: {what}"
                    if msg not in named:
                        named.append(msg)
                    break
    ctx.broken[:0] = named


def strip(p: dict) -> dict:
    return {k: v for k, v in p.items() if k != "origin"}


def shrink(p: dict, known: t.Dict[str, dict], engines: t.List[str]) -> dict:
    def failing(x: dict) -> bool:
        r = run_one(x, engines)
        return bool(r["fails"]) and classify(x, r["fails"], known) is None

    if p["fam"] == "fncall":
        best = p
        for _ in range(6):
            nxt = next((x for x in FN.shrink_candidates(best) if failing(x)), None)
            if nxt is None:
                break
            best = nxt
        return best
    if p["fam"] != "chain":
        return p
    best = p

    for _ in range(8):
        cands = [dict(best, steps=best["steps"][:i] + best["steps"][i + 1 :]) for i in range(len(best["steps"])) if len(best["steps"]) > 1]
        cands += [dict(best, rows=best["rows"][:i] + best["rows"][i + 1 :]) for i in range(len(best["rows"]))]
        cands = [x for x in cands if c01.valid(x) and not c01.has_risky_limit(x)]
        nxt = next((x for x in cands if failing(x)), None)
        if nxt is None:
            break
        best = nxt
    return best


def engines_in(fails: t.List[str]) -> t.List[str]:
    es = [e for e in ENGINES if e != "duckdb" and any(f.startswith(f"[{e}-session") for f in fails)]
    return es or ["postgres"]


def run(ctx: Ctx) -> None:
    warnings.simplefilter("ignore")
    install_stubs()
    idx = vlib.props_index()[ID]
    vlib.prove(ctx, MODULES, GEN, idx["theorems"], SOURCES)
    name_obligations(ctx)
    known = load_known()

    load_chain(ctx)
    progs = gen_programs(ctx)
    # recorded witnesses of open known findings: run like every other program (KNOWN-FINDING is printed only while they still fail)
    for h, e in known.items():
        w = (e.get("witness") or {}).get("case")
        if w:
            progs.append(dict(w, origin="witness:" + h))
    chunk = 8 if not ctx.thorough else 25
    chunks = [progs[i : i + chunk] for i in range(0, len(progs), chunk)]
    while len(chunks) < 16 and chunk > 1:  # parallel_map only forks for >= 16 items
        chunk = max(1, chunk // 2)
        chunks = [progs[i : i + chunk] for i in range(0, len(progs), chunk)]
    per_prog: t.List[t.Dict[str, t.Any]] = [x for rs in vlib.parallel_map(run_chunk, chunks) for x in rs]
    refs = [x["ref"] for x in per_prog]
    statements = sum(len(v) for x in per_prog for v in x["sent"].values())
    own_nf = sum(x["own_nf"] for x in per_prog)

    config_failures, stats = exercise(ctx)
    if driver_usable(ctx):
        fn_model_check(ctx, progs, per_prog, stats)

    spark_live = "not run (thorough tier only)"
    if ctx.thorough:
        n_live = min(len(progs), 250)
        live_fails, spark_live = run_spark_live(progs[:n_live], refs[:n_live])
        for pp, fs in zip(per_prog, live_fails):
            pp["fails"] += fs
        vlib.log(f"C12: live PySpark: {spark_live}")

    skipped = sum(1 for r in refs if "skip" in r)
    renderings = sum(r.get("renderings", 0) for r in refs)
    viol: t.List[dict] = []
    disagreements = 0
    for p, rf, pp in zip(progs, refs, per_prog):
        if not pp["fails"]:
            continue
        disagreements += 1
        hs = classify(p, pp["fails"], known)
        if hs is None:
            viol.append({"family": p["fam"], "program": show_prog(p), "case": strip(p), "failures": pp["fails"], "sent": {e: s[-1:] for e, s in pp["sent"].items()}})
        else:
            for h in hs:
                vlib.report_known(ctx, known[h], known[h]["summary"])

    # (the recorded witnesses of the open known findings ran with the programs: origin "witness:<id>")

    reported = 0
    for v in config_failures[:3]:
        vlib.report_violation(ctx, dict(v, kind="an engine's session class does not have the documented configuration", broken=ctx.broken))
        reported += 1
    for v in viol[:3]:
        if v["family"] in ("chain", "fncall"):
            best = shrink(v["case"], known, engines_in(v["failures"]))
            r = run_one(best)
            if r["fails"]:
                v = dict(v, case=strip(best), program=show_prog(best), failures=r["fails"], sent={e: s[-1:] for e, s in r["sent"].items()})
        vlib.report_violation(ctx, dict(v, kind="a statement for some engine is not valid in its dialect, or does not denote the DuckDB session's result", broken=ctx.broken))
        reported += 1
    if ctx.broken and not reported:
        vlib.report_violation(
            ctx,
            {"kind": "a proof obligation or a correspondence stream of C12 no longer checks; no failing input found", "broken": ctx.broken, "searched": {"programs": len(progs), "engines": ENGINES, "statements": statements, "renderings": renderings}},
            no_input=True,
        )

    fam_hist: t.Dict[str, int] = {}
    for p in progs:
        fam_hist[p["fam"]] = fam_hist.get(p["fam"], 0) + 1
    nontrivial = {vlib.digest(strip(p)) for p, rf in zip(progs, refs) if "ref" in rf and rf["ref"]["rows"]}
    sample_idx = [i for i, rf in enumerate(refs) if "texts" in rf][:2]
    samples: t.List[t.Any] = []
    for i in sample_idx:
        samples.append({"program": show_prog(progs[i])[:300], "bigquery_text": refs[i]["texts"].get("bigquery", "")[:300], "snowflake_sent": (per_prog[i]["sent"].get("snowflake") or [""])[-1][:300]})
    ctx.cov.update(
        {
            "evaluations": renderings + statements + stats["sanitize_strings"] + stats["ident_cases"] + stats["name_cases"] + stats["table_cells"] + stats.get("round_cases", 0),
            "distinct_nontrivial": len(nontrivial),
            "rule": "VALIDATION stream: programs = corpus + fixed join/set-operation/groupBy/window programs + random C01 chains (1-6 steps over 9 step kinds) + random join/setop/groupBy/window programs, "
            "each over small tables with NULLs and duplicates; every program is rendered (a) by df.sql(dialect=E) on a DuckDB session for the 7 engines, (b) by the real engine session class's collect() through a "
            "recording fake connection for the 6 non-DuckDB engines, (c) by df.sql(dialect='duckdb') on each engine session; each text is parsed in its dialect, re-rendered (fixed point), written for DuckDB by sqlglot, "
            "executed, and compared with the DuckDB session's collect() (rows as bags, or in order after a total orderBy; column order; names up to case and sanitising). "
            "non-trivial = distinct programs whose result is non-empty. evaluations = renderings interpreted + statements captured + generated-definition comparisons. "
            "FUNCTION STREAM (family fncall; tools/props/c12_fns.py): df.select('id', F.<fn>(args)) for the functions of c12_fns.RECIPES; the functions whose body in the tree under test mentions an `_is_<engine>` flag or a session "
            "time-format helper are enumerated on every run, the others sampled (quick) / enumerated (thorough); argument forms are read from the running function's signature (ColumnOrName: name, Column; Union[ColumnOrName, int]: + Python int, lit(); "
            "Optional: + omitted; str / int: Python literal) and varied one parameter at a time around two base calls (every optional parameter given / omitted); data: 2-4 typed rows from per-role pools with NULLs (never in the first row) and boundary rows "
            "(documented examples, ascending / descending / one-element ranges, subjects with several matches, Saturday-Sunday-Monday); each case runs the DuckDB session (reference, plus its text in its own dialect) and the statement of every engine session that "
            "supports the function, read under the assumed engine primitives of c12_fns.apply_prims.",
            "programs": len(progs) - skipped,
            "disagreements_checked": disagreements,
            "validation_not_proof": True,
            "validation_renderings_df_sql": renderings,
            "validation_statements_captured": statements,
            "validation_statements_in_own_normal_form": own_nf,
            "programs_skipped_uncollectable_on_duckdb": skipped,
            "traces_validated_against_impl": stats["table_cells"] + stats["sanitize_strings"] + stats["name_cases"],
            "generated_definition_comparisons": stats,
            "family_histogram": fam_hist,
            "engines": ENGINES,
            "spark_live_jvm": spark_live,
            "unproved": "C12_full_statement (cross-engine equivalence of the rendered text) is NOT proved; it is validated per program and input by the stream above under sqlglot's reading of each dialect",
            "samples": samples or [show_prog(p)[:300] for p in progs[:2]],
        }
    )
    ctx.cov["trusted_base"] = list(vlib.TRUSTED_BASE) + [
        "tools/gen_c12.py (Python ast -> Gen/Engines.lean); every generated definition is compared with the running session classes on each run",
        "ASSUMED engine primitives (Impl/C12Round.lean `primRound` / `primRoundScaleExists`): Postgres round(double precision) = ties to even, round(numeric) = ties away from zero, no round(double precision, integer); every other engine's ROUND = ties away from zero — C12_round_ties is relative to this table",
        "NOT part of the proof, oracle of the validation stream only: sqlglot 26.14 parsers/generators for the seven dialects and DuckDB 1.2.2 (thorough tier: PySpark 3.5.9 for the Spark session)",
        "tools/gen_c12_fns.py (Python ast, symbolic execution of the dispatching function bodies -> Gen/EngineFns.lean); exercised: the time roles against the running helpers on sessions with three different dialects, the overlay / sequence / regexp_replace decisions through the model-vs-statement comparison of every function case",
        "ASSUMED engine primitives of the function part (Impl/C12Fns.lean; oracle side c12_fns.apply_prims): SUBSTRING positions, native OVERLAY = SUBSTRING(s,1,p-1) || r || SUBSTRING(s FROM p+l) (NULL-strict), DuckDB's CONCAT skips NULL operands (compared with sqlglot's CONCAT_COALESCE), GENERATE_SERIES / GENERATE_ARRAY with a unit step inclusive and empty when the step points away, Spark's SEQUENCE default step, REGEXP_REPLACE first-match-only without 'g' on DuckDB / Postgres and all-match elsewhere, TRY_TO_TIMESTAMP-like functions parse with the format read in the ENGINE's own language and give NULL on failure",
        "sqlglot's format languages: Impl/C12TimeTables.lean (TIME_FORMAT, TIME_MAPPING of the seven dialects, hand-copied, compared with the live classes on each run) and the model of sqlglot.time.format_time as greedy longest-match rewriting (compared with the live function on the formats the stream uses, both directions)",
    ]
    ctx.assumptions += [
        "the SQL text for each dialect is written by sqlglot's generators (third party); its cross-engine equivalence is validated per program by execution, not proved",
        "the executable interpretation of BigQuery / Snowflake / Postgres / Databricks / Spark / Redshift text is sqlglot's parser for that dialect + sqlglot's DuckDB generator + DuckDB 1.2.2; the real engines are unreachable offline and nothing is claimed about them",
        "oracle adaptation: Redshift VARCHAR(MAX) is read as unbounded TEXT when the parse is written for DuckDB",
        "Postgres text is read under the assumed ROUND primitives: ROUND(x) with x typed double by sqlglot's annotate_types is evaluated as DuckDB ROUND_EVEN(x, 0), ROUND over NUMERIC as ROUND; ROUND(double, scale) is rejected as non-existent",
        "column references are resolved with sqlglot's qualify under the engine's own dialect only for Postgres and Snowflake (the dialects whose sqlglot strategy keeps quoted identifiers as written); for the others DuckDB's binder is the resolver",
        "engine sessions are the real session classes on stub driver modules and a recording fake DB-API connection (Spark: a fake PySpark session object; in the thorough tier additionally a live PySpark JVM for the first 250 programs); driver-specific behaviour (type conversion, cursors) is not exercised",
        "an engine reports an output column under the alias written in the statement (exactly when quoted; folded by its own strategy when not) — `engineReports` in Impl/C12Names.lean",
        "sqlglot's four NORMALIZATION strategies are modelled on ASCII letters and compared with the live normalize_identifiers on a fixed pool of names",
        "function stream: df.sql(dialect=X) of a function call is read only for X = the session's own dialect (other X: open finding H_sqlDialectKeepsSessionFunctions); (function, engine) pairs the oracle cannot read are listed in c12_fns.SKIP with the reason and are not compared; engine-specific functions without a recipe are listed in evidence (function_stream.engine_specific_functions_without_recipe)",
        "function stream: float results are compared to 9 significant digits; timestamps as UTC wall-clock text (every DuckDB connection of the stream runs with TimeZone = UTC)",
        "function stream: regular-expression subjects are cut into matches with Python's `re` for the Lean model (the patterns used are literal characters and simple classes on which RE2 / PCRE / Java agree)",
    ]


def replay(ctx: Ctx, rp: dict) -> None:
    warnings.simplefilter("ignore")
    install_stubs()
    known = load_known()
    if rp.get("family") == "config":
        failures, _ = exercise(ctx)
        mine = [f for f in failures if f["engine"] == rp.get("engine")]
        print(json.dumps({"engine": rp.get("engine"), "failures": [f["failures"] for f in mine], "broken": ctx.broken}, indent=1))
        if mine:
            vlib.report_violation(ctx, dict(rp, failures=mine[0]["failures"]))
        return
    if rp.get("case"):
        load_chain(ctx)
        r = run_one(rp["case"])
        if any("spark-jvm" in f for f in rp.get("failures", [])):
            rf = reference([rp["case"]])
            live_fails, how = run_spark_live([rp["case"]], rf)
            vlib.log(f"C12: live PySpark: {how}")
            r["fails"] += live_fails[0]
        print(json.dumps({"program": show_prog(rp["case"]), "failures": r["fails"], "sent": {e: s[-1:] for e, s in r.get("sent", {}).items()}}, indent=1))
        if r["fails"] and classify(rp["case"], r["fails"], known) is None:
            vlib.report_violation(ctx, dict(rp, failures=r["fails"]))
        return
    print("replay names a broken obligation, not an input:", rp.get("broken"))
