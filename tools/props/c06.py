"""
C06 — grouping and aggregation follow Spark semantics.

proof      : lean/SqlframeModel/Props/C06.lean over the regenerated Gen.Group (tools/gen_c06.py), Gen.Methods, Gen.Operations
tie        : (1) Gen regenerated from the working tree on every run; (2) the generated tables are compared with the running
             code (shortcut names, count alias, cube's grouping sets, decorator tags, which classes of key expression reach
             GROUP BY / a grouping set's tuple, the class of a key expression); (3) correspondence stream: generated
             chains  [where/select]* · grouping operation · [where/select | grouping operation]*  on real sqlframe + DuckDB
             vs Impl/C06Group.lean (model) vs the PySpark specification — df.columns and the bag of rows
             key sets: names, F.col, aliased expressions, aliased CONSTANTS (string / integer / Boolean / NULL literals,
             constant expressions) alone, together and next to columns, empty; inputs incl. the empty table
search     : the same stream compares the implementation with the specification directly; a bounded-exhaustive family
             (every constant-key shape x every grouping operation x empty / non-empty input x re-aggregation) precedes the
             random part; failures are shrunk
"""
from __future__ import annotations

import copy
import json
import os
import random
import re
import subprocess
import typing as t
from fractions import Fraction

import exprs as X
import vlib
from vlib import Ctx, bag, log

ID = "C06"
LEVEL = "proof"
MODULES = ["SqlframeModel.Props.C06"]
GEN = ["Group", "Methods", "Operations", "Clauses"]
SOURCES = [
    "SqlframeModel/Props/C06.lean",
    "SqlframeModel/Lemmas/C06Group.lean",
    "SqlframeModel/Lemmas/C06Cube.lean",
    "SqlframeModel/Lemmas/C06DF.lean",
    "SqlframeModel/Lemmas/C06Const.lean",
    "SqlframeModel/Lemmas/C06Pos.lean",
    "SqlframeModel/Impl/C06Group.lean",
]

ORACLE = os.path.join(vlib.VERIF, "tools", "oracle", "c06_pyspark.json")
OP_NAMES = {"init": "INIT", "noOp": "NO_OP", "from_": "FROM", "wher": "WHERE", "groupBy": "GROUP_BY", "having": "HAVING", "select": "SELECT", "orderBy": "ORDER_BY", "limit": "LIMIT"}
FNS = ["countStar", "count", "sum", "avg", "min", "max", "countDistinct"]
SHORTCUTS = ["sum", "avg", "mean", "min", "max"]
INT_NAMES = ["k", "g", "x", "y", "u", "v", "Amt", "qV"]
STR_NAMES = ["s", "w", "Tag"]
KEY_COLS = ("k", "g", "Dept", "storeId")
KEY_INTS = [None, None, 0, 1, 1, 2]
VAL_INTS = [None, None, 0, 1, 2, 3, -1, 5]
KEY_STRS = [None, "a", "a", "b"]

# constant grouping keys: (expression, type of the output column).  Integer literals are a minority: on the pinned tree they
# are emitted as `GROUP BY <n>`, which the engine reads as a select-list position (known finding H_intLiteralKey)
CONST_KEYS: t.List[t.Tuple[t.Any, str]] = [
    (("lit", "all"), "str"),
    (("lit", ""), "str"),
    (("lit", "a"), "str"),
    (("lit", True), "bool"),
    (("lit", False), "bool"),
    (("lit", None), "opaque"),
    (("bin", "add", ("lit", 1), ("lit", 1)), "int"),
    (("bin", "gt", ("lit", 1), ("lit", 0)), "bool"),
    (("lit", 1), "int"),
    (("lit", 2), "int"),
    (("lit", 7), "int"),
    (("lit", 0), "int"),
]

Schema = t.List[t.Tuple[str, str]]  # ordered (name, type); type in int | str | bool | avg

# ------------------------------------------------------------------------------------------------
# generation
# ------------------------------------------------------------------------------------------------


def tuple_(e: t.Any) -> t.Any:
    if isinstance(e, (list, tuple)):
        return tuple(tuple_(x) for x in e)
    return e


def gen_table(rng: random.Random) -> t.Tuple[Schema, t.List[list]]:
    schema: Schema = rng.choice(
        [
            [("k", "int"), ("x", "int"), ("s", "str")],
            [("k", "int"), ("g", "int"), ("x", "int")],
            [("k", "int"), ("x", "int"), ("y", "int"), ("s", "str")],
            [("s", "str"), ("x", "int")],
            # case-preserving names: the spelling of a column must survive into fn(col)
            [("Dept", "int"), ("Amount", "int"), ("s", "str")],
            [("storeId", "int"), ("Amount", "int"), ("Qty", "int"), ("Tag", "str")],
        ]
    )
    n = rng.choice([0, 1, 2, 3, 4, 5, 6, 7])
    rows = []
    allnull_key = rng.random() < 0.3  # make an all-NULL group likely: rows with this key have NULL in every value column
    for _ in range(n):
        if rows and rng.random() < 0.2:
            rows.append(list(rng.choice(rows)))
            continue
        row = []
        for c, ty in schema:
            if c in KEY_COLS:
                row.append(rng.choice(KEY_INTS))
            elif ty == "str":
                row.append(rng.choice(KEY_STRS))
            else:
                row.append(rng.choice(VAL_INTS))
        if allnull_key and row[0] in (None, 1):
            row = [row[0]] + [None if c not in KEY_COLS else v for (c, _), v in list(zip(schema, row))[1:]]
        rows.append(row)
    return schema, rows


def gen_where(rng: random.Random, schema: Schema) -> dict:
    g = X.Gen(rng, {c: ty for c, ty in schema if ty in ("int", "str")})
    return {"k": "where", "p": g.bool_expr(1)}


def gen_select(rng: random.Random, schema: Schema) -> t.Tuple[dict, Schema]:
    usable = [(c, ty) for c, ty in schema if ty in ("int", "str")]
    g = X.Gen(rng, dict(usable))
    items: t.List[list] = []
    out: Schema = []
    for _ in range(rng.randint(2, 4)):
        used = [a for a, _ in out]
        if rng.random() < 0.65:
            c, ty = rng.choice(usable)
            e: t.Any = ("col", c)
            nm = c if c not in used else None
        else:
            e, ty = g.int_expr(1), "int"
            nm = None
        if nm is None:
            pool = [a for a in (INT_NAMES if ty == "int" else STR_NAMES) if a not in used]
            if not pool:
                continue
            nm = rng.choice(pool)
        items.append([nm, e])
        out.append((nm, ty))
    if not any(ty == "int" for _, ty in out):
        c = next(c for c, ty in usable if ty == "int")
        nm = next(a for a in INT_NAMES if a not in [b for b, _ in out])
        items.append([nm, ("col", c)])
        out.append((nm, "int"))
    return {"k": "select", "items": items}, out


def gen_keys(rng: random.Random, schema: Schema, allow_empty: bool = True, max_keys: int = 2) -> t.List[list]:
    """[(alias, expr, type, style)]; style 'name' = passed as a string, 'col' = F.col, 'expr' = aliased expression"""
    usable = [(c, ty) for c, ty in schema if ty in ("int", "str")]
    const_rate = rng.choice([0.0, 0.0, 0.15, 0.3, 0.9])  # per call: no constants / some / (almost) only constants
    ints = [c for c, ty in usable if ty == "int"]
    n = rng.choice(([0] if allow_empty else []) + [1, 1, 1, 2, 2][: 3 + max_keys])
    keys: t.List[list] = []
    for _ in range(min(n, max_keys)):
        used = [a for a, _, _, _ in keys]
        used_e = [e for _, e, _, _ in keys]
        c = rng.random()
        if c < const_rate:
            # a constant key (aliased): it does not split the rows, but the aggregate stays a *grouped* one
            e, ty = rng.choice(CONST_KEYS[:8] * 3 + CONST_KEYS[8:])
            pool = [a for a in ["c0", "c1", "scope"] if a not in used]
            if rng.random() < 0.15:
                pool = [col for col, _ in usable if col not in used] or pool  # the alias shadows an input column
            if not pool or e in used_e:
                continue
            keys.append([rng.choice(pool), e, ty, "expr"])
        elif c < 0.6 + const_rate * 0.4 or not ints:
            col, ty = rng.choice(usable)
            if col in used or ("col", col) in used_e:
                continue
            keys.append([col, ("col", col), ty, rng.choice(["name", "col"])])
        else:
            col = rng.choice(ints)
            e, ty = rng.choice(
                [
                    (("bin", "add", ("col", col), ("lit", 1)), "int"),
                    (("bin", "mul", ("col", col), ("lit", 0)), "int"),
                    (("bin", "gt", ("col", col), ("lit", 0)), "bool"),
                    (("isNull", ("col", col)), "bool"),
                    (("col", col), "int"),  # a renamed column
                ]
            )
            pool = [a for a in ["kk", "kb", "kz"] if a not in used]
            if col not in used and rng.random() < 0.35:
                pool = [col]  # the alias re-uses the name of the input column the expression is built from (bucketing "in place")
            if not pool or e in used_e:
                continue
            keys.append([rng.choice(pool), e, ty, "expr"])
    return keys


def gen_aggs(rng: random.Random, schema: Schema, taken: t.List[str]) -> t.List[list]:
    """[(alias, aexpr, type)]"""
    usable = [(c, ty) for c, ty in schema if ty in ("int", "str")]
    ints = [c for c, ty in usable if ty == "int"]
    aggs: t.List[list] = []
    for i in range(rng.randint(1, 3)):
        nm = next(a for a in [f"a{j}" for j in range(9)] if a not in taken and a not in [x for x, _, _ in aggs])
        c = rng.random()
        if c < 0.12 and ints:
            a = ("agg", rng.choice(["sum", "count", "countStar"]), ("col", rng.choice(ints)))
            b = ("agg", rng.choice(["count", "countStar", "sum"]), ("col", rng.choice(ints)))
            if len(usable) >= 2 and rng.random() < 0.3:
                b = ("cdn", [("col", col) for col, _ in rng.sample(usable, 2)])
            aggs.append([nm, ("abin", rng.choice(["add", "sub", "mul"]), a, b), "int"])
            continue
        if c < 0.18 and ints:
            a = ("agg", rng.choice(["sum", "max", "count"]), ("col", rng.choice(ints)))
            aggs.append([nm, ("abin", rng.choice(["add", "mul"]), a, ("alit", rng.choice([1, 2]))), "int"])
            continue
        if c < 0.32 and len(usable) >= 2:
            # count_distinct over several columns / expressions: a row counts only if every argument is non-NULL
            picked = rng.sample(usable, rng.choice([2, 2, 3]) if len(usable) >= 3 else 2)
            args = [("col", col) if ty != "int" or rng.random() < 0.8 else ("bin", "add", ("col", col), ("lit", 1)) for col, ty in picked]
            aggs.append([nm, ("cdn", args), "int"])
            continue
        fn = rng.choice(FNS)
        if fn == "countStar":
            aggs.append([nm, ("agg", fn, ("lit", 1)), "int"])
        elif fn in ("sum", "avg"):
            if not ints:
                continue
            col = rng.choice(ints)
            arg = ("col", col) if rng.random() < 0.8 else ("bin", "add", ("col", col), ("lit", 1))
            aggs.append([nm, ("agg", fn, arg), "int" if fn == "sum" else "avg"])
        else:
            col, ty = rng.choice(usable)
            aggs.append([nm, ("agg", fn, ("col", col)), ty if fn in ("min", "max") else "int"])
    if not aggs:
        aggs.append(["a0", ("agg", "countStar", ("lit", 1)), "int"])
    return aggs


def gen_group(rng: random.Random, schema: Schema, stats: dict) -> t.Tuple[dict, Schema]:
    kind = rng.choice(["groupAgg"] * 5 + ["shortcut", "shortcut", "count", "count", "dfAgg", "dfAgg", "cube", "cube"])
    ints = [c for c, ty in schema if ty == "int"]
    if kind == "shortcut" and not ints:
        kind = "count"
    stats["ops"][kind] = stats["ops"].get(kind, 0) + 1
    if kind == "dfAgg":
        aggs = gen_aggs(rng, schema, [])
        return {"k": "dfAgg", "aggs": [[n, e] for n, e, _ in aggs]}, [(n, ty) for n, _, ty in aggs]
    if kind == "cube":
        keys = gen_keys(rng, schema, allow_empty=False, max_keys=rng.choice([1, 2, 2, 3]))
        if any(is_int_lit(k[1]) for k in keys) and any(k[3] == "expr" and not is_int_lit(k[1]) for k in keys):
            # inside GROUPING SETS the engine treats a position that names a *non-column expression* of the select list as a
            # grouping expression of its own (the select item is NULL in the sets that hold only the position); the model reads
            # a position as the expression it names, which is exact for columns and for integer constants only.  Such
            # programs are outside every theorem anyway (H_intLiteralKey); they are not generated.
            keys = [k for k in keys if not is_int_lit(k[1])]
        if not keys:
            c, ty = next((c, ty) for c, ty in schema if ty in ("int", "str"))
            keys = [[c, ("col", c), ty, "name"]]
        aggs = [["count", ("agg", "countStar", ("lit", 1)), "int"]] if rng.random() < 0.5 and "count" not in [k[0] for k in keys] else gen_aggs(rng, schema, [k[0] for k in keys])
        step = {"k": "cube", "keys": [[n, e, st] for n, e, _, st in keys], "aggs": [[n, e] for n, e, _ in aggs], "via_count": aggs[0][0] == "count" and len(aggs) == 1}
        label = "cube:" + "+".join(sorted({key_style(k) for k in keys}))
        stats["key_styles"][label] = stats["key_styles"].get(label, 0) + 1
        return step, [(n, ty) for n, _, ty, _ in keys] + [(n, ty) for n, _, ty in aggs]
    keys = gen_keys(rng, schema)
    label = "empty" if not keys else "+".join(sorted({key_style(k) for k in keys}))
    stats["key_styles"][label] = stats["key_styles"].get(label, 0) + 1
    kschema = [(n, ty) for n, _, ty, _ in keys]
    kj = [[n, e, st] for n, e, _, st in keys]
    if kind == "count":
        if "count" in [n for n, _ in kschema]:
            return gen_group(rng, schema, stats)
        return {"k": "count", "keys": kj}, kschema + [("count", "int")]
    if kind == "shortcut":
        m = rng.choice(SHORTCUTS)
        cols = rng.sample(ints, rng.randint(1, min(2, len(ints))))
        fn = "avg" if m == "mean" else m
        step = {"k": "shortcut", "keys": kj, "m": m, "cols": cols}
        if m != "mean" and rng.random() < 0.3:
            # dict form with one entry (the order of several entries is hash order in PySpark): agg({col: FN})
            step["cols"] = cols[:1]
            step["dict"] = rng.choice([m, m.upper(), m.capitalize()])
            stats["ops"]["dict"] = stats["ops"].get("dict", 0) + 1
        return step, kschema + [(f"{fn}({c})", "opaque") for c in step["cols"]]
    aggs = gen_aggs(rng, schema, [n for n, _ in kschema])
    for _, e, _ in aggs:
        for f in agg_fns(e):
            stats["fns"][f] = stats["fns"].get(f, 0) + 1
    return {"k": "groupAgg", "keys": kj, "aggs": [[n, e] for n, e, _ in aggs]}, kschema + [(n, ty) for n, _, ty in aggs]


def expr_refs(e: t.Any) -> t.List[str]:
    e = tuple_(e)
    if e[0] == "col":
        return [e[1]]
    if e[0] == "lit":
        return []
    return [n for x in e[1:] if isinstance(x, tuple) for n in expr_refs(x)]


def is_int_lit(e: t.Any) -> bool:
    e = tuple_(e)
    return e[0] == "lit" and isinstance(e[1], int) and not isinstance(e[1], bool)


def key_style(k: list) -> str:
    """'name' | 'col' | 'expr' | 'const' (no column reference) | 'intlit' (an integer literal)"""
    if is_int_lit(k[1]):
        return "intlit"
    return "const" if not expr_refs(k[1]) else k[-1]


def agg_fns(e: t.Any) -> t.List[str]:
    e = tuple_(e)
    if e[0] == "agg":
        return [e[1]]
    if e[0] == "cdn":
        return [f"countDistinct/{len(e[1])}"]
    if e[0] == "abin":
        return agg_fns(e[2]) + agg_fns(e[3])
    return []


def gen_case(rng: random.Random, stats: dict) -> dict:
    schema, rows = gen_table(rng)
    base_schema = list(schema)
    steps: t.List[dict] = []
    for _ in range(rng.choice([0, 0, 1, 1, 2])):
        if rng.random() < 0.55:
            steps.append(gen_where(rng, schema))
        else:
            s, schema = gen_select(rng, schema)
            steps.append(s)
    if rng.random() < 0.3:
        # the same DataFrame object first serves another grouped report (mostly a cube), then is used again
        tmp_stats: t.Dict[str, t.Any] = {"ops": {}, "fns": {}, "key_styles": {}, "post": {"where": 0, "select": 0, "group": 0}}
        for _try in range(6):
            side, _ = gen_group(rng, schema, tmp_stats)
            if side["k"] == "cube" or rng.random() < 0.25:
                break
        if "keys" in side and any(is_int_lit(k[1]) for k in side["keys"]):
            # an integer-literal key would make the discarded call itself fail (H_intLiteralKey); that is not what a side call probes
            side = dict(side, keys=[k for k in side["keys"] if not is_int_lit(k[1])] or ([[schema[0][0], ("col", schema[0][0]), "name"]] if side["k"] == "cube" else []))
        steps.append({"k": "side", "op": side, "collect": rng.random() < 0.5})
        stats["side_calls"] = stats.get("side_calls", 0) + 1
        if rng.random() < 0.15:
            return {"schema": [list(x) for x in base_schema], "rows": rows, "steps": steps}  # then just collect the receiver
    s, schema = gen_group(rng, schema, stats)
    steps.append(s)
    for _ in range(rng.choice([0, 1, 1, 2])):
        usable = [(c, ty) for c, ty in schema if ty in ("int", "str")]
        if not usable or not any(ty == "int" for _, ty in usable):
            break
        c = rng.random()
        if c < 0.4:
            steps.append(gen_where(rng, usable))
            stats["post"]["where"] += 1
        elif c < 0.65:
            s, schema = gen_select(rng, usable)
            steps.append(s)
            stats["post"]["select"] += 1
        else:
            s, schema = gen_group(rng, usable, stats)
            steps.append(s)
            stats["post"]["group"] += 1
    return {"schema": [list(x) for x in base_schema], "rows": rows, "steps": steps}


# ------------------------------------------------------------------------------------------------
# encoders
# ------------------------------------------------------------------------------------------------


def aexpr_to_lean(e: t.Any) -> t.Any:
    e = tuple_(e)
    if e[0] == "agg":
        return {"agg": {"fn": e[1], "arg": X.to_lean(e[2])}}
    if e[0] == "cdn":
        return {"countDistinctN": {"args": [X.to_lean(a) for a in e[1]]}}
    if e[0] == "alit":
        return {"lit": {"v": vlib.lval(e[1])}}
    if e[0] == "abin":
        return {"bin": {"op": e[1], "a": aexpr_to_lean(e[2]), "b": aexpr_to_lean(e[3])}}
    raise ValueError(e)


def keys_to_lean(keys: t.List[list]) -> t.Any:
    return [[n, X.to_lean(tuple_(e))] for n, e, _ in keys]


def step_to_lean(s: dict) -> t.Any:
    k = s["k"]
    if k == "where":
        return {"plain": {"s": {"wher": {"p": X.to_lean(tuple_(s["p"]))}}}}
    if k == "select":
        return {"plain": {"s": {"select": {"items": [[n, X.to_lean(tuple_(e))] for n, e in s["items"]]}}}}
    if k == "groupAgg":
        g: t.Any = {"groupAgg": {"keys": keys_to_lean(s["keys"]), "aggs": [[n, aexpr_to_lean(e)] for n, e in s["aggs"]]}}
    elif k == "shortcut":
        g = {"shortcut": {"keys": keys_to_lean(s["keys"]), "m": s["m"], "cols": s["cols"]}}
    elif k == "count":
        g = {"count": {"keys": keys_to_lean(s["keys"])}}
    elif k == "dfAgg":
        g = {"dfAgg": {"aggs": [[n, aexpr_to_lean(e)] for n, e in s["aggs"]]}}
    elif k == "cube":
        g = {"cube": {"keys": keys_to_lean(s["keys"]), "aggs": [[n, aexpr_to_lean(e)] for n, e in s["aggs"]]}}
    else:
        raise ValueError(s)
    return {"group": {"g": g}}


def case_to_lean(i: int, c: dict) -> dict:
    # a side call (grouped call whose result is discarded) is the identity on the receiver in PySpark and in the model
    return {"case": i, "table": X.table_to_lean([n for n, _ in c["schema"]], c["rows"]), "steps": [step_to_lean(s) for s in c["steps"] if s["k"] != "side"]}


def show_aexpr(e: t.Any) -> str:
    e = tuple_(e)
    if e[0] == "agg":
        if e[1] == "countStar":
            return "count('*')"
        return {"countDistinct": "count_distinct"}.get(e[1], e[1]) + f"({X.show(e[2])})"
    if e[0] == "cdn":
        return "count_distinct(" + ", ".join(X.show(a) for a in e[1]) + ")"
    if e[0] == "alit":
        return f"lit({e[1]!r})"
    sym = {"add": "+", "sub": "-", "mul": "*"}[e[1]]
    return f"({show_aexpr(e[2])} {sym} {show_aexpr(e[3])})"


def show_keys(keys: t.List[list]) -> str:
    out = []
    for n, e, st in keys:
        e = tuple_(e)
        if st == "name":
            out.append(repr(n))
        elif st == "col":
            out.append(f"col({n!r})")
        else:
            out.append(f"{X.show(e)}.alias({n!r})")
    return ", ".join(out)


def show_step(s: dict) -> str:
    k = s["k"]
    if k == "where":
        return f"where({X.show(tuple_(s['p']))})"
    if k == "select":
        return "select(" + ", ".join(f"{X.show(tuple_(e))}.alias({n!r})" for n, e in s["items"]) + ")"
    aggs = ", ".join(f"{show_aexpr(e)}.alias({n!r})" for n, e in s.get("aggs", []))
    if k == "groupAgg":
        return f"groupBy({show_keys(s['keys'])}).agg({aggs})"
    if k == "side":
        return f"[side call, result discarded: {show_step(s['op'])}{'.collect()' if s.get('collect') else ''}]"
    if k == "shortcut" and s.get("dict"):
        return f"groupBy({show_keys(s['keys'])}).agg({{{s['cols'][0]!r}: {s['dict']!r}}})"
    if k == "shortcut":
        return f"groupBy({show_keys(s['keys'])}).{s['m']}({', '.join(map(repr, s['cols']))})"
    if k == "count":
        return f"groupBy({show_keys(s['keys'])}).count()"
    if k == "dfAgg":
        return f"agg({aggs})"
    if k == "cube":
        return f"cube({show_keys(s['keys'])})." + ("count()" if s.get("via_count") else f"agg({aggs})")
    return str(s)


def show_case(c: dict) -> str:
    return f"df{[n for n, _ in c['schema']]}{c['rows']}." + ".".join(show_step(s) for s in c["steps"])


# ------------------------------------------------------------------------------------------------
# the real implementation
# ------------------------------------------------------------------------------------------------

_SESSION = None


def session():
    global _SESSION
    if _SESSION is None:
        _SESSION = vlib.fresh_duckdb_session()
    return _SESSION


def to_agg_column(e: t.Any, F: t.Any) -> t.Any:
    e = tuple_(e)
    if e[0] == "agg":
        fn = e[1]
        if fn == "countStar":
            return F.count("*") if e[2] == ("lit", 1) else F.count(F.lit(1))
        arg = X.to_column(e[2], F)
        if fn == "countDistinct":
            return F.countDistinct(arg)
        return getattr(F, fn)(arg)
    if e[0] == "cdn":
        cs = [X.to_column(a, F) for a in e[1]]
        return F.countDistinct(*cs) if len(e[1]) % 2 else F.count_distinct(*cs)
    if e[0] == "alit":
        return F.lit(e[1])
    a, b = to_agg_column(e[2], F), to_agg_column(e[3], F)
    return {"add": a + b, "sub": a - b, "mul": a * b}[e[1]]


def key_columns(keys: t.List[list], F: t.Any) -> t.List[t.Any]:
    out = []
    for n, e, st in keys:
        e = tuple_(e)
        if st == "name":
            out.append(n)
        elif st == "col":
            out.append(F.col(n))
        else:
            out.append(X.to_column(e, F).alias(n))
    return out


def apply_step(df: t.Any, s: dict, F: t.Any) -> t.Any:
    k = s["k"]
    if k == "where":
        return df.where(X.to_column(tuple_(s["p"]), F))
    if k == "select":
        return df.select(*[X.to_column(tuple_(e), F).alias(n) for n, e in s["items"]])
    aggs = [to_agg_column(e, F).alias(n) for n, e in s.get("aggs", [])]
    if k == "groupAgg":
        return df.groupBy(*key_columns(s["keys"], F)).agg(*aggs)
    if k == "side":
        # a grouped call whose result is discarded: DataFrames are immutable, the receiver must be unaffected
        tmp = apply_step(df, s["op"], F)
        if s.get("collect"):
            tmp.collect()
        return df
    if k == "shortcut" and s.get("dict"):
        return df.groupBy(*key_columns(s["keys"], F)).agg({s["cols"][0]: s["dict"]})
    if k == "shortcut":
        return getattr(df.groupBy(*key_columns(s["keys"], F)), s["m"])(*s["cols"])
    if k == "count":
        return df.groupBy(*key_columns(s["keys"], F)).count()
    if k == "dfAgg":
        return df.agg(*aggs)
    if k == "cube":
        gd = df.cube(*key_columns(s["keys"], F))
        return gd.count() if s.get("via_count") else gd.agg(*aggs)
    raise ValueError(k)


RAT = re.compile(r"^-?\d+/\d+$")


def canon(v: t.Any) -> t.Any:
    """canonical cell: ints, bools, None, tagged strings; floats and 'num/den' texts become reduced fractions"""
    if isinstance(v, dict) and "s" in v:
        if RAT.match(v["s"]):
            f = Fraction(v["s"])
            return f.numerator if f.denominator == 1 else {"q": [f.numerator, f.denominator]}
        return v
    if isinstance(v, bool) or v is None or isinstance(v, int):
        return v
    if isinstance(v, float):
        f = Fraction(v).limit_denominator(10**6)
        return f.numerator if f.denominator == 1 else {"q": [f.numerator, f.denominator]}
    if isinstance(v, str):
        return {"s": v}
    try:
        from decimal import Decimal

        if isinstance(v, Decimal):
            f = Fraction(v)
            return f.numerator if f.denominator == 1 else {"q": [f.numerator, f.denominator]}
    except Exception:
        pass
    raise TypeError(f"unsupported value {v!r}")


def run_impl(c: dict) -> dict:
    from sqlframe.duckdb import functions as F

    try:
        df = X.make_df(session(), {n: ty for n, ty in c["schema"]}, c["rows"])
        for s in c["steps"]:
            df = apply_step(df, s, F)
        cols = list(df.columns)
        rows = [[canon(v) for v in r] for r in df.collect()]
        return {"cols": cols, "rows": rows}
    except Exception as e:  # noqa
        return {"err": f"{type(e).__name__}: {str(e)[:300]}"}


def canon_table(t_: dict) -> dict:
    return {"cols": t_["cols"], "rows": [[canon(v) for v in r] for r in t_["rows"]]}


def same(a: dict, b: dict) -> bool:
    if "err" in a or "err" in b:
        return False
    return a["cols"] == b["cols"] and bag(a["rows"]) == bag(b["rows"])


def engine_rejects(impl: dict) -> bool:
    """error enum: the engine refused to bind the statement (the only error the model predicts)"""
    return "err" in impl and impl["err"].startswith("BinderException")


def evaluate(cases: t.List[dict], workers: int = 0, driver_only: t.Optional[t.List[dict]] = None, driver_only_outs: t.Optional[list] = None) -> t.List[dict]:
    """`driver_only`: further programs sent to the Lean driver in the same invocation (not run on the implementation);
    their outputs are appended to `driver_only_outs`"""
    extra = driver_only or []
    outs = vlib.run_driver("C06", [case_to_lean(i, c) for i, c in enumerate(cases + extra)])
    if driver_only_outs is not None:
        driver_only_outs.extend(outs[len(cases):])
    outs = outs[: len(cases)]
    impls = vlib.parallel_map(run_impl, cases, workers)
    res = []
    for c, o, impl in zip(cases, outs, impls):
        if "err" in o:
            raise RuntimeError(f"driver rejected a case: {o}")
        model, spec = canon_table(o["model"]), canon_table(o["spec"])
        res.append(
            {
                "case": c,
                "impl": impl,
                "model": model,
                "spec": spec,
                "scope": o["scope"],
                "wf": o["wf"],
                "model_err": bool(o.get("modelErr")),
                "impl_eq_model": engine_rejects(impl) if o.get("modelErr") else same(impl, model),
                "impl_eq_spec": same(impl, spec),
            }
        )
    return res


# ------------------------------------------------------------------------------------------------
# the generated decisions vs the running code
# ------------------------------------------------------------------------------------------------


# mirrored in lean/Driver/C06.lean `keyClassProbes` (same order)
KEY_CLASS_PROBES: t.List[t.Any] = [
    ("lit", "a"), ("lit", ""), ("lit", 1), ("lit", 0), ("lit", -1), ("lit", True), ("lit", False), ("lit", None),
    ("col", "k"), ("bin", "add", ("lit", 1), ("lit", 1)), ("bin", "add", ("col", "k"), ("lit", 1)), ("bin", "gt", ("col", "k"), ("lit", 0)),
    ("isNull", ("col", "k")), ("neg", ("col", "k")), ("not", ("bin", "gt", ("col", "k"), ("lit", 0))),
    ("ite", ("bin", "gt", ("col", "k"), ("lit", 0)), ("lit", 1), ("lit", 2)),
]


def exercise_gen(ctx: Ctx) -> t.Dict[str, t.Any]:
    from sqlframe.base.dataframe import BaseDataFrame
    from sqlframe.base.group import _BaseGroupedData
    from sqlframe.base.operations import Operation
    from sqlframe.duckdb import functions as F

    gen = vlib.run_driver("C06", [{"gen": True}])[0]
    problems: t.List[str] = []
    s = session()
    df = X.make_df(s, {"k": "int", "x": "int", "y": "int"}, [[1, 2, 3], [1, None, 4], [None, 5, None]])
    table = dict(gen["shortcutTable"])
    live = sorted(m for m in dir(_BaseGroupedData) if not m.startswith("_") and m not in ("agg", "pivot", "count", "session", "last_op", "group_by_cols"))
    if sorted(table) != live:
        problems.append(f"Gen.shortcutTable lists {sorted(table)} but the class has {live}")
    for m, fn in table.items():
        try:
            cols = getattr(df.groupBy("k"), m)("x", "y").columns
        except Exception as e:  # noqa
            problems.append(f"shortcut {m} raised {type(e).__name__}")
            continue
        want = ["k"] + [gen["shortcutAliasExample"].replace("FN", fn).replace("COL", c) for c in ("x", "y")]
        if cols != want:
            problems.append(f"Gen says {m}('x','y') is named {want} but the running code gives {cols}")
    ccols = df.groupBy("k").count()
    if ccols.columns != ["k", gen["countAlias"]] or bag(ccols.collect()) != bag([(1, 2), (None, 1)]) or not gen["countArgIsStar"]:
        problems.append(f"Gen.countAlias/countArgIsStar = {gen['countAlias']}/{gen['countArgIsStar']} but count() gives {ccols.columns} {ccols.collect()}")
    # cube's grouping sets as the running code enumerates them (indices into the key list)
    gd = df.cube("k", "x", "y")
    live_sets = [[["k", "x", "y"].index(col.alias_or_name) for col in st] for st in gd.group_by_cols]
    if live_sets != gen["cubeSets3"]:
        problems.append(f"Gen.cubeSets on 3 keys = {gen['cubeSets3']} but the running code enumerates {live_sets}")

    # which classes of key expression reach GROUP BY / the tuple of a grouping set, and the class of a key expression
    from sqlglot import exp as sg

    def live_class(ce: t.Any) -> str:
        if isinstance(ce, sg.Literal):
            return "strLit" if ce.is_string else "numLit"
        for cls, nm in ((sg.Boolean, "boolLit"), (sg.Null, "nullLit"), (sg.Column, "column")):
            if isinstance(ce, cls):
                return nm
        return "other"

    got = [c.split(".")[-1] for c in gen["keyClassProbes"]]
    want = [live_class(X.to_column(e, F).alias("z").column_expression) for e in KEY_CLASS_PROBES]
    if got != want:
        bad = [(X.show(e), g, w) for e, g, w in zip(KEY_CLASS_PROBES, got, want) if g != w] or [("probe lists differ in length", len(got), len(want))]
        problems.append(f"Impl keyClass disagrees with sqlglot's class of the key expression: {bad[:3]}")
    reps = {"strLit": ("lit", "a"), "numLit": ("lit", 1), "boolLit": ("lit", True), "nullLit": ("lit", None), "column": ("col", "k"), "other": ("bin", "add", ("col", "k"), ("lit", 1))}
    for table_name, build in (("groupByKeeps", lambda key: df.groupBy(key)), ("groupingSetKeeps", lambda key: df.cube(key))):
        tab = {c.split(".")[-1]: v == "true" for c, v in gen[table_name]}
        if sorted(tab) != sorted(reps):
            problems.append(f"Gen.{table_name} lists classes {sorted(tab)}")
            continue
        for cls, e in reps.items():
            try:
                grp = build(X.to_column(e, F).alias("z")).agg(F.count("*").alias("n")).expression.args.get("group")
                if table_name == "groupByKeeps":
                    live_keeps = bool(grp and grp.expressions)
                else:
                    first = grp.args["grouping_sets"][0].expressions[0]  # the full key set comes first
                    live_keeps = bool(first.expressions)
            except Exception as ex:  # noqa
                problems.append(f"{table_name}: building the statement for a {cls} key raised {type(ex).__name__}")
                continue
            if live_keeps != tab[cls]:
                problems.append(f"Gen.{table_name} {cls} = {tab[cls]} but the running code {'keeps' if live_keeps else 'drops'} such a key")

    def tag_of(txt: str) -> t.Optional[str]:
        m = re.search(r"Op\.(\w+)", txt)
        return OP_NAMES.get(m.group(1)) if m else None

    after_agg = df.groupBy("k").agg(F.count("*").alias("c"))
    if getattr(Operation, tag_of(gen["groupAggTag"]) or "NO_OP") != after_agg.last_op:
        problems.append(f"Gen.groupAggTag = {gen['groupAggTag']} but last_op after agg is {after_agg.last_op!r}")
    if (tag_of(gen["cubeTag"]) is None) != (not hasattr(BaseDataFrame.cube, "__wrapped__")):
        problems.append(f"Gen.tag_cube = {gen['cubeTag']} but cube is {'decorated' if hasattr(BaseDataFrame.cube, '__wrapped__') else 'undecorated'}")
    for pb in problems[:3]:
        ctx.broken.append("translator vs running code: " + pb)
    return {"gen_shortcut_table": gen["shortcutTable"], "gen_cube_sets_3": gen["cubeSets3"], "gen_group_by_keeps": gen["groupByKeeps"], "gen_grouping_set_keeps": gen["groupingSetKeeps"], "gen_problems": len(problems)}


# ------------------------------------------------------------------------------------------------
# comparison C: PySpark vs the specification (recorded; live JVM in the thorough tier)
# ------------------------------------------------------------------------------------------------


def oracle_cases() -> t.List[dict]:
    if not os.path.exists(ORACLE):
        return []
    return json.load(open(ORACLE))["cases"]


def spec_vs_pyspark(ctx: Ctx, cases: t.List[dict], answers: t.List[dict], what: str, outs: t.Optional[list] = None) -> t.Tuple[int, int]:
    """the Lean specification must reproduce what PySpark returned for every program"""
    if outs is None:
        outs = vlib.run_driver("C06", [case_to_lean(i, c) for i, c in enumerate(cases)])
    bad = []
    for c, o, a in zip(cases, outs, answers):
        if "err" in o or not (o.get("wf") or c.get("dup")):
            bad.append((c, a, o))
            continue
        if not same(canon_table(o["spec"]), a):  # PySpark's rows were canonicalised when they were recorded
            bad.append((c, a, o["spec"]))
    if bad:
        c, a, got = bad[0]
        ctx.broken.append(f"comparison C: the specification differs from {what} PySpark on {len(bad)} of {len(cases)} programs, first: {show_case(c)} pyspark={json.dumps(a)[:200]} spec={json.dumps(got)[:200]}")
    return len(cases), len(cases) - len(bad)


def live_pyspark(cases: t.List[dict], timeout: int = 900) -> t.Optional[t.List[dict]]:
    script = os.path.join(vlib.VERIF, "tools", "oracle", "mk_c06_pyspark.py")
    env = dict(os.environ, PYSPARK_PYTHON="/venv/bin/python")
    try:
        p = subprocess.run(["/venv/bin/python", script, "--stdin"], input=json.dumps(cases), capture_output=True, text=True, timeout=timeout, env=env)
        if p.returncode != 0:
            log("live PySpark failed:", p.stderr[-400:])
            return None
        return json.loads(p.stdout.strip().split("\n")[-1])
    except Exception as e:  # noqa
        log("live PySpark unavailable:", e)
        return None


# ------------------------------------------------------------------------------------------------
# shrinking
# ------------------------------------------------------------------------------------------------


def shrink(c: dict, failing: t.Callable[[dict], bool], rounds: int = 25) -> dict:
    best = c
    for _ in range(rounds):
        cands = [dict(best, steps=best["steps"][:i] + best["steps"][i + 1 :]) for i in range(len(best["steps"])) if len(best["steps"]) > 1]
        cands += [dict(best, rows=best["rows"][:i] + best["rows"][i + 1 :]) for i in range(len(best["rows"]))]
        for i, s in enumerate(best["steps"]):
            for fld in ("aggs", "keys", "cols"):
                if fld in s and len(s[fld]) > (0 if fld == "keys" and s["k"] != "cube" else 1):
                    for j in range(len(s[fld])):
                        s2 = dict(s, **{fld: s[fld][:j] + s[fld][j + 1 :]})
                        cands.append(dict(best, steps=best["steps"][:i] + [s2] + best["steps"][i + 1 :]))
        if not cands:
            break
        res = evaluate(cands, workers=1)
        nxt = next((r["case"] for r in res if r["wf"] and failing(r)), None)
        if nxt is None:
            break
        best = nxt
    return best


# ------------------------------------------------------------------------------------------------
# the check
# ------------------------------------------------------------------------------------------------


def known_entries() -> t.Dict[str, dict]:
    known = {e["id"]: e for e in vlib.known_findings(ID)}
    extra = os.path.join(os.path.dirname(os.path.abspath(__file__)), "c06.known.json")
    if os.path.exists(extra):
        for e in json.load(open(extra)).get("findings", []):
            if e.get("property") == ID and e.get("status") == "open":
                known.setdefault(e["id"], e)
    return known


def hand_cases() -> t.List[dict]:
    sch = [["k", "int"], ["x", "int"], ["s", "str"]]
    rows = [[1, 2, "a"], [1, None, "b"], [None, 5, None], [None, 6, "a"], [2, None, None], [1, 2, "a"]]
    K = [["k", ("col", "k"), "name"]]
    cnt = ["c", ("agg", "countStar", ("lit", 1))]
    allf = [[f"a{i}", ("agg", fn, ("col", "x") if fn != "countStar" else ("lit", 1))] for i, fn in enumerate(FNS)]
    out = []
    for rws in (rows, []):
        out.append({"schema": sch, "rows": rws, "steps": [{"k": "groupAgg", "keys": K, "aggs": allf}]})
        out.append({"schema": sch, "rows": rws, "steps": [{"k": "groupAgg", "keys": [], "aggs": allf}]})
        out.append({"schema": sch, "rows": rws, "steps": [{"k": "dfAgg", "aggs": allf}]})
        out.append({"schema": sch, "rows": rws, "steps": [{"k": "count", "keys": K}]})
        out.append({"schema": sch, "rows": rws, "steps": [{"k": "count", "keys": []}]})
        for m in SHORTCUTS:
            out.append({"schema": sch, "rows": rws, "steps": [{"k": "shortcut", "keys": K, "m": m, "cols": ["x"]}]})
        out.append({"schema": sch, "rows": rws, "steps": [{"k": "groupAgg", "keys": [["kk", ("bin", "add", ("col", "k"), ("lit", 1)), "expr"]], "aggs": [cnt]}]})
        out.append({"schema": sch, "rows": rws, "steps": [{"k": "groupAgg", "keys": K, "aggs": [["m", ("agg", "max", ("col", "s"))], ["d", ("agg", "countDistinct", ("col", "s"))], ["n", ("agg", "count", ("col", "s"))]]}]})
    out.append({"schema": sch, "rows": rows, "steps": [{"k": "cube", "keys": [["k", ("col", "k"), "name"], ["s", ("col", "s"), "col"]], "aggs": [["count", ("agg", "countStar", ("lit", 1))]], "via_count": True}]})
    out.append({"schema": sch, "rows": rows, "steps": [{"k": "cube", "keys": K, "aggs": [["t", ("agg", "sum", ("col", "x"))], cnt]}]})
    # as a step: select before, where / select / re-aggregation after
    out.append({"schema": sch, "rows": rows, "steps": [{"k": "select", "items": [["y", ("bin", "add", ("col", "x"), ("lit", 1))], ["k", ("col", "k")]]}, {"k": "shortcut", "keys": K, "m": "sum", "cols": ["y"]}]})
    out.append({"schema": sch, "rows": rows, "steps": [{"k": "groupAgg", "keys": K, "aggs": [["t", ("agg", "sum", ("col", "x"))]]}, {"k": "where", "p": ("bin", "gt", ("col", "t"), ("lit", 2))}]})
    out.append({"schema": sch, "rows": rows, "steps": [{"k": "where", "p": ("bin", "gt", ("col", "x"), ("lit", 2))}, {"k": "groupAgg", "keys": K, "aggs": [cnt]}]})
    out.append({"schema": sch, "rows": rows, "steps": [{"k": "groupAgg", "keys": [["k", ("col", "k"), "name"], ["s", ("col", "s"), "name"]], "aggs": [cnt]}, {"k": "groupAgg", "keys": K, "aggs": [["t", ("agg", "sum", ("col", "c"))], ["n", ("agg", "countStar", ("lit", 1))]]}]})
    # an aliased expression key whose alias is the name of an input column (several raw values per bucket)
    for al in ("k", "x", "kk"):
        bk = [[al, ("bin", "mul", ("col", "k"), ("lit", 0)), "expr"]]
        out.append({"schema": sch, "rows": rows, "steps": [{"k": "groupAgg", "keys": bk, "aggs": [cnt, ["t", ("agg", "sum", ("col", "k"))]]}]})
        out.append({"schema": sch, "rows": rows, "steps": [{"k": "count", "keys": bk}]})
    # count_distinct over several columns: rows with a NULL in *some* argument must be skipped
    psch = [["k", "int"], ["s", "str"], ["w", "str"], ["x", "int"]]
    prows = [[1, "ann", "tea", 1], [1, "ann", "tea", 2], [1, "ann", None, 1], [1, None, "tea", None], [1, "bob", "tea", 1],
             [2, None, None, None], [2, "cy", None, 3], [None, "dan", "jam", 1], [None, "dan", "jam", 1], [None, None, "jam", None]]
    pairs = [["p", ("cdn", [("col", "s"), ("col", "w")])], ["q", ("cdn", [("col", "s"), ("col", "x"), ("col", "w")])],
             ["d", ("agg", "countDistinct", ("col", "s"))], cnt]
    for rws in (prows, []):
        out.append({"schema": psch, "rows": rws, "steps": [{"k": "dfAgg", "aggs": pairs}]})
        out.append({"schema": psch, "rows": rws, "steps": [{"k": "groupAgg", "keys": K, "aggs": pairs}]})
        out.append({"schema": psch, "rows": rws, "steps": [{"k": "groupAgg", "keys": K, "aggs": [["z", ("abin", "sub", ("agg", "countStar", ("lit", 1)), ("cdn", [("col", "s"), ("col", "w")]))]]}]})
    out.append({"schema": psch, "rows": prows, "steps": [{"k": "cube", "keys": K, "aggs": pairs}]})
    out.append({"schema": psch, "rows": prows, "steps": [{"k": "groupAgg", "keys": K, "aggs": pairs}, {"k": "where", "p": ("bin", "eq", ("col", "p"), ("lit", 0))}]})
    out.append({"schema": psch, "rows": prows, "steps": [{"k": "groupAgg", "keys": K, "aggs": pairs}, {"k": "dfAgg", "aggs": [["t", ("agg", "sum", ("col", "p"))], ["m", ("agg", "max", ("col", "q"))]]}]})
    # reuse of the receiver after a grouped call (receiver's last operation: where / none / select)
    W = {"k": "where", "p": ("not", ("isNull", ("col", "x")))}
    cube_cnt = {"k": "cube", "keys": K, "aggs": [["count", ("agg", "countStar", ("lit", 1))]], "via_count": True}
    cube_sum = {"k": "cube", "keys": K, "aggs": [["t", ("agg", "sum", ("col", "x"))]]}
    for pre in ([W], [], [{"k": "select", "items": [["k", ("col", "k")], ["x", ("col", "x")]]}]):
        for side in (cube_cnt, cube_sum, {"k": "groupAgg", "keys": K, "aggs": [cnt]}):
            for coll in (True, False):
                sd = {"k": "side", "op": side, "collect": coll}
                out.append({"schema": sch, "rows": rows, "steps": pre + [sd, {"k": "dfAgg", "aggs": [["t", ("agg", "sum", ("col", "x"))], cnt]}]})
                out.append({"schema": sch, "rows": rows, "steps": pre + [sd, {"k": "count", "keys": []}]})
                out.append({"schema": sch, "rows": rows, "steps": pre + [sd, {"k": "groupAgg", "keys": K, "aggs": [["t", ("agg", "sum", ("col", "x"))]]}]})
                out.append({"schema": sch, "rows": rows, "steps": pre + [sd]})
    # case-preserving column names through every shortcut and the dict form
    csch = [["Dept", "int"], ["Amount", "int"], ["b", "str"]]
    crows = [[1, 10, "x"], [1, None, "y"], [None, 5, "x"], [2, 7, "y"]]
    DK = [["Dept", ("col", "Dept"), "name"]]
    for m in SHORTCUTS:
        out.append({"schema": csch, "rows": crows, "steps": [{"k": "shortcut", "keys": DK, "m": m, "cols": ["Amount"]}]})
        out.append({"schema": csch, "rows": crows, "steps": [{"k": "shortcut", "keys": [], "m": m, "cols": ["Amount", "Dept"]}]})
        if m != "mean":
            out.append({"schema": csch, "rows": crows, "steps": [{"k": "shortcut", "keys": DK, "m": m, "cols": ["Amount"], "dict": m.upper()}]})
    out.append({"schema": csch, "rows": crows, "steps": [{"k": "count", "keys": DK}]})
    out.append({"schema": csch, "rows": crows, "steps": [{"k": "groupAgg", "keys": DK, "aggs": [["Total", ("agg", "sum", ("col", "Amount"))]]}]})
    for c in out:
        c["origin"] = "hand"
    return out


def const_key_cases() -> t.List[dict]:
    """bounded-exhaustive: every shape of constant key set x every grouping operation x non-empty / empty input, and the
    result re-aggregated (the number of groups).  A constant key never splits the rows, but the aggregate stays grouped:
    no row over an empty input."""
    sch = [["k", "int"], ["x", "int"], ["s", "str"]]
    rows = [[1, 2, "a"], [1, None, "b"], [None, 5, None], [2, None, "a"]]
    cnt = ["n", ("agg", "countStar", ("lit", 1))]
    tot = ["t", ("agg", "sum", ("col", "x"))]

    def C(alias: str, e: t.Any) -> list:
        return [alias, e, "expr"]

    consts = [("lit", "all"), ("lit", ""), ("lit", True), ("lit", None), ("bin", "add", ("lit", 1), ("lit", 1)), ("lit", 1), ("lit", 7)]
    keysets = [[C("c0", e)] for e in consts]
    keysets += [[C("c0", ("lit", "all")), C("c1", ("lit", True))], [C("c0", ("lit", "all")), C("c1", ("lit", 2))], [C("c0", ("lit", 2)), C("c1", ("lit", 1))]]
    keysets += [[["k", ("col", "k"), "name"], C("c0", e)] for e in (("lit", "all"), ("lit", None), ("lit", 2), ("lit", 3))]
    keysets += [[C("c0", e), ["k", ("col", "k"), "col"]] for e in (("lit", "all"), ("lit", 1), ("lit", 2))]
    none_left = {"k": "where", "p": ("bin", "gt", ("col", "x"), ("lit", 100))}
    regroup = {"k": "dfAgg", "aggs": [["groups", ("agg", "countStar", ("lit", 1))], ["m", ("agg", "max", ("col", "n"))]]}
    out = []
    for keys in keysets:
        ops = [
            {"k": "groupAgg", "keys": keys, "aggs": [cnt, tot]},
            {"k": "count", "keys": keys},
            {"k": "shortcut", "keys": keys, "m": "max", "cols": ["x"]},
            {"k": "cube", "keys": keys, "aggs": [cnt]},
        ]
        for op in ops:
            for rws in (rows, []):
                out.append({"schema": sch, "rows": rws, "steps": [op]})
        out.append({"schema": sch, "rows": rows, "steps": [none_left, ops[0]]})
        for rws in (rows, []):
            out.append({"schema": sch, "rows": rws, "steps": [ops[0], regroup]})
    for c in out:
        c["origin"] = "const-keys"
    return out


def dup_cases(rng: random.Random, n_random: int) -> t.List[dict]:
    """repeated entries in key lists and aggregate lists: the same aggregate twice (same alias), the same function under one
    alias twice with another one in between, a shortcut with a repeated column, the same key twice (name/name, name/F.col,
    the same aliased expression or constant twice) — PySpark keeps every entry, so the output has one column per entry, in the
    order given (checked on the live JVM; recorded in tools/oracle/c06_pyspark.json).  Such outputs have duplicate column
    names, which is outside the model's well-formedness (name-based lookup); these programs are therefore compared
    implementation vs specification only, end with the grouping operation, and never use cube with a repeated *key*
    (see the report: cube de-duplicates its keys on the pinned tree) nor cube over an empty input (H_cubeEmptyInput)."""
    sch = [["k", "int"], ["x", "int"], ["s", "str"]]
    rows = [[1, 10, "a"], [1, None, "b"], [2, 5, "a"], [None, 7, "a"], [None, None, None]]
    K = [["k", ("col", "k"), "name"]]
    sm = ["a", ("agg", "sum", ("col", "x"))]
    cn = ["c", ("agg", "count", ("col", "x"))]
    cnt = ["n", ("agg", "countStar", ("lit", 1))]
    out: t.List[dict] = []
    ops = [
        {"k": "groupAgg", "keys": K, "aggs": [sm, cn, sm]},
        {"k": "groupAgg", "keys": K, "aggs": [sm, sm]},
        {"k": "groupAgg", "keys": K, "aggs": [sm, ["a", ("agg", "count", ("col", "x"))]]},
        {"k": "groupAgg", "keys": K, "aggs": [cnt, cnt, cnt]},
        {"k": "groupAgg", "keys": [], "aggs": [["m", ("agg", "max", ("col", "x"))], ["m", ("agg", "max", ("col", "x"))]]},
        {"k": "dfAgg", "aggs": [["m", ("agg", "max", ("col", "x"))], cn, ["m", ("agg", "max", ("col", "x"))]]},
        {"k": "dfAgg", "aggs": [cnt, cnt]},
        {"k": "shortcut", "keys": K, "m": "sum", "cols": ["x", "x"]},
        {"k": "shortcut", "keys": K, "m": "mean", "cols": ["x", "k", "x"]},
        {"k": "shortcut", "keys": [], "m": "max", "cols": ["x", "x"]},
        {"k": "count", "keys": K + K},
        {"k": "count", "keys": K + [["k", ("col", "k"), "col"]]},
        {"k": "groupAgg", "keys": K + [["s", ("col", "s"), "name"]] + K, "aggs": [sm]},
        {"k": "shortcut", "keys": K + K, "m": "min", "cols": ["x"]},
        {"k": "count", "keys": [["c", ("lit", "x"), "expr"], ["c", ("lit", "x"), "expr"]]},
        {"k": "groupAgg", "keys": [["kk", ("bin", "add", ("col", "k"), ("lit", 1)), "expr"]] * 2, "aggs": [sm, sm]},
        {"k": "cube", "keys": K, "aggs": [sm, sm]},
        {"k": "cube", "keys": K + [["s", ("col", "s"), "col"]], "aggs": [cnt, sm, cnt]},
    ]
    pre = {"k": "where", "p": ("not", ("isNull", ("col", "x")))}
    for op in ops:
        for rws in (rows, []):
            if op["k"] == "cube" and not rws:
                continue
            out.append({"schema": sch, "rows": rws, "steps": [copy.deepcopy(op)]})
        out.append({"schema": sch, "rows": rows, "steps": [pre, copy.deepcopy(op)]})
    tmp: t.Dict[str, t.Any] = {"ops": {}, "fns": {}, "key_styles": {}, "post": {"where": 0, "select": 0, "group": 0}}
    made = 0
    for _ in range(n_random * 20):
        if made >= n_random:
            break
        schema, rws = gen_table(rng)
        steps: t.List[dict] = []
        if rng.random() < 0.4:
            steps.append(gen_where(rng, schema))
        op, _ = gen_group(rng, schema, tmp)
        if any(is_int_lit(k[1]) for k in op.get("keys", [])) or (op["k"] == "cube" and (not rws or steps)) or op.get("dict"):
            continue
        op = copy.deepcopy(op)
        choices = [f for f in ("aggs", "cols") if op.get(f)] + (["keys"] if op.get("keys") and op["k"] != "cube" else [])
        if not choices:
            continue
        for fld in rng.sample(choices, rng.randint(1, len(choices))):
            lst = op[fld]
            lst.insert(rng.randint(0, len(lst)), copy.deepcopy(rng.choice(lst)))
        if op["k"] == "cube":
            op["via_count"] = False
        out.append({"schema": [list(x) for x in schema], "rows": rws, "steps": steps + [op]})
        made += 1
    for c in out:
        c["origin"] = "repeated-entries"
        c["dup"] = True
    return out


def cases_for(ctx: Ctx, stats: dict) -> t.List[dict]:
    cases: t.List[dict] = []
    corpus_dir = os.path.join(vlib.VERIF, "corpus", ID)
    if os.path.isdir(corpus_dir):
        for fn in sorted(os.listdir(corpus_dir)):
            if fn.endswith(".json"):
                c = json.load(open(os.path.join(corpus_dir, fn)))
                c = c.get("case", c)
                c["origin"] = "corpus:" + fn
                cases.append(c)
    cases += hand_cases()
    cases += const_key_cases()
    n = 4000 if ctx.thorough else 600
    for _ in range(n):
        c = gen_case(ctx.rng, stats)
        c["origin"] = "random"
        cases.append(c)
    return cases


def is_known(r: dict, known: t.Dict[str, dict]) -> bool:
    """a failing case is excused only if the model predicts exactly what the implementation did, every violated scope
    hypothesis is an open known finding, and the failure is of the kind the hypothesis describes: outside cube an integer
    literal key makes the engine reject the statement (it never changes the rows silently)"""
    if not (bool(r["scope"]) and all(h in known for h in r["scope"]) and r["impl_eq_model"]):
        return False
    if r["scope"] == ["H_intLiteralKey"]:
        cube_with_int = any(s["k"] == "cube" and any(is_int_lit(k[1]) for k in s["keys"]) for s in r["case"]["steps"])
        return cube_with_int or engine_rejects(r["impl"])
    return True


def run(ctx: Ctx) -> None:
    idx = vlib.props_index()[ID]
    vlib.prove(ctx, MODULES, GEN, idx["theorems"], SOURCES)
    known = known_entries()

    try:
        gen_cov = exercise_gen(ctx)
    except Exception as e:  # noqa
        gen_cov = {"gen_problems": f"not run: {type(e).__name__}: {str(e)[:200]}"}
        ctx.broken.append(f"translator vs running code: could not be exercised ({type(e).__name__}: {str(e)[:120]})")

    stats: t.Dict[str, t.Any] = {"ops": {}, "fns": {}, "key_styles": {}, "post": {"where": 0, "select": 0, "group": 0}}
    cases = cases_for(ctx, stats)
    oc = oracle_cases()
    oc_outs: t.List[dict] = []
    dup = dup_cases(ctx.rng, 400 if ctx.thorough else 60)
    res_all = evaluate(cases + dup, driver_only=oc, driver_only_outs=oc_outs)
    res = [r for r in res_all if not r["case"].get("dup")]
    dup_res = [r for r in res_all if r["case"].get("dup")]

    # comparison C: the specification against PySpark's recorded answers; thorough: against the live JVM as well
    n_oracle = n_oracle_ok = n_live = n_live_ok = 0
    if not oc:
        ctx.broken.append("comparison C: PySpark oracle file tools/oracle/c06_pyspark.json missing or empty")
    else:
        n_oracle, n_oracle_ok = spec_vs_pyspark(ctx, oc, [c["pyspark"] for c in oc], "recorded", outs=oc_outs)
    if ctx.thorough:
        plain_case = lambda c: {"schema": c["schema"], "rows": c["rows"], "steps": c["steps"]}  # noqa: E731
        rnd = [c for c in cases if c.get("origin") == "random"]
        consty = [c for c in rnd if any(key_style(k) in ("const", "intlit") for s in c["steps"] for k in s.get("keys", []))]
        sample = [plain_case(c) for c in const_key_cases()[::2] + consty[:60] + rnd[:60]] + [dict(plain_case(c), dup=True) for c in dup[:100]]
        answers = live_pyspark(sample)
        if answers is None:
            log("C06: live PySpark not available; the recorded answers stand in")
        else:
            n_live, n_live_ok = spec_vs_pyspark(ctx, sample, answers, "live")

    not_wf = [r for r in res if not r["wf"]]
    if not_wf:
        log(f"C06: {len(not_wf)} generated programs are not PySpark-valid (generator bug); first: {show_case(not_wf[0]['case'])}")
        ctx.broken.append(f"generator produced {len(not_wf)} programs outside GStepsWF")
    res = [r for r in res if r["wf"]]

    model_mismatch = [r for r in res if not r["impl_eq_model"]]
    spec_mismatch = [r for r in res if not r["impl_eq_spec"]]
    new_viol = []
    for r in spec_mismatch:
        if is_known(r, known):
            for h in r["scope"]:
                vlib.report_known(ctx, known[h], known[h]["summary"])
        else:
            new_viol.append(r)
    # repeated entries: implementation vs specification only (duplicate output names are outside the model's domain)
    dup_viol = [r for r in dup_res if not r["impl_eq_spec"]]
    new_viol += dup_viol
    for h, e in known.items():
        ws = [w for kk, w in e.items() if kk.startswith("witness") and isinstance(w, dict) and "steps" in w]
        if ws and any(not r["impl_eq_spec"] for r in evaluate(ws, workers=1)):
            vlib.report_known(ctx, e, e["summary"])
    if model_mismatch:
        ctx.broken.append(f"correspondence stream A (implementation vs Impl/C06Group.lean): {len(model_mismatch)} of {len(res)} cases differ")

    reported = 0
    seen: t.Set[str] = set()
    for r in sorted(new_viol, key=lambda r: (len(r["case"]["steps"]), len(r["case"]["rows"]))):
        if reported >= 3:
            break
        c = r["case"] if r["case"].get("dup") else shrink(r["case"], lambda rr: (not rr["impl_eq_spec"]) and not is_known(rr, known))
        shape = ".".join(show_step(s) for s in c["steps"])
        if shape in seen:
            continue
        seen.add(shape)
        rr = evaluate([c], workers=1)[0]
        vlib.report_violation(
            ctx,
            {
                "kind": "implementation differs from PySpark's grouping/aggregation specification",
                "program": show_case(c),
                "case": c,
                "implementation": rr["impl"],
                "specification": rr["spec"],
                "model": rr["model"],
                "violated_scope_hypotheses": rr["scope"],
                "broken": ctx.broken,
            },
        )
        reported += 1
    if ctx.broken and not reported:
        mm = None
        if model_mismatch:
            m0 = min(model_mismatch, key=lambda r: (len(r["case"]["steps"]), len(r["case"]["rows"])))
            mm = {"program": show_case(m0["case"]), "case": m0["case"], "implementation": m0["impl"], "model": m0["model"]}
        vlib.report_violation(
            ctx,
            {
                "kind": "proof obligation or correspondence no longer checks; no failing input found",
                "broken": ctx.broken,
                "searched": {"cases": len(res), "ops": stats["ops"]},
                "first_model_mismatch": mm,
            },
            no_input=True,
        )

    nontrivial = set()
    n_empty = n_err = n_allnull = 0
    lens: t.Dict[str, int] = {}
    for r in res:
        c = r["case"]
        n_empty += not c["rows"]
        n_err += "err" in r["impl"]
        lens[str(len(c["steps"]))] = lens.get(str(len(c["steps"])), 0) + 1
        if "err" not in r["impl"]:
            n_allnull += any(any(v is None for v in row[1:]) for row in r["impl"]["rows"])
            if r["impl"]["rows"]:
                nontrivial.add(vlib.digest([c["steps"], c["rows"]]))
    ctx.cov.update(
        {
            "evaluations": len(res),
            "distinct_nontrivial": len(nontrivial),
            "rule": "corpus, then fixed cases (every aggregate function, every shortcut, count, DataFrame.agg, cube, expression key; each on a "
            "table with NULL keys / all-NULL groups / duplicates and on the empty table; aggregation after select, before where, re-aggregation), "
            "then random chains [where|select]{0,2} · [discarded grouped call on the same object]? · grouping op · [where|select|grouping op]{0,2} with key sets names / F.col / aliased "
            "expressions / empty; non-trivial = distinct (steps, rows) whose implementation result is non-empty",
            "traces_validated_against_impl": sum(r["impl_eq_model"] for r in res),
            "impl_vs_spec_agree": sum(r["impl_eq_spec"] for r in res),
            "out_of_scope_cases": sum(1 for r in res if r["scope"]),
            "implementation_errors": n_err,
            "grouping_op_histogram": stats["ops"],
            "aggregate_function_histogram": stats["fns"],
            "key_style_histogram": stats["key_styles"],
            "steps_after_aggregation": stats["post"],
            "chain_length_histogram": lens,
            "cases_on_empty_table": n_empty,
            "cases_reusing_the_receiver_after_a_grouped_call": sum(1 for r in res if any(s["k"] == "side" for s in r["case"]["steps"])),
            "cases_with_capitalised_column_names": sum(1 for r in res if any(n != n.lower() for n, _ in r["case"]["schema"])),
            "results_with_null_aggregates": n_allnull,
            "programs_with_repeated_keys_or_aggregates": len(dup_res),
            "programs_with_repeated_entries_impl_eq_spec": sum(r["impl_eq_spec"] for r in dup_res),
            "programs_with_repeated_entries_impl_eq_model_not_claimed": sum(r["impl_eq_model"] for r in dup_res),
            "pyspark_recorded_programs": n_oracle,
            "pyspark_recorded_agree_with_spec": n_oracle_ok,
            "pyspark_live_programs": n_live,
            "pyspark_live_agree_with_spec": n_live_ok,
            "cases_with_constant_keys": sum(1 for r in res if any(key_style(k) in ("const", "intlit") for s in r["case"]["steps"] for k in s.get("keys", []))),
            "cases_with_only_constant_keys_on_empty_input": sum(
                1 for r in res if "err" not in r["spec"] and any(s.get("keys") and all(key_style(k) in ("const", "intlit") for k in s["keys"]) for s in r["case"]["steps"]) and not r["spec"]["rows"]
            ),
            "failing_cases_excused_per_known_finding": {h: sum(1 for r in spec_mismatch if h in r["scope"] and is_known(r, known)) for h in known},
            "samples": [{"program": show_case(r["case"]), "result": r["impl"]} for r in res[:: max(1, len(res) // 4)][:4]],
            **gen_cov,
        }
    )
    ctx.assumptions += [
        "DuckDB evaluates a SELECT block with GROUP BY / GROUPING SETS as Impl/C06Group.lean `evalGBlock` / `evalGSBlock` say, and the aggregate functions as `aggVal` says (validated by this stream on every case)",
        "PySpark's meaning of groupBy().agg / shortcuts / DataFrame.agg / cube is `aggSpec` / `cubeSpec`, shortcut names `fn(col)`, `count` (validated against live PySpark 3.5.9 during construction)",
        "avg is an exact rational in the model; the engine's DOUBLE is compared as a fraction with denominator <= 10^6",
        "the open aggregate block after `agg` is represented by its value under an identity projection (later operations either freeze it or append ORDER BY / LIMIT)",
        "an integer constant in GROUP BY / in a grouping set is a 1-based position in the select list (`groupByTerm`): validated on every generated case with an integer-literal key (rejections included); inside GROUPING SETS only for positions that name a column or an integer constant (a position naming another expression is a separate grouping expression in DuckDB: not modelled, not generated)",
        "programs with a repeated key / aggregate / shortcut column (duplicate output names) are compared implementation vs specification vs recorded PySpark only: name-based lookup (`Table.WF`) excludes them from the model and the theorems",
        "multi-column count_distinct counts distinct all-non-NULL tuples (C06_count_distinct_n); not modelled: multi-entry dict form of agg, GROUPING_ID expansion, un-aliased expression keys / aggregates (their *names* belong to C10)",
    ]


def replay(ctx: Ctx, rp: dict) -> None:
    c = rp.get("case")
    if not c:
        print("replay names a broken obligation, not an input:", rp.get("broken"))
        return
    r = evaluate([c], workers=1)[0]
    print(json.dumps({"program": show_case(c), "implementation": r["impl"], "specification": r["spec"], "model": r["model"], "agree": r["impl_eq_spec"]}, indent=1))
    if not r["impl_eq_spec"]:
        vlib.report_violation(ctx, dict(rp, implementation=r["impl"], specification=r["spec"]))
