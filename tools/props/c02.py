"""
C02 — joins return PySpark's rows and PySpark's output column list.

proof      : lean/SqlframeModel/Props/C02.lean over the regenerated Gen.Joins / Gen.JoinMerge (+ Gen.Operations / Gen.Methods / Gen.Clauses)
tie        : Gen/Joins.lean, Gen/JoinMerge.lean regenerated from VERIF_REPO on every run and compared with the live Python objects;
             stream A: real sqlframe + DuckDB  vs  Impl/C02Prog.lean `runImpl`   (same programs, df.columns + collect() bags)
             stream M: the real `_add_ctes_to_expression` vs Impl/C02Ctes.lean `mergeCtes` (names and read-sets of the merged WITH clause)
             stream C: Impl/C02Prog.lean `runSpec` vs PySpark 3.5.9 (recorded in tools/oracle/c02_pyspark.json; live JVM in the thorough tier)
inputs     : joins over independent / common-ancestor / aliased DataFrames and over session.sql statements with user-named CTEs (names that
             clash with different contents); column names that need quoting; select with star arguments after the join
search     : the same programs compare the implementation with the specification directly; a difference is a known
             finding only when the model predicts it and every violated named hypothesis is listed as open
"""
from __future__ import annotations

import ast
import itertools
import json
import os
import random
import subprocess
import sys
import typing as t

import vlib
from vlib import Ctx, bag, log, lval, plain

ID = "C02"
LEVEL = "proof"
MODULES = ["SqlframeModel.Props.C02"]
GEN = ["Joins", "JoinMerge", "Operations", "Methods", "Clauses"]
SOURCES = [
    "SqlframeModel/Props/C02.lean",
    "SqlframeModel/Lemmas/C02.lean",
    "SqlframeModel/Lemmas/C02Ctes.lean",
    "SqlframeModel/Impl/C02Join.lean",
    "SqlframeModel/Impl/C02Prog.lean",
    "SqlframeModel/Impl/C02Ctes.lean",
]
ORACLE = os.path.join(vlib.VERIF, "tools", "oracle", "c02_pyspark.json")
LOCAL_KNOWN = os.path.join(vlib.VERIF, "tools", "props", "c02.known.json")

SPELLINGS = [
    "inner", "cross", "outer", "full", "fullouter", "full_outer", "left", "leftouter", "left_outer",
    "right", "rightouter", "right_outer", "semi", "leftsemi", "left_semi", "anti", "leftanti", "left_anti",
]
KIND_OF = {
    "inner": "inner", "cross": "cross", "outer": "full", "full": "full", "fullouter": "full", "full_outer": "full",
    "left": "left", "leftouter": "left", "left_outer": "left", "right": "right", "rightouter": "right", "right_outer": "right",
    "semi": "semi", "leftsemi": "semi", "left_semi": "semi", "anti": "anti", "leftanti": "anti", "left_anti": "anti",
}


class _KindOf(dict):
    """PySpark reads `how` case-insensitively and ignoring underscores (JoinType.apply)"""

    def __missing__(self, how):
        return dict.__getitem__(self, how.lower().replace("_", ""))


KIND_OF = _KindOf(KIND_OF)


def respell(rng: random.Random, how: str) -> str:
    """a spelling PySpark reads as the same join: random upper-casing, underscores moved / inserted"""
    base = how.replace("_", "")
    out = []
    for i, ch in enumerate(base):
        if i and rng.random() < 0.25:
            out.append("_")
        out.append(ch.upper() if rng.random() < 0.5 else ch)
    s = "".join(out)
    return s if s != how else s.upper()


CAMEL = ["Inner", "CROSS", "Outer", "FULL", "FullOuter", "Full_Outer", "LEFT", "LeftOuter", "Left_Outer", "RIGHT", "RightOuter",
         "RIGHT_OUTER", "Semi", "LeftSemi", "LEFT_SEMI", "Anti", "LeftAnti", "Left_Anti"]
ONE_PER_KIND = ["inner", "cross", "outer", "left", "right", "semi", "anti"]
BIG = 1000

# ------------------------------------------------------------------------------------------------
# programs: {"frames": [frame...]}; a frame refers to earlier frames by index
# ------------------------------------------------------------------------------------------------


def ref_name(c):
    return ["ref", ["name", c]]


def ref_df(f, c):
    return ["ref", ["df", f, c]]


def ref_alias(a, c, as_str=False):
    return ["ref", ["alias", a, c, as_str]]


def lit(v):
    return ["lit", v]


def binop(op, a, b):
    return ["bin", op, a, b]


def base(cols, rows, spell=None):
    """`cols` are the case-folded names every reference uses; `spell` is how the DataFrame is created (default: as folded)"""
    fr = {"op": "base", "cols": list(cols), "rows": [list(r) for r in rows]}
    if spell is not None and list(spell) != list(cols):
        assert [x.lower() for x in spell] == list(cols)
        fr["spell"] = list(spell)
    return fr


def refs_of(e) -> t.List[list]:
    if e[0] == "ref":
        return [e[1]]
    out = []
    for x in e[1:]:
        if isinstance(x, list) and x and isinstance(x[0], str) and x[0] in ("ref", "lit", "bin", "not", "isNull"):
            out += refs_of(x)
    return out


# encoders to the Lean driver -------------------------------------------------------------------


def ref_to_lean(r):
    if r[0] == "name":
        return {"name": {"c": r[1]}}
    if r[0] == "df":
        return {"df": {"f": r[1], "c": r[2]}}
    if r[0] == "alias":
        return {"alias": {"a": r[1], "c": r[2], "asStr": bool(r[3])}}
    raise ValueError(r)


def pexpr_to_lean(e):
    k = e[0]
    if k == "ref":
        return {"ref": {"r": ref_to_lean(e[1])}}
    if k == "lit":
        return {"lit": {"v": lval(e[1])}}
    if k == "bin":
        return {"bin": {"op": e[1], "a": pexpr_to_lean(e[2]), "b": pexpr_to_lean(e[3])}}
    if k in ("not", "isNull"):
        return {k: {"a": pexpr_to_lean(e[1])}}
    raise ValueError(e)


def on_to_lean(on):
    f = on["form"]
    if f == "none":
        return "none"
    if f == "name":
        return {"names": {"ks": [on["k"]]}}
    if f == "names":
        return {"names": {"ks": list(on["ks"])}}
    if f == "expr":
        return {"exprs": {"es": [pexpr_to_lean(on["e"])]}}
    if f == "exprs":
        return {"exprs": {"es": [pexpr_to_lean(e) for e in on["es"]]}}
    raise ValueError(on)


def sitem_to_lean(it):
    k = it[0]
    if k == "col":
        return {"col": {"n": it[1], "disp": it[2], "e": pexpr_to_lean(it[3])}}
    if k == "star":
        return "star"
    if k == "starDf":
        return {"starDf": {"f": it[1]}}
    if k == "starAlias":
        return {"starAlias": {"a": it[1], "asStr": bool(it[2])}}
    raise ValueError(it)


def sqlsel_to_lean(q):
    return {"src": q["src"], "items": [[n, c] for n, c in q["items"]], "wher": pexpr_to_lean(q["where"]) if q.get("where") else None, "inSrc": q.get("in")}


def sqlcte_to_lean(c):
    if "values" in c:
        v = c["values"]
        return {"name": c["name"], "body": {"values": {"t": {"cols": v["cols"], "rows": [[lval(x) for x in r] for r in v["rows"]]}}}}
    return {"name": c["name"], "body": {"sel": {"q": sqlsel_to_lean(c["sel"])}}}


def frame_to_lean(fr):
    op = fr["op"]
    if op == "base":
        tbl = {"cols": fr["cols"], "rows": [[lval(v) for v in r] for r in fr["rows"]]}
        if fr.get("spell"):
            return {"baseSpelled": {"t": tbl, "disp": fr["spell"]}}
        return {"base": {"t": tbl}}
    if op == "where":
        return {"wher": {"src": fr["src"], "p": pexpr_to_lean(fr["p"])}}
    if op == "select":
        return {"select": {"src": fr["src"], "items": [[n, pexpr_to_lean(e)] for n, e in fr["items"]]}}
    if op == "selectS":
        return {"selectS": {"src": fr["src"], "items": [sitem_to_lean(it) for it in fr["items"]]}}
    if op == "sql":
        return {"sqlq": {"ctes": [sqlcte_to_lean(c) for c in fr["ctes"]], "main": sqlsel_to_lean(fr["main"])}}
    if op == "alias":
        return {"alias": {"src": fr["src"], "a": fr["a"]}}
    if op == "join":
        return {"join": {"l": fr["l"], "r": fr["r"], "on": on_to_lean(fr["on"]), "how": fr["how"] if fr.get("how") is not None else "inner"}}
    if op == "crossJoin":
        return {"crossJoin": {"l": fr["l"], "r": fr["r"]}}
    if op == "limit":
        return {"limit": {"src": fr["src"], "n": fr["n"]}}
    if op == "distinct":
        return {"distinct": {"src": fr["src"]}}
    raise ValueError(fr)


def case_to_lean(i: int, c: dict) -> dict:
    return {"case": i, "prog": [frame_to_lean(f) for f in c["frames"]]}


# pretty printer ---------------------------------------------------------------------------------


def show_ref(r):
    if r[0] == "name":
        return f"col({r[1]!r})"
    if r[0] == "df":
        return f"f{r[1]}[{r[2]!r}]"
    return repr(f"{r[1]}.{r[2]}") if r[3] else f"col('{r[1]}.{r[2]}')"


def show_pexpr(e):
    k = e[0]
    if k == "ref":
        return show_ref(e[1])
    if k == "lit":
        return f"lit({e[1]!r})"
    if k == "bin":
        sym = {"add": "+", "sub": "-", "mul": "*", "lt": "<", "le": "<=", "gt": ">", "ge": ">=", "eq": "==", "ne": "!=", "and": "&", "or": "|", "nseq": "<=>"}[e[1]]
        return f"({show_pexpr(e[2])} {sym} {show_pexpr(e[3])})"
    if k == "not":
        return f"~{show_pexpr(e[1])}"
    if k == "isNull":
        return f"{show_pexpr(e[1])}.isNull()"
    return str(e)


def show_on(on):
    f = on["form"]
    if f == "none":
        return ""
    if f == "name":
        return repr(on["k"])
    if f == "names":
        return repr(list(on["ks"]))
    if f == "expr":
        return show_pexpr(on["e"])
    return "[" + ", ".join(show_pexpr(e) for e in on["es"]) + "]"


def show_case(c: dict) -> str:
    out = []
    for i, fr in enumerate(c["frames"]):
        op = fr["op"]
        if op == "base":
            s = f"createDataFrame({fr['rows']}, {fr.get('spell') or fr['cols']})"
        elif op == "where":
            s = f"f{fr['src']}.where({show_pexpr(fr['p'])})"
        elif op == "select":
            items = []
            for n, e in fr["items"]:
                items.append(show_pexpr(e) if (e[0] == "ref" and e[1][-2 if e[1][0] == "alias" else -1] == n) else f"{show_pexpr(e)}.alias({n!r})")
            s = f"f{fr['src']}.select({', '.join(items)})"
        elif op == "selectS":
            items = []
            for it in fr["items"]:
                if it[0] == "col":
                    e = it[3]
                    plain_ref = e[0] == "ref" and e[1][-2 if e[1][0] == "alias" else -1] == it[1]
                    if plain_ref and e[1][0] == "name":
                        items.append(repr(it[2]))
                    elif plain_ref and it[2] == it[1]:
                        items.append(show_pexpr(e))
                    else:
                        items.append(f"{show_pexpr(e)}.alias({it[2]!r})")
                elif it[0] == "star":
                    items.append("'*'")
                elif it[0] == "starDf":
                    items.append(f"f{it[1]}['*']")
                else:
                    items.append(repr(f"{it[1]}.*") if it[2] else f"col('{it[1]}.*')")
            s = f"f{fr['src']}.select({', '.join(items)})"
        elif op == "sql":
            s = f"session.sql({sql_text(fr)!r})"
        elif op == "alias":
            s = f"f{fr['src']}.alias({fr['a']!r})"
        elif op == "join":
            args = [f"f{fr['r']}"]
            if fr["on"]["form"] != "none":
                args.append(show_on(fr["on"]))
            if fr.get("how") is not None:
                args.append(("how=" if fr["on"]["form"] == "none" else "") + repr(fr["how"]))
            s = f"f{fr['l']}.join({', '.join(args)})"
        elif op == "crossJoin":
            s = f"f{fr['l']}.crossJoin(f{fr['r']})"
        elif op == "limit":
            s = f"f{fr['src']}.limit({fr['n']})"
        elif op == "distinct":
            s = f"f{fr['src']}.{'dropDuplicates' if fr.get('dd') else 'distinct'}()"
        else:
            s = str(fr)
        out.append(f"f{i} = {s}")
    return "; ".join(out)


# ------------------------------------------------------------------------------------------------
# running a program on a DataFrame implementation (real sqlframe, or PySpark for the oracle)
# ------------------------------------------------------------------------------------------------


def build_col(e, frames, F):
    k = e[0]
    if k == "ref":
        r = e[1]
        if r[0] == "name":
            return F.col(r[1])
        if r[0] == "df":
            return frames[r[1]][r[2]]
        return F.col(f"{r[1]}.{r[2]}")
    if k == "lit":
        return F.lit(e[1])
    if k == "bin":
        a, b = build_col(e[2], frames, F), build_col(e[3], frames, F)
        op = e[1]
        if op == "nseq":
            return a.eqNullSafe(b)
        return {
            "add": lambda: a + b, "sub": lambda: a - b, "mul": lambda: a * b, "lt": lambda: a < b, "le": lambda: a <= b,
            "gt": lambda: a > b, "ge": lambda: a >= b, "eq": lambda: a == b, "ne": lambda: a != b, "and": lambda: a & b, "or": lambda: a | b,
        }[op]()
    if k == "not":
        return ~build_col(e[1], frames, F)
    if k == "isNull":
        return build_col(e[1], frames, F).isNull()
    raise ValueError(e)


def build_on(on, frames, F):
    f = on["form"]
    if f == "name":
        return on["k"]
    if f == "names":
        return list(on["ks"])
    if f == "expr":
        return build_col(on["e"], frames, F)
    if f == "exprs":
        return [build_col(e, frames, F) for e in on["es"]]
    return None


def select_arg(n, e, frames, F):
    if e[0] == "ref":
        r = e[1]
        if r[0] == "name" and r[1] == n:
            return n  # a plain string
        if r[0] == "alias" and r[2] == n:
            return f"{r[1]}.{r[2]}" if r[3] else F.col(f"{r[1]}.{r[2]}")
        if r[0] == "df" and r[2] == n:
            return frames[r[1]][r[2]]
    return build_col(e, frames, F).alias(n)


def sitem_arg(it, frames, F):
    """one argument of select(): a string where the program says so, else a Column"""
    k = it[0]
    if k == "star":
        return "*"
    if k == "starDf":
        return frames[it[1]]["*"]
    if k == "starAlias":
        return f"{it[1]}.*" if it[2] else F.col(f"{it[1]}.*")
    _, n, disp, e = it
    if e[0] == "ref":
        r = e[1]
        if r[0] == "name" and r[1] == n:
            return disp  # a plain string, spelled as the program says
        if r[0] == "alias" and r[2] == n and disp == n:
            return f"{r[1]}.{r[2]}" if r[3] else F.col(f"{r[1]}.{r[2]}")
        if r[0] == "df" and r[2] == n and disp == n:
            return frames[r[1]][r[2]]
    return build_col(e, frames, F).alias(disp)


SQL_SYM = {"lt": "<", "le": "<=", "gt": ">", "ge": ">=", "eq": "=", "ne": "<>", "and": "AND", "or": "OR", "add": "+", "sub": "-", "mul": "*"}


def sql_expr(e) -> str:
    k = e[0]
    if k == "ref" and e[1][0] == "name":
        return e[1][1]
    if k == "lit":
        return "NULL" if e[1] is None else str(e[1])
    if k == "bin" and e[1] in SQL_SYM:
        return f"({sql_expr(e[2])} {SQL_SYM[e[1]]} {sql_expr(e[3])})"
    if k == "not":
        return f"(NOT {sql_expr(e[1])})"
    if k == "isNull":
        return f"({sql_expr(e[1])} IS NULL)"
    raise ValueError(e)


def sql_sel_text(q) -> str:
    items = ", ".join(c if c == n else f"{c} AS {n}" for n, c in q["items"])
    conds = ([sql_expr(q["where"])] if q.get("where") else []) + ([f"k IN (SELECT k FROM {q['in']})"] if q.get("in") else [])
    w = f" WHERE {' AND '.join(conds)}" if conds else ""
    return f"SELECT {items} FROM {q['src']}{w}"


def sql_text(fr) -> str:
    """the statement a `sql` frame hands to session.sql / spark.sql: WITH <user-named CTEs> SELECT …"""
    parts = []
    for c in fr["ctes"]:
        if "values" in c:
            cols = c["values"]["cols"]
            rows = ", ".join("(" + ", ".join("NULL" if v is None else str(v) for v in r) + ")" for r in c["values"]["rows"])
            body = f"SELECT {', '.join(cols)} FROM (VALUES {rows}) AS t({', '.join(cols)})"
        else:
            body = sql_sel_text(c["sel"])
        parts.append(f"{c['name']} AS ({body})")
    return "WITH " + ", ".join(parts) + " " + sql_sel_text(fr["main"])


def run_program(c: dict, session, F, make_base) -> t.Tuple[t.List[str], t.List[t.List[t.Any]]]:
    frames: t.List[t.Any] = []
    for fr in c["frames"]:
        op = fr["op"]
        if op == "base":
            df = make_base(session, fr.get("spell") or fr["cols"], fr["rows"])
        elif op == "where":
            df = frames[fr["src"]].where(build_col(fr["p"], frames, F))
        elif op == "select":
            df = frames[fr["src"]].select(*[select_arg(n, e, frames, F) for n, e in fr["items"]])
        elif op == "selectS":
            df = frames[fr["src"]].select(*[sitem_arg(it, frames, F) for it in fr["items"]])
        elif op == "sql":
            df = session.sql(sql_text(fr))
        elif op == "alias":
            df = frames[fr["src"]].alias(fr["a"])
        elif op == "join":
            kw = {}
            on = build_on(fr["on"], frames, F)
            if on is not None:
                kw["on"] = on
            if fr.get("how") is not None:
                kw["how"] = fr["how"]
            df = frames[fr["l"]].join(frames[fr["r"]], **kw)
        elif op == "crossJoin":
            df = frames[fr["l"]].crossJoin(frames[fr["r"]])
        elif op == "limit":
            df = frames[fr["src"]].limit(fr["n"])
        elif op == "distinct":
            df = frames[fr["src"]].dropDuplicates() if fr.get("dd") else frames[fr["src"]].distinct()
        else:
            raise ValueError(op)
        frames.append(df)
    out = frames[-1]
    cols = list(out.columns)
    got = out.collect()
    if got and list(got[0].__fields__) != cols:
        raise AssertionError(f"Row fields {list(got[0].__fields__)} differ from df.columns {cols}")
    rows = [[plain(v) for v in r] for r in got]
    return cols, rows


def plain_ident(c: str) -> bool:
    import re

    return re.fullmatch(r"[A-Za-z_][A-Za-z0-9_]*", c) is not None


def make_base_sqlframe(session, cols, rows):
    if not all(plain_ident(c) for c in cols):
        # a name that needs quoting: the DDL form is not tokenised by createDataFrame; give the names as a list
        return session.createDataFrame([tuple(r) for r in rows], list(cols))
    ddl = ", ".join(f"{c} bigint" for c in cols)
    return session.createDataFrame([tuple(r) for r in rows], schema=ddl)


_SESSION = None


def session():
    global _SESSION
    if _SESSION is None:
        _SESSION = vlib.fresh_duckdb_session()
    return _SESSION


def run_impl(c: dict) -> dict:
    import logging

    logging.getLogger("sqlframe").setLevel(logging.ERROR)
    if vlib.REPO not in sys.path:
        sys.path.insert(0, vlib.REPO)
    try:
        s = session()
        from sqlframe.duckdb import functions as F

        cols, rows = run_program(c, s, F, make_base_sqlframe)
        return {"cols": cols, "rows": rows}
    except Exception as e:  # noqa
        return {"err": f"{type(e).__name__}: {str(e)[:160]}"}


# ------------------------------------------------------------------------------------------------
# generation
# ------------------------------------------------------------------------------------------------

KEYS = {
    "plain": ([1, 2, 3], [1, 2, 4]),
    "nulls": ([1, None, 2, None], [None, 2, 3]),
    "dups": ([1, 2, 2, 3], [2, 2, 1, 5]),
    "emptyL": ([], [1, 2, None]),
    "emptyR": ([1, None, 2], []),
    "mixed": ([1, 2, None, 2], [1, 2, None, 3]),
}
MULTS = list(KEYS)


def table_rows(keys: t.List[t.Any], ncols: int, seed: int) -> t.List[t.List[t.Any]]:
    rows = []
    for i, k in enumerate(keys):
        rows.append([k] + [seed + 10 * (i + 1) + j for j in range(ncols - 1)])
    return rows


def empty_base(prog: t.List[dict], cols: t.List[str]) -> int:
    """an empty frame: createDataFrame cannot build one from no data, so filter a one-row frame"""
    prog.append(base(cols, [[0] * len(cols)]))
    prog.append({"op": "where", "src": len(prog) - 1, "p": binop("eq", lit(1), lit(0))})
    return len(prog) - 1


def add_base(prog: t.List[dict], cols: t.List[str], keys: t.List[t.Any], seed: int) -> int:
    if not keys:
        return empty_base(prog, cols)
    prog.append(base(cols, table_rows(keys, len(cols), seed)))
    return len(prog) - 1


def on_variants(shape: str, li: int, ri: int, lcols: t.List[str], rcols: t.List[str]) -> t.List[t.Tuple[str, dict]]:
    """the on-forms of the property statement for a left frame li and right frame ri sharing key `k`"""

    def kref(side):
        if shape == "aliased":
            return ref_alias("x" if side == "l" else "y", "k")
        return ref_df(li if side == "l" else ri, "k")

    lnon = [c for c in lcols if c != "k"][0]
    rnon = [c for c in rcols if c != "k"][0]

    def nref(side):
        if shape == "aliased":
            return ref_alias("x" if side == "l" else "y", lnon if side == "l" else rnon)
        return ref_df(li if side == "l" else ri, lnon if side == "l" else rnon)

    out = [
        ("name", {"form": "name", "k": "k"}),
        ("names", {"form": "names", "ks": ["k"]}),
        ("expr", {"form": "expr", "e": binop("eq", kref("l"), kref("r"))}),
        ("exprs", {"form": "exprs", "es": [binop("eq", kref("l"), kref("r")), binop("lt", nref("l"), nref("r"))]}),
        ("nullsafe", {"form": "expr", "e": binop("nseq", kref("l"), kref("r"))}),
        # ONE Column mentioning each side twice (a conjunction), as opposed to a list of conditions
        ("and", {"form": "expr", "e": binop("and", binop("eq", kref("l"), kref("r")), binop("lt", nref("l"), nref("r")))}),
        ("none", {"form": "none"}),
    ]
    if lnon != rnon and shape == "independent":
        out.append(("fcol", {"form": "expr", "e": binop("lt", ref_name(lnon), ref_name(rnon))}))
    return out


def lineage(shape: str, variant: int, mult: str, rcols: t.List[str]) -> t.Tuple[t.List[dict], int, int, t.List[str], t.List[str]]:
    """build the two inputs; returns (frames, left index, right index, left columns, right columns)"""
    kl, kr = KEYS[mult]
    prog: t.List[dict] = []
    if shape == "independent":
        li = add_base(prog, ["k", "v"], kl, 0)
        ri = add_base(prog, rcols, kr, 100)
        return prog, li, ri, ["k", "v"], rcols
    if shape == "aliased":
        a = add_base(prog, ["k", "v"], kl, 0)
        if variant % 2 == 0:
            b = add_base(prog, rcols, kr, 100)
            prog.append({"op": "alias", "src": a, "a": "x"})
            li = len(prog) - 1
            prog.append({"op": "alias", "src": b, "a": "y"})
            return prog, li, len(prog) - 1, ["k", "v"], rcols
        prog.append({"op": "alias", "src": a, "a": "x"})
        li = len(prog) - 1
        prog.append({"op": "alias", "src": a, "a": "y"})
        return prog, li, len(prog) - 1, ["k", "v"], ["k", "v"]
    # common ancestor
    a = add_base(prog, ["k", "v"], kl or [1, 2, None], 0)
    v = variant % 5
    if v == 0:  # the same handle on both sides
        return prog, a, a, ["k", "v"], ["k", "v"]
    if v == 1:  # right = filtered left
        prog.append({"op": "where", "src": a, "p": binop("gt", ref_name("v"), lit(10))})
        return prog, a, len(prog) - 1, ["k", "v"], ["k", "v"]
    if v == 2:  # right = re-projected left, the non-key column recomputed under the same name
        prog.append({"op": "select", "src": a, "items": [["k", ref_name("k")], ["v", binop("add", ref_name("v"), lit(1))]]})
        return prog, a, len(prog) - 1, ["k", "v"], ["k", "v"]
    if v == 3:  # right = re-projected left, the non-key column renamed
        prog.append({"op": "select", "src": a, "items": [["k", ref_name("k")], ["u", ref_name("v")]]})
        return prog, a, len(prog) - 1, ["k", "v"], ["k", "u"]
    # left derived, right = the ancestor
    prog.append({"op": "select", "src": a, "items": [["k", ref_name("k")], ["u", binop("mul", ref_name("v"), lit(2))]]})
    return prog, len(prog) - 1, a, ["k", "u"], ["k", "v"]


def post_variants(shape: str, li: int, ri: int, lcols: t.List[str], rcols: t.List[str], on_kind: str, how: str, j: int) -> t.List[t.Tuple[str, t.List[dict]]]:
    """select / where on either side's columns after the join frame j"""
    kind = KIND_OF[how]
    left_only = kind in ("semi", "anti")
    lnon = [c for c in lcols if c != "k"][0]
    rnon = [c for c in rcols if c != "k"][0]

    def sref(side, c):
        if shape == "aliased":
            return ref_alias("x" if side == "l" else "y", c)
        return ref_df(li if side == "l" else ri, c)

    out: t.List[t.Tuple[str, t.List[dict]]] = [("none", [])]
    sel = [[lnon, sref("l", lnon)]]
    if not left_only:
        sel.append([rnon, sref("r", rnon)])
    out.append(("select-sides", [{"op": "select", "src": j, "items": sel}]))
    out.append(("where-left", [{"op": "where", "src": j, "p": binop("gt", sref("l", lnon), lit(15))}]))
    if not left_only:
        out.append(("where-right", [{"op": "where", "src": j, "p": binop("gt", sref("r", rnon), lit(115))}]))
    if on_kind in ("name", "names"):
        out.append(("where-key", [{"op": "where", "src": j, "p": binop("gt", ref_name("k"), lit(1))}]))
        ksel = [["k", ref_name("k")], [lnon, sref("l", lnon)]]
        out.append(("select-key", [{"op": "select", "src": j, "items": ksel}]))
    if lnon != rnon:
        out.append(("where-names", [{"op": "where", "src": j, "p": binop("gt", ref_name(lnon), lit(15))}]))
    out.append(("limit-where", [{"op": "limit", "src": j, "n": BIG}, {"op": "where", "src": j + 1, "p": binop("ge", sref("l", lnon) if shape != "aliased" else ref_name(lnon), lit(0))}]))
    if shape == "aliased":
        s2 = [[lnon, ref_alias("x", lnon, True)]]
        if not left_only:
            s2.append([rnon, ref_alias("y", rnon, True)])
        out.append(("select-strings", [{"op": "select", "src": j, "items": s2}]))
    return out


def single_join_cases(rng: random.Random, thorough: bool) -> t.List[dict]:
    cases: t.List[dict] = []
    for shape in ("independent", "common", "aliased"):
        variants = {"independent": [0], "common": [0, 1, 2, 3, 4], "aliased": [0, 1]}[shape]
        for variant in variants:
            for how in SPELLINGS:
                rcols_opts = [["k", "w"]] + ([["k", "v"]] if shape == "independent" else [])
                for rcols0 in rcols_opts:
                    mults = MULTS if (thorough or how in ONE_PER_KIND) else [rng.choice(MULTS)]
                    base_prog, li, ri, lcols, rcols = lineage(shape, variant, "mixed", rcols0)
                    for on_kind, _ in on_variants(shape, li, ri, lcols, rcols):
                        pick = mults if (thorough or on_kind in ("name", "expr")) else ([rng.choice(mults)] + (["mixed"] if on_kind == "and" else []))
                        for mult in pick:
                            prog, li, ri, lcols, rcols = lineage(shape, variant, mult, rcols0)
                            on = dict(on_variants(shape, li, ri, lcols, rcols))[on_kind]
                            jf = {"op": "join", "l": li, "r": ri, "on": on, "how": how}
                            j = len(prog)
                            posts = post_variants(shape, li, ri, lcols, rcols, on_kind, how, j)
                            chosen = posts if (thorough and mult == "mixed") else ([posts[0]] + ([rng.choice(posts[1:])] if mult in ("mixed", "nulls") else []))
                            for pname, post in chosen:
                                cases.append({"frames": prog + [jf] + post, "origin": f"single:{shape}{variant}:{how}:{on_kind}:{mult}:{pname}"})
    # spellings outside the documented table that PySpark accepts (case, underscores)
    for how in CAMEL + [respell(rng, h) for h in SPELLINGS]:
        prog, li, ri, lcols, rcols = lineage("independent", 0, "mixed", ["k", "w"])
        ons = dict(on_variants("independent", li, ri, lcols, rcols))
        for on_kind in ("name", "expr"):
            cases.append({"frames": prog + [{"op": "join", "l": li, "r": ri, "on": ons[on_kind], "how": how}], "origin": f"single:respelled-how:{how}:{on_kind}"})
        if KIND_OF[how] not in ("cross",):
            cases.append({"frames": prog + [{"op": "join", "l": li, "r": ri, "on": {"form": "none"}, "how": how}], "origin": f"single:respelled-how:{how}:none"})
    # join() with no `how`, crossJoin()
    for mult in MULTS:
        prog, li, ri, lcols, rcols = lineage("independent", 0, mult, ["k", "w"])
        cases.append({"frames": prog + [{"op": "join", "l": li, "r": ri, "on": {"form": "name", "k": "k"}, "how": None}], "origin": f"single:default-how:{mult}"})
        cases.append({"frames": prog + [{"op": "join", "l": li, "r": ri, "on": {"form": "none"}, "how": None}], "origin": f"single:no-args:{mult}"})
        cases.append({"frames": prog + [{"op": "crossJoin", "l": li, "r": ri}], "origin": f"single:crossJoin:{mult}"})
    # two key columns
    for how in ONE_PER_KIND:
        for ks in (["k", "g"], ["g", "k"]):
            prog = [base(["k", "g", "v"], [[1, 1, 10], [1, 2, 20], [None, 1, 30], [2, None, 40], [2, 2, 50]]),
                    base(["g", "k", "w"], [[1, 1, 100], [2, 1, 200], [1, None, 300], [2, 2, 400], [2, 2, 500], [3, 3, 600]])]
            cases.append({"frames": prog + [{"op": "join", "l": 0, "r": 1, "on": {"form": "names", "ks": ks}, "how": how}], "origin": f"single:two-keys:{how}:{ks}"})
    return cases


def spelled_cases(rng: random.Random, thorough: bool) -> t.List[dict]:
    """column names spelled with different letter case on the two sides (PySpark resolves names case-insensitively and
    reports each output column with the spelling of the attribute it comes from); df.columns / Row fields compared exactly"""
    cases: t.List[dict] = []
    lrows = [[1, 10], [2, 20], [2, 25], [None, 99]]
    rrows = [[2, 7], [3, 8], [None, 9]]
    variants = [
        ("key", ["Cust_ID", "Total"], ["cust_id", "Region"]),          # only the key differs in case
        ("key-upper", ["cust_id", "total"], ["CUST_ID", "Region"]),
        ("nonkey", ["Cust_ID", "Val"], ["cust_id", "val"]),            # a non-key name differs in case as well
        ("same", ["Cust_ID", "Total"], ["Cust_ID", "Region"]),
    ]
    hows = SPELLINGS if thorough else ONE_PER_KIND
    for vname, ls, rs in variants:
        lc, rc = [x.lower() for x in ls], [x.lower() for x in rs]
        for how in hows:
            for on in ({"form": "name", "k": "cust_id"}, {"form": "names", "ks": ["cust_id"]},
                       {"form": "expr", "e": binop("eq", ref_df(0, "cust_id"), ref_df(1, "cust_id"))}):
                if on["form"] == "names" and not thorough and how not in ("inner", "outer"):
                    continue
                prog = [base(lc, lrows, ls), base(rc, rrows, rs), {"op": "join", "l": 0, "r": 1, "on": on, "how": how}]
                cases.append({"frames": prog, "origin": f"spelled:{vname}:{how}:{on['form']}"})
                if on["form"] == "name" and how in ("inner", "left", "outer"):
                    cases.append({"frames": prog + [{"op": "where", "src": 2, "p": binop("gt", ref_name(lc[1]), lit(0))}], "origin": f"spelled:{vname}:{how}:name:where"})
        # chains: the spelling of the first join's result feeds the second join
        for h1, h2 in (("left", "left"), ("inner", "outer"), ("outer", "inner"), ("left", "semi")):
            prog = [base(lc, lrows, ls), base(rc, rrows, rs), base(["cust_id", "zz"], [[2, 5], [1, 6]], ["CUST_id", "Zz"]),
                    {"op": "join", "l": 0, "r": 1, "on": {"form": "name", "k": "cust_id"}, "how": h1},
                    {"op": "join", "l": 3, "r": 2, "on": {"form": "name", "k": "cust_id"}, "how": h2}]
            cases.append({"frames": prog, "origin": f"spelled:{vname}:chain:{h1}/{h2}"})
    return cases


def chain_cases(rng: random.Random, thorough: bool) -> t.List[dict]:
    """chains of 2 and 3 joins over independent inputs, followed by select/where on any side's columns"""
    cases: t.List[dict] = []
    kinds = ONE_PER_KIND
    tables = [(["k", "v"], [1, 2, None, 3, 2], 0), (["k", "w"], [1, 2, None, 4], 100), (["k", "z"], [1, 3, 3, None], 200), (["k", "y"], [1, 2, 3], 300)]
    for n in (2, 3):
        hows_all = list(itertools.product(kinds, repeat=n))
        if not thorough:
            hows_all = rng.sample(hows_all, 40 if n == 2 else 30)
        for hows in hows_all:
            for on_style in ("name", "expr-first", "expr-prev", "mixed", "expr-then-name"):
                if not thorough and rng.random() < 0.5:
                    continue
                prog: t.List[dict] = []
                idx = []
                for cols, keys, seed in tables[: n + 1]:
                    idx.append(add_base(prog, cols, keys, seed))
                cur = idx[0]
                visible = [0]  # inputs whose columns are still visible
                ok = True
                for step in range(n):
                    how = hows[step]
                    r = idx[step + 1]
                    style = on_style
                    if on_style == "mixed":
                        style = "name" if step % 2 == 0 else "expr-prev"
                    elif on_style == "expr-then-name":
                        style = "expr-prev" if step == 0 else "name"
                    if style == "name":
                        on = {"form": "name", "k": "k"}
                    else:
                        lside = idx[0] if style == "expr-first" else idx[visible[-1]]
                        on = {"form": "expr", "e": binop("eq", ref_df(lside, "k"), ref_df(r, "k"))}
                    prog.append({"op": "join", "l": cur, "r": r, "on": on, "how": how})
                    cur = len(prog) - 1
                    if KIND_OF[how] not in ("semi", "anti"):
                        visible.append(step + 1)
                if not ok:
                    continue
                posts: t.List[t.List[dict]] = [[]]
                nonkey = {0: "v", 1: "w", 2: "z", 3: "y"}
                sel = [[nonkey[i], ref_df(idx[i], nonkey[i])] for i in visible]
                posts.append([{"op": "select", "src": cur, "items": sel}])
                last = visible[-1]
                posts.append([{"op": "where", "src": cur, "p": binop("gt", ref_name(nonkey[last]), lit(0))}])
                posts.append([{"op": "select", "src": cur, "items": [[nonkey[i], ref_name(nonkey[i])] for i in visible]}, {"op": "where", "src": cur + 1, "p": binop("gt", ref_name("v"), lit(5))}])
                for post in (posts if thorough else [posts[0], rng.choice(posts[1:])]):
                    cases.append({"frames": prog + post, "origin": f"chain{n}:{'/'.join(hows)}:{on_style}"})
    # the same DataFrame joined twice (its frozen CTE name clashes with the copy already in the chain), and x.join(x)
    for how in (["inner", "left", "right", "outer", "semi"] if not thorough else ONE_PER_KIND):
        for derive in ("select", "where", "base"):
            for between in ("none", "select"):
                prog = []
                a = add_base(prog, ["k", "v"], [1, 2, None, 2], 0)
                b = add_base(prog, ["k", "w"], [2, 3, None, 2], 100)
                if derive == "select":
                    prog.append({"op": "select", "src": b, "items": [["k", ref_name("k")], ["w", ref_name("w")]]})
                    b = len(prog) - 1
                elif derive == "where":
                    prog.append({"op": "where", "src": b, "p": binop("gt", ref_name("w"), lit(0))})
                    b = len(prog) - 1
                prog.append({"op": "join", "l": a, "r": b, "on": {"form": "name", "k": "k"}, "how": "inner"})
                cur = len(prog) - 1
                if between == "select":
                    prog.append({"op": "select", "src": cur, "items": [["k", ref_name("k")], ["v", ref_name("v")]]})
                    cur = len(prog) - 1
                prog.append({"op": "join", "l": cur, "r": b, "on": {"form": "name", "k": "k"}, "how": how})
                cases.append({"frames": prog, "origin": f"chain:twice:{derive}:{between}:{how}"})
            if derive != "base":
                prog = []
                a = add_base(prog, ["k", "v"], [1, 2, None, 2], 0)
                if derive == "select":
                    prog.append({"op": "select", "src": a, "items": [["k", ref_name("k")], ["v", ref_name("v")]]})
                else:
                    prog.append({"op": "where", "src": a, "p": binop("gt", ref_name("v"), lit(0))})
                x = len(prog) - 1
                prog.append({"op": "join", "l": x, "r": x, "on": {"form": "name", "k": "k"}, "how": how})
                cases.append({"frames": prog, "origin": f"chain:self-twice:{derive}:{how}"})
    # a select between two joins (the first join is frozen into a CTE before the second)
    for h1, h2 in itertools.product(["inner", "left", "right", "outer"], repeat=2):
        prog = []
        a = add_base(prog, ["k", "v"], [1, 2, None, 2], 0)
        b = add_base(prog, ["k", "w"], [1, 2, None, 3], 100)
        c = add_base(prog, ["k", "z"], [1, 3, 3, None], 200)
        prog.append({"op": "join", "l": a, "r": b, "on": {"form": "name", "k": "k"}, "how": h1})
        prog.append({"op": "select", "src": len(prog) - 1, "items": [["k", ref_name("k")], ["v", ref_name("v")], ["w", ref_name("w")]]})
        prog.append({"op": "join", "l": len(prog) - 1, "r": c, "on": {"form": "name", "k": "k"}, "how": h2})
        cases.append({"frames": prog, "origin": f"chain:select-between:{h1}/{h2}"})
    return cases


# ------------------------------------------------------------------------------------------------
# families added after the third seeding round (each is a CLASS of inputs the check did not explore)
# ------------------------------------------------------------------------------------------------

QUOTED_KEYS = ["order id", "user-id", "k$", "x y-z"]   # names sqlglot renders quoted (`order id`); plain names are the control


def quoted_cases(rng: random.Random, thorough: bool) -> t.List[dict]:
    """column names that are not plain identifiers (a space, a hyphen, a dollar sign): the code renders such a name in two ways
    (quote-preserving / plain) and every comparison of names inside join() has to use one rendering on both sides"""
    cases: t.List[dict] = []
    lk, rk = [1, 2, None, 2], [1, 2, None, 3]
    hows = SPELLINGS if thorough else ONE_PER_KIND
    for key in QUOTED_KEYS if thorough else QUOTED_KEYS[:2] + [rng.choice(QUOTED_KEYS[2:])]:
        for nonkey in ("plain", "quoted-shared", "quoted-distinct"):
            lcols = [key, "v"] if nonkey == "plain" else [key, "unit price"]
            rcols = [key, "w"] if nonkey == "plain" else ([key, "unit price"] if nonkey == "quoted-shared" else [key, "list-price"])
            for how in hows:
                kind = KIND_OF[how]
                for on_kind in ("name", "names", "expr"):
                    if not thorough and nonkey != "plain" and on_kind == "names":
                        continue
                    prog = [base(lcols, table_rows(lk, 2, 0)), base(rcols, table_rows(rk, 2, 100))]
                    on = {"name": {"form": "name", "k": key}, "names": {"form": "names", "ks": [key]},
                          "expr": {"form": "expr", "e": binop("eq", ref_df(0, key), ref_df(1, key))}}[on_kind]
                    prog.append({"op": "join", "l": 0, "r": 1, "on": on, "how": how})
                    posts: t.List[t.Tuple[str, t.List[dict]]] = [("none", [])]
                    if on_kind != "expr":
                        posts.append(("where-key", [{"op": "where", "src": 2, "p": binop("gt", ref_name(key), lit(1))}]))
                        posts.append(("select-key", [{"op": "select", "src": 2, "items": [[key, ref_name(key)], [lcols[1], ref_df(0, lcols[1])]]}]))
                    else:
                        sel = [[key, ref_df(0, key)], [lcols[1], ref_df(0, lcols[1])]]
                        if kind not in ("semi", "anti"):
                            sel.append([rcols[1], ref_df(1, rcols[1])])
                        posts.append(("select-sides", [{"op": "select", "src": 2, "items": sel}]))
                    for pname, post in (posts if (thorough or how in ("inner", "left", "outer")) else [posts[0], rng.choice(posts[1:])]):
                        cases.append({"frames": prog + post, "origin": f"quoted:{key}:{nonkey}:{how}:{on_kind}:{pname}"})
        # several keys, quoted and plain mixed; chains of joins on a quoted key
        for how in (hows if thorough else ["inner", "left", "outer", "semi"]):
            for ks in ([key, "g"], ["g", key], [key, "user-id" if key != "user-id" else "order id"]):
                k2 = ks[1] if ks[0] == key else ks[0]
                prog = [base([key, k2, "v"], [[1, 1, 10], [1, 2, 20], [None, 1, 30], [2, None, 40], [2, 2, 50]]),
                        base([k2, key, "w"], [[1, 1, 100], [2, 1, 200], [1, None, 300], [2, 2, 400], [2, 2, 500], [3, 3, 600]])]
                cases.append({"frames": prog + [{"op": "join", "l": 0, "r": 1, "on": {"form": "names", "ks": ks}, "how": how}], "origin": f"quoted:{key}:two-keys:{how}:{ks}"})
        for h1, h2 in (("left", "left"), ("inner", "outer"), ("inner", "semi"), ("left", "inner")):
            prog = [base([key, "v"], table_rows(lk, 2, 0)), base([key, "w"], table_rows(rk, 2, 100)), base([key, "z"], [[2, 5], [1, 6], [7, 8]]),
                    {"op": "join", "l": 0, "r": 1, "on": {"form": "name", "k": key}, "how": h1},
                    {"op": "join", "l": 3, "r": 2, "on": {"form": "name", "k": key}, "how": h2}]
            cases.append({"frames": prog, "origin": f"quoted:{key}:chain:{h1}/{h2}"})
            cases.append({"frames": prog + [{"op": "select", "src": 4, "items": [[key, ref_name(key)], ["v", ref_df(0, "v")]] + ([["z", ref_name("z")]] if h2 != "semi" else [])}],
                          "origin": f"quoted:{key}:chain-select:{h1}/{h2}"})
        # the key spelled with capitals on one side (display names of quoted identifiers)
        for how in ("inner", "left", "outer"):
            sp = key.title() if key.title() != key else key.upper()
            prog = [base([key, "v"], table_rows(lk, 2, 0), [sp, "V"]), base([key, "w"], table_rows(rk, 2, 100)),
                    {"op": "join", "l": 0, "r": 1, "on": {"form": "name", "k": key}, "how": how}]
            cases.append({"frames": prog, "origin": f"quoted:{key}:spelled:{how}"})
    return cases


def star_cases(rng: random.Random, thorough: bool) -> t.List[dict]:
    """select() with star arguments on a join block: '*', df['*'], 'a.*', col('a.*'), alone, in pairs and next to ordinary
    (also re-spelled) columns; references to the key instance a name-join hides (b['k'] after a.join(b, 'k'))"""
    cases: t.List[dict] = []
    hows = SPELLINGS if thorough else ONE_PER_KIND

    def col_item(n, e, disp=None):
        return ["col", n, disp or n, e]

    for shape, variant, rcols0 in (("independent", 0, ["k", "w"]), ("independent", 0, ["k", "v"]), ("aliased", 0, ["k", "w"]), ("aliased", 0, ["k", "v"]),
                                   ("aliased", 1, ["k", "w"]), ("common", 1, ["k", "w"]), ("common", 3, ["k", "w"]), ("common", 4, ["k", "w"])):
        for how in hows:
            kind = KIND_OF[how]
            left_only = kind in ("semi", "anti")
            for on_kind in ("name", "expr", "and", "none"):
                if on_kind == "none" and (kind != "inner" or shape != "independent"):
                    continue
                if shape == "common" and not thorough and (how not in ("inner", "left", "right") or on_kind == "and"):
                    continue
                prog, li, ri, lcols, rcols = lineage(shape, variant, "mixed", rcols0)
                on = dict(on_variants(shape, li, ri, lcols, rcols))[on_kind]
                j = len(prog)
                prog = prog + [{"op": "join", "l": li, "r": ri, "on": on, "how": how}]
                lnon = [c for c in lcols if c != "k"][0]
                rnon = [c for c in rcols if c != "k"][0]
                sets: t.List[t.Tuple[str, t.List[list]]] = [("star", [["star"]])]
                if shape == "aliased":
                    sets.append(("l.*", [["starAlias", "x", True]]))
                    sets.append(("l.*,z", [["starAlias", "x", False], col_item("z", binop("add", ref_alias("x", lnon), lit(1)))]))
                    if not left_only:
                        sets.append(("r.*", [["starAlias", "y", True]]))
                        sets.append(("col r.*", [["starAlias", "y", False]]))
                        sets.append(("r.*,l.c", [["starAlias", "y", True], col_item(lnon, ref_alias("x", lnon))]))
                        sets.append(("r.*,l.*", [["starAlias", "y", True], ["starAlias", "x", True]]))
                        if on_kind == "name":
                            sets.append(("r.k,l.k", [col_item("k", ref_alias("y", "k")), col_item("k", ref_alias("x", "k"))]))
                else:
                    sets.append(("l*", [["starDf", li]]))
                    sets.append(("l*,Z", [["starDf", li], col_item("z", binop("add", ref_df(li, lnon), lit(1)), "Zed")]))
                    if lnon != rnon or left_only:
                        sets.append(("L,l*", [col_item(lnon, ref_name(lnon), lnon.upper()), ["starDf", li]]))
                    if not left_only:
                        sets.append(("r*", [["starDf", ri]]))
                        sets.append(("r*,l.c", [["starDf", ri], col_item(lnon, ref_df(li, lnon))]))
                        sets.append(("l.c,r*", [col_item(lnon, ref_df(li, lnon)), ["starDf", ri]]))
                        sets.append(("r*,l*", [["starDf", ri], ["starDf", li]]))
                        sets.append(("l*,Z,r*", [["starDf", li], col_item("z", binop("add", ref_df(li, lnon), lit(1)), "Zed"), ["starDf", ri]]))
                        sets.append(("*,r*", [["star"], ["starDf", ri]]))
                        if on_kind == "name" and shape != "common":
                            sets.append(("r.k,l.k,k", [col_item("k", ref_df(ri, "k")), col_item("k", ref_df(li, "k")), col_item("k", ref_name("k"))]))
                chosen = sets if (thorough or (shape != "common" and how in ("left", "right") and on_kind in ("name", "expr"))) else rng.sample(sets, min(2, len(sets)))
                for sname, items in chosen:
                    cases.append({"frames": prog + [{"op": "selectS", "src": j, "items": items}], "origin": f"star:{shape}{variant}:{rcols0[1]}:{how}:{on_kind}:{sname}"})
                # a filter between the join and the star select stays in the same block
                if shape != "common" and on_kind in ("name", "expr") and (thorough or how in ("left", "outer", "right")):
                    wref = ref_alias("x", lnon) if shape == "aliased" else ref_df(li, lnon)
                    w = {"op": "where", "src": j, "p": binop("gt", wref, lit(15))}
                    items = [["starAlias", "y", True]] if shape == "aliased" else [["starDf", ri], col_item(lnon, ref_df(li, lnon))]
                    if left_only:
                        items = [["star"]]
                    cases.append({"frames": prog + [w, {"op": "selectS", "src": j + 1, "items": items}], "origin": f"star:{shape}{variant}:{rcols0[1]}:{how}:{on_kind}:where-then-star"})
                    if on_kind == "name" and not left_only and shape == "independent":
                        w2 = {"op": "where", "src": j, "p": ["isNull", ref_df(ri, "k")]}
                        cases.append({"frames": prog + [w2], "origin": f"star:{shape}{variant}:{rcols0[1]}:{how}:{on_kind}:where-hidden-key"})
                        cases.append({"frames": prog + [w2, {"op": "selectS", "src": j + 1, "items": [["starDf", ri]]}], "origin": f"star:{shape}{variant}:{rcols0[1]}:{how}:{on_kind}:where-hidden-key-star"})
    # stars over a chain of two joins, and on differently spelled inputs
    for h1, h2 in (("inner", "left"), ("left", "inner"), ("left", "outer"), ("inner", "inner")):
        for style in ("name", "expr"):
            prog = [base(["k", "v"], table_rows([1, 2, None, 2], 2, 0)), base(["k", "w"], table_rows([1, 2, None, 3], 2, 100)), base(["k", "z"], table_rows([1, 3, 2], 2, 200))]
            on1 = {"form": "name", "k": "k"} if style == "name" else {"form": "expr", "e": binop("eq", ref_df(0, "k"), ref_df(1, "k"))}
            on2 = {"form": "name", "k": "k"} if style == "name" else {"form": "expr", "e": binop("eq", ref_df(0, "k"), ref_df(2, "k"))}
            prog += [{"op": "join", "l": 0, "r": 1, "on": on1, "how": h1}, {"op": "join", "l": 3, "r": 2, "on": on2, "how": h2}]
            for sname, items in (("mid*", [["starDf", 1]]), ("last*", [["starDf", 2]]), ("first*,last.c", [["starDf", 0], col_item("z", ref_df(2, "z"))]), ("star", [["star"]])):
                cases.append({"frames": prog + [{"op": "selectS", "src": 4, "items": items}], "origin": f"star:chain:{h1}/{h2}:{style}:{sname}"})
    for how in ("inner", "left", "outer"):
        for on in ({"form": "name", "k": "cust_id"}, {"form": "expr", "e": binop("eq", ref_df(0, "cust_id"), ref_df(1, "cust_id"))}):
            prog = [base(["cust_id", "total"], [[1, 10], [2, 20], [None, 99]], ["Cust_ID", "Total"]), base(["cust_id", "region"], [[2, 7], [3, 8]], ["cust_id", "Region"]),
                    {"op": "join", "l": 0, "r": 1, "on": on, "how": how}]
            for sname, items in (("r*,T", [["starDf", 1], col_item("total", ref_name("total"), "TOTAL")]), ("T,r*", [col_item("total", ref_name("total"), "TOTAL"), ["starDf", 1]]),
                                 ("l*,R,Z", [["starDf", 0], col_item("region", ref_name("region"), "REGION"), col_item("z", binop("add", ref_name("total"), lit(1)), "Zed")]),
                                 ("star", [["star"]])):
                cases.append({"frames": prog + [{"op": "selectS", "src": 2, "items": items}], "origin": f"star:spelled:{how}:{on['form']}:{sname}"})
    # no join at all: stars of a plain frame
    prog = [base(["k", "v"], table_rows([1, 2, None], 2, 0)), {"op": "where", "src": 0, "p": binop("gt", ref_name("v"), lit(10))}]
    cases.append({"frames": prog + [{"op": "selectS", "src": 1, "items": [["star"], col_item("z", binop("add", ref_name("v"), lit(1)))]}], "origin": "star:nojoin:star,z"})
    cases.append({"frames": prog + [{"op": "selectS", "src": 1, "items": [["starDf", 0]]}], "origin": "star:nojoin:df*"})
    return cases


def operand_cases(rng: random.Random, thorough: bool) -> t.List[dict]:
    """the LAST step of a join operand (either side) is any clause kind — distinct / dropDuplicates, a filter, a projection
    (narrowing, computed, then distinct), a limit that keeps everything, a freeze (alias) under it — over data where that step
    matters: duplicate rows that match the other side's keys, rows the filter removes, values the projection changes"""
    cases: t.List[dict] = []
    # (k, x) with exact duplicate rows and duplicate keys; the plain side has duplicate keys too
    dup_rows = [[1, 10], [2, 20], [2, 20], [2, 25], [None, 30], [None, 30], [4, 40], [4, 40]]
    plain = {"l": [[1, 100], [2, 200], [2, 250], [None, 300], [5, 500]], "r": [[2, 7], [2, 8], [4, 9], [None, 6], [3, 5]]}
    hows = SPELLINGS if thorough else ONE_PER_KIND

    def operand(prog: t.List[dict], col: str, last: str) -> int:
        """append a frame over (k, col) whose last step is `last`; returns its index"""
        prog.append(base(["k", col], [list(r) for r in dup_rows]))
        b = len(prog) - 1

        def add(fr):
            prog.append(fr)
            return len(prog) - 1

        if last == "distinct":
            return add({"op": "distinct", "src": b})
        if last == "dropDuplicates":
            return add({"op": "distinct", "src": b, "dd": True})
        if last == "select-distinct":      # narrowing creates the duplicates
            s_ = add({"op": "select", "src": b, "items": [["k", ref_name("k")]]})
            return add({"op": "distinct", "src": s_})
        if last == "where-distinct":
            w = add({"op": "where", "src": b, "p": binop("gt", ref_name(col), lit(15))})
            return add({"op": "distinct", "src": w})
        if last == "distinct-select":      # a plain read of the distinct block, reordered
            d_ = add({"op": "distinct", "src": b})
            return add({"op": "select", "src": d_, "items": [[col, ref_name(col)], ["k", ref_name("k")]]})
        if last == "alias-distinct":       # distinct directly over a frozen CTE
            a_ = add({"op": "alias", "src": b, "a": "z" + col})
            return add({"op": "distinct", "src": a_})
        if last == "distinct-where":
            d_ = add({"op": "distinct", "src": b})
            return add({"op": "where", "src": d_, "p": binop("gt", ref_name(col), lit(15))})
        if last == "where":
            return add({"op": "where", "src": b, "p": binop("gt", ref_name(col), lit(15))})
        if last == "computed":
            return add({"op": "select", "src": b, "items": [["k", ref_name("k")], [col, binop("add", ref_name(col), lit(1))]]})
        if last == "limit-all":
            return add({"op": "limit", "src": b, "n": BIG})
        if last == "distinct-limit-all":
            d_ = add({"op": "distinct", "src": b})
            return add({"op": "limit", "src": d_, "n": BIG})
        raise ValueError(last)

    lasts = ["distinct", "dropDuplicates", "select-distinct", "where-distinct", "distinct-select", "alias-distinct", "distinct-where", "where", "computed",
             "limit-all", "distinct-limit-all"]
    for side in ("r", "l", "both"):
        for last in lasts:
            for how in hows:
                if not thorough and side == "both" and how not in ("inner", "left", "outer"):
                    continue
                for on_kind in ("name", "names", "expr", "and", "none"):
                    if on_kind == "none" and how not in ("inner", "cross"):
                        continue
                    if not thorough and on_kind in ("names", "and") and (how not in ("inner", "right") or last not in ("distinct", "select-distinct", "where")):
                        continue
                    prog: t.List[dict] = []
                    narrow = last == "select-distinct"
                    if side in ("l", "both"):
                        li = operand(prog, "x", last)
                        lnon = None if narrow else "x"
                    else:
                        prog.append(base(["k", "v"], plain["l"]))
                        li, lnon = len(prog) - 1, "v"
                    if side in ("r", "both"):
                        ri = operand(prog, "y", last)
                        rnon = None if narrow else "y"
                    else:
                        prog.append(base(["k", "w"], plain["r"]))
                        ri, rnon = len(prog) - 1, "w"
                    keq = binop("eq", ref_df(li, "k"), ref_df(ri, "k"))
                    if on_kind == "and" and (lnon is None or rnon is None):
                        continue
                    on = {"name": {"form": "name", "k": "k"}, "names": {"form": "names", "ks": ["k"]}, "expr": {"form": "expr", "e": keq}, "none": {"form": "none"},
                          "and": {"form": "expr", "e": binop("and", keq, binop("lt", ref_df(li, lnon or "k"), ref_df(ri, rnon or "k")))}}[on_kind]
                    cases.append({"frames": prog + [{"op": "join", "l": li, "r": ri, "on": on, "how": how}], "origin": f"operand:{side}:{last}:{how}:{on_kind}"})
    return cases


CTE_NAMES = ["src", "stg", "tmp"]


def sql_frame(names: t.List[str], keys: t.List[t.Any], seed: int, out: str, filt: t.Optional[int] = None, diamond: bool = False) -> dict:
    """session.sql("WITH n0 AS (<VALUES k, v>), n1 AS (SELECT k, v FROM n0 [WHERE v >= filt]), … SELECT k, v AS out FROM n_last"):
    the CTE names are the user's and are kept verbatim in the DataFrame's WITH clause"""
    ctes: t.List[dict] = [{"name": names[0], "values": {"cols": ["k", "v"], "rows": table_rows(keys, 2, seed)}}]
    for i, n in enumerate(names[1:]):
        q = {"src": names[i], "items": [["k", "k"], ["v", "v"]], "where": binop("ge", ref_name("v"), lit(filt)) if (filt is not None and i == 0) else None}
        if diamond and i >= 1:
            q["in"] = names[0]   # the third CTE reads the second AND the first: WHERE k IN (SELECT k FROM <first>)
        ctes.append({"name": n, "sel": q})
    return {"op": "sql", "ctes": ctes, "main": {"src": names[-1], "items": [["k", "k"], [out, "v"]], "where": None}}


def sql_cases(rng: random.Random, thorough: bool) -> t.List[dict]:
    """inputs whose CTE names are NOT content hashes: DataFrames from session.sql statements with user-named CTEs. The same
    name on both sides of a join then stands for different queries, and merging the WITH clauses has to rename one of them
    and every later reference to it"""
    cases: t.List[dict] = []
    lk, rk, ck = [1, 2, None, 2, 4], [2, 3, None, 4], [2, 4, 4, 9]
    name_pairs = [(["src"], ["src"]), (["src", "stg"], ["src", "stg"]), (["src", "stg"], ["stg", "src"]), (["src"], ["src", "stg"]), (["src", "stg"], ["src"]),
                  (["src", "stg"], ["tmp", "src"]), (["src", "stg"], ["tmp", "stg"]), (["src", "stg", "tmp"], ["src", "stg", "tmp"]), (["src", "stg", "tmp"], ["tmp", "src", "stg"]),
                  (["src", "stg"], ["lhs", "rhs"])]
    hows = SPELLINGS if thorough else ONE_PER_KIND
    for ln, rn in name_pairs:
        for how in hows:
            kind = KIND_OF[how]
            for rout in ("refunded", "paid"):
                if rout == "paid" and not thorough and how not in ("inner", "left", "right"):
                    continue
                L = sql_frame(ln, lk, 0, "paid", filt=15 if len(ln) > 1 else None)
                R = sql_frame(rn, rk, 100, rout)
                for on_kind in ("name", "expr"):
                    if on_kind == "expr" and not thorough and how not in ("inner", "left", "right"):
                        continue
                    on = {"form": "name", "k": "k"} if on_kind == "name" else {"form": "expr", "e": binop("eq", ref_df(0, "k"), ref_df(1, "k"))}
                    prog = [L, R, {"op": "join", "l": 0, "r": 1, "on": on, "how": how}]
                    cases.append({"frames": prog, "origin": f"sql:{'+'.join(ln)}|{'+'.join(rn)}:{rout}:{how}:{on_kind}:none"})
                    if kind not in ("semi", "anti") and (thorough or how in ("inner", "left", "outer")):
                        cases.append({"frames": prog + [{"op": "select", "src": 2, "items": [["paid", ref_df(0, "paid")], [rout, ref_df(1, rout)]]}],
                                      "origin": f"sql:{'+'.join(ln)}|{'+'.join(rn)}:{rout}:{how}:{on_kind}:select-sides"})
                        cases.append({"frames": prog + [{"op": "selectS", "src": 2, "items": [["starDf", 1]]}],
                                      "origin": f"sql:{'+'.join(ln)}|{'+'.join(rn)}:{rout}:{how}:{on_kind}:r*"})
    # a CTE that reads two earlier ones (the rename of the first has to reach the third, past the second)
    for ln, rn in ((["src", "stg", "tmp"], ["src", "stg", "tmp"]), (["src"], ["src", "stg", "tmp"]), (["stg"], ["src", "stg", "tmp"]), (["src", "stg"], ["src", "mid", "stg"])):
        for how in (hows if thorough else ["inner", "left", "right", "outer", "semi"]):
            L = sql_frame(ln, [1, 2, None, 2, 4, 7], 0, "paid", diamond=True)
            R = sql_frame(rn, rk, 100, "refunded", filt=115, diamond=True)
            for on in ({"form": "name", "k": "k"}, {"form": "expr", "e": binop("eq", ref_df(0, "k"), ref_df(1, "k"))}):
                cases.append({"frames": [L, R, {"op": "join", "l": 0, "r": 1, "on": on, "how": how}], "origin": f"sql:diamond:{'+'.join(ln)}|{'+'.join(rn)}:{how}:{on['form']}"})
    # a statement frame joined with an ordinary DataFrame, either way round; three statements sharing their CTE names
    for how in (hows if thorough else ["inner", "left", "right", "outer", "anti"]):
        S = sql_frame(["src", "stg"], rk, 100, "refunded", filt=115)
        B = base(["k", "v"], table_rows(lk, 2, 0))
        cases.append({"frames": [B, S, {"op": "join", "l": 0, "r": 1, "on": {"form": "name", "k": "k"}, "how": how}], "origin": f"sql:base|src+stg:{how}"})
        cases.append({"frames": [S, B, {"op": "join", "l": 0, "r": 1, "on": {"form": "name", "k": "k"}, "how": how}], "origin": f"sql:src+stg|base:{how}"})
        A, Bq, C = sql_frame(["src", "stg"], lk, 0, "paid"), sql_frame(["src", "stg"], rk, 100, "refunded"), sql_frame(["stg", "src"], ck, 200, "fee", filt=215)
        for h2 in ("inner", "left"):
            prog = [A, Bq, C, {"op": "join", "l": 0, "r": 1, "on": {"form": "name", "k": "k"}, "how": how},
                    {"op": "join", "l": 3, "r": 2, "on": {"form": "name", "k": "k"}, "how": h2}]
            cases.append({"frames": prog, "origin": f"sql:three:{how}/{h2}"})
        # the same statement on both sides (equal names AND equal contents)
        cases.append({"frames": [A, {"op": "join", "l": 0, "r": 0, "on": {"form": "name", "k": "k"}, "how": how}], "origin": f"sql:self:{how}"})
        A2 = sql_frame(["src", "stg"], lk, 0, "paid")
        cases.append({"frames": [A, A2, {"op": "join", "l": 0, "r": 1, "on": {"form": "name", "k": "k"}, "how": how}], "origin": f"sql:twin:{how}"})
    # a CTE called like a column it exposes (H_cteNameNotAColumn)
    for how in ("inner", "left"):
        L = {"op": "sql", "ctes": [{"name": "k", "values": {"cols": ["k", "v"], "rows": [[1, 10], [2, 20]]}}], "main": {"src": "k", "items": [["k", "k"], ["v", "v"]], "where": None}}
        R = {"op": "sql", "ctes": [{"name": "k", "values": {"cols": ["k", "v"], "rows": [[2, 7], [3, 8]]}}], "main": {"src": "k", "items": [["k", "k"], ["w", "v"]], "where": None}}
        cases.append({"frames": [L, R, {"op": "join", "l": 0, "r": 1, "on": {"form": "name", "k": "k"}, "how": how}], "origin": f"sql:cte-named-like-column:{how}"})
    return cases



def random_cases(rng: random.Random, n: int) -> t.List[dict]:
    out = []
    for _ in range(n):
        shape = rng.choice(["independent", "independent", "common", "aliased"])
        variant = rng.randrange(5)
        how = rng.choice(SPELLINGS)
        rcols0 = rng.choice([["k", "w"], ["k", "v"]]) if shape == "independent" else ["k", "w"]
        mult = rng.choice(MULTS)
        prog, li, ri, lcols, rcols = lineage(shape, variant, mult, rcols0)
        # random key values instead of the fixed pools
        for fr in prog:
            if fr["op"] == "base" and len(fr["rows"]) > 1:
                for r in fr["rows"]:
                    r[0] = rng.choice([None, 1, 2, 2, 3])
        on_kind, on = rng.choice(on_variants(shape, li, ri, lcols, rcols))
        j = len(prog)
        posts = post_variants(shape, li, ri, lcols, rcols, on_kind, how, j)
        pname, post = rng.choice(posts)
        out.append({"frames": prog + [{"op": "join", "l": li, "r": ri, "on": on, "how": how}] + post, "origin": f"random:{shape}{variant}:{how}:{on_kind}:{mult}:{pname}"})
    return out


def corpus_cases() -> t.List[dict]:
    cases = []
    d = os.path.join(vlib.VERIF, "corpus", ID)
    if os.path.isdir(d):
        for fn in sorted(os.listdir(d)):
            if fn.endswith(".json"):
                c = json.load(open(os.path.join(d, fn)))
                c["origin"] = "corpus:" + fn
                cases.append(c)
    return cases


def cases_for(ctx: Ctx) -> t.List[dict]:
    cases = corpus_cases()
    cases += single_join_cases(ctx.rng, ctx.thorough)
    cases += chain_cases(ctx.rng, ctx.thorough)
    cases += spelled_cases(ctx.rng, ctx.thorough)
    cases += quoted_cases(ctx.rng, ctx.thorough)
    cases += star_cases(ctx.rng, ctx.thorough)
    cases += sql_cases(ctx.rng, ctx.thorough)
    cases += operand_cases(ctx.rng, ctx.thorough)
    cases += random_cases(ctx.rng, 3000 if ctx.thorough else 250)
    return cases


# ------------------------------------------------------------------------------------------------
# evaluation and comparison
# ------------------------------------------------------------------------------------------------


def canon(x: t.Optional[dict]) -> t.Optional[t.Tuple[t.Tuple[str, ...], t.Tuple[str, ...]]]:
    if x is None or "err" in x:
        return None
    return (tuple(x["cols"]), tuple(bag(x["rows"])))


def gen_is_current() -> bool:
    """do the Gen modules on disk belong to VERIF_REPO? (other checks regenerate Gen/ from their own VERIF_REPO)"""
    import importlib

    tr = importlib.import_module("translate")
    for g in GEN:
        try:
            try:
                text = tr.GENERATORS[g](vlib.REPO)
            except tr.Untranslatable:
                # reported as a broken obligation by `prove`; the committed baseline stands in so that the model can be run
                with open(os.path.join(tr.BASELINE_DIR, g + ".lean"), encoding="utf-8") as f:
                    text = f.read()
            with open(os.path.join(vlib.GEN_DIR, g + ".lean"), encoding="utf-8") as f:
                if f.read() != text:
                    return False
        except Exception:
            return False
    return True


def run_driver(cases: t.List[dict]) -> t.List[dict]:
    """the Lean driver on `cases`; when a concurrent check has regenerated Gen/ from another tree, re-translate and
    rebuild the model first (exclusive lock, released before vlib.run_driver takes its own shared lock)"""
    if not gen_is_current():
        with vlib.lean_lock():
            st = vlib.translate(GEN)
            missing = [g for g in GEN if not st.get(g, {}).get("ok") and not os.path.exists(os.path.join(vlib.GEN_DIR, g + ".lean"))]
            if missing:  # untranslatable and no committed baseline to stand in
                raise RuntimeError("Gen untranslatable: " + "; ".join(f"{g}: {st.get(g, {}).get('reason')}" for g in missing))
            ok, out = vlib.lake_build(["SqlframeModel.Codec.C02"])
            if not ok:
                raise RuntimeError("model does not build against the regenerated Gen: " + out[-300:])
    return vlib.run_driver("C02", [case_to_lean(i, c) for i, c in enumerate(cases)])


def evaluate(cases: t.List[dict], workers: int = 0) -> t.List[dict]:
    if len(cases) >= 200 and workers != 1:
        # the Lean driver (one process) runs while the forked workers run the implementation
        import concurrent.futures as cf

        with cf.ThreadPoolExecutor(1) as ex:
            fut = ex.submit(run_driver, cases)
            impls = vlib.parallel_map(run_impl, cases, workers)
            outs = fut.result()
    else:
        outs = run_driver(cases)
        impls = vlib.parallel_map(run_impl, cases, workers)
    res = []
    for c, o, impl in zip(cases, outs, impls):
        if "err" in o:
            raise RuntimeError(f"driver rejected a case: {o} :: {show_case(c)}")
        ci, cm, cs = canon(impl), canon(o["model"]), canon(o["spec"])
        res.append({
            "case": c, "impl": impl, "model": o["model"], "spec": o["spec"], "scope": o["scope"],
            "in_domain": o["spec"] is not None,
            "impl_eq_model": ci == cm,
            "impl_eq_spec": (ci == cs) if o["spec"] is not None else True,
        })
    return res


def known_entries() -> t.Dict[str, dict]:
    known = {e["id"]: e for e in vlib.known_findings(ID)}
    if os.path.exists(LOCAL_KNOWN):
        for e in json.load(open(LOCAL_KNOWN)).get("findings", []):
            if e.get("property") == ID and e.get("status") == "open":
                known.setdefault(e["id"], e)
    return known


def is_known(r: dict, known: t.Dict[str, dict]) -> bool:
    return bool(r["scope"]) and all(h in known for h in r["scope"]) and r["impl_eq_model"]


def shrink(c: dict, failing: t.Callable[[dict], bool], rounds: int = 8) -> dict:
    """greedy: drop trailing frames that nothing needs, then rows of the base tables"""
    best = c
    for _ in range(rounds):
        cands = []
        fr = best["frames"]
        if len(fr) > 1 and fr[-1]["op"] in ("select", "selectS", "where", "limit", "distinct"):
            cands.append(dict(best, frames=fr[:-1]))
        if fr[-1]["op"] in ("select", "selectS") and len(fr[-1]["items"]) > 1:
            for k in range(len(fr[-1]["items"])):
                cands.append(dict(best, frames=fr[:-1] + [dict(fr[-1], items=fr[-1]["items"][:k] + fr[-1]["items"][k + 1:])]))
        for i, f in enumerate(fr):
            if f["op"] == "base" and len(f["rows"]) > 1:
                for k in range(len(f["rows"])):
                    nf = dict(f, rows=f["rows"][:k] + f["rows"][k + 1:])
                    cands.append(dict(best, frames=fr[:i] + [nf] + fr[i + 1:]))
            if f["op"] == "sql":
                for ci, cte in enumerate(f["ctes"]):
                    if "values" in cte and len(cte["values"]["rows"]) > 1:
                        for k in range(len(cte["values"]["rows"])):
                            rows = cte["values"]["rows"]
                            nc = dict(cte, values=dict(cte["values"], rows=rows[:k] + rows[k + 1:]))
                            cands.append(dict(best, frames=fr[:i] + [dict(f, ctes=f["ctes"][:ci] + [nc] + f["ctes"][ci + 1:])] + fr[i + 1:]))
        if not cands:
            break
        res = evaluate(cands, workers=1)
        nxt = next((r["case"] for r in res if failing(r)), None)
        if nxt is None:
            break
        best = nxt
    return best


# ------------------------------------------------------------------------------------------------
# the generated decisions vs the running code
# ------------------------------------------------------------------------------------------------


def check_gen_against_live(ctx: Ctx) -> None:
    """Gen/Joins.lean's table must be the JOIN_TYPE_MAPPING the interpreter actually has"""
    path = os.path.join(vlib.GEN_DIR, "Joins.lean")
    if not os.path.exists(path):
        return
    src = open(path, encoding="utf-8").read()
    import re

    m = re.search(r"def joinTypeMapping : List \(String × String\) := \[(.*?)\n\]", src, flags=re.S)
    pairs = re.findall(r'\("([^"]*)", "([^"]*)"\)', m.group(1)) if m else []
    try:
        if vlib.REPO not in sys.path:
            sys.path.insert(0, vlib.REPO)
        from sqlframe.base import dataframe as D

        live = list(D.JOIN_TYPE_MAPPING.items())
    except Exception as e:  # noqa
        ctx.broken.append(f"cannot import sqlframe.base.dataframe: {e}")
        return
    if [tuple(p) for p in pairs] != live:
        ctx.broken.append(f"translator disagreement: Gen.joinTypeMapping {pairs} vs live JOIN_TYPE_MAPPING {live}")


# ------------------------------------------------------------------------------------------------
# stream M: the name-level model of `_add_ctes_to_expression` (Impl/C02Ctes.lean `mergeCtes`, decisions from Gen.JoinMerge)
# against the real method — names and read-sets of the merged WITH clause; and `quoteName` against the running code
# ------------------------------------------------------------------------------------------------

MERGE_POOL = ["ca", "cb", "cc", "cd", "ce"]
MERGE_BASES = ["t1", "t2"]


def rand_body(rng: random.Random, names: t.List[str], depth: int = 0):
    r = rng.random()
    if depth >= 2 or r < 0.5:
        return ["lit"] if rng.random() < 0.15 else ["ref", rng.choice(names)]
    if r < 0.75:
        return ["un", rng.randrange(3), rand_body(rng, names, depth + 1)]
    return ["bin", rng.randrange(3), rand_body(rng, names, depth + 1), rand_body(rng, names, depth + 1)]


def merge_cases(rng: random.Random, n: int) -> t.List[dict]:
    """two WITH clauses over a small pool of names: reads go anywhere (backwards, forwards, to the other side's names, to
    catalog names), so that every combination of clash / no clash / reference to a renamed CTE occurs"""
    out = []
    # hand-picked: a chain on the right whose first CTE clashes; two clashes, the second reading the first; no WITH on the left
    out.append({"existing": [["ca", ["ref", "t1"]]], "ctes": [["ca", ["ref", "t2"]], ["cb", ["ref", "ca"]], ["cc", ["bin", 0, ["ref", "cb"], ["ref", "ca"]]]]})
    out.append({"existing": [["ca", ["ref", "t1"]], ["cb", ["ref", "ca"]]], "ctes": [["ca", ["ref", "t2"]], ["cb", ["un", 1, ["ref", "ca"]]], ["cc", ["bin", 0, ["ref", "cb"], ["ref", "ca"]]]]})
    out.append({"existing": [], "ctes": [["ca", ["ref", "t2"]], ["cb", ["ref", "ca"]]]})
    out.append({"existing": [["cb", ["ref", "t1"]]], "ctes": [["ca", ["ref", "cb"]], ["cb", ["ref", "ca"]], ["cc", ["ref", "cb"]]]})
    for _ in range(n):
        en = rng.sample(MERGE_POOL, rng.randrange(0, 4))
        rn = rng.sample(MERGE_POOL, rng.randrange(1, 5))
        pool = MERGE_POOL + MERGE_BASES
        out.append({"existing": [[x, rand_body(rng, pool)] for x in en], "ctes": [[x, rand_body(rng, pool)] for x in rn]})
    return out


def body_to_lean(b):
    if b[0] == "lit":
        return {"lit": {"T": {"cols": [], "rows": []}}}
    if b[0] == "ref":
        return {"ref": {"n": b[1]}}
    if b[0] == "un":
        return {"un": {"f": b[1], "a": body_to_lean(b[2])}}
    return {"bin": {"f": b[1], "a": body_to_lean(b[2]), "b": body_to_lean(b[3])}}


def body_sql(b, ctr: t.List[int]) -> str:
    if b[0] == "lit":
        return "SELECT 1 AS one"
    if b[0] == "ref":
        return f"SELECT * FROM {b[1]}"
    ctr[0] += 1
    i = ctr[0]
    if b[0] == "un":
        return f"SELECT * FROM ({body_sql(b[2], ctr)}) AS sq{i} WHERE {b[1]} = {b[1]}"
    return f"SELECT * FROM ({body_sql(b[2], ctr)}) AS sq{i}l CROSS JOIN ({body_sql(b[3], ctr)}) AS sq{i}r"


def run_merge_impl(c: dict):
    """the real `_add_ctes_to_expression` on sqlglot CTEs built from the case; [[name, sorted names read]] of the result"""
    import logging

    logging.getLogger("sqlframe").setLevel(logging.ERROR)
    if vlib.REPO not in sys.path:
        sys.path.insert(0, vlib.REPO)
    try:
        from sqlglot import exp

        s = session()
        df = s.createDataFrame([(1,)], schema="one bigint")
        dialect = s.input_dialect

        def mk(name, body):
            return exp.Select().with_(name, as_=body_sql(body, [0]), dialect=dialect).ctes[0]

        base_expr = exp.select("1")
        for name, body in c["existing"]:
            base_expr = base_expr.with_(name, as_=body_sql(body, [0]), dialect=dialect)
        merged = df._add_ctes_to_expression(base_expr, [mk(n, b) for n, b in c["ctes"]])
        return [[cte.alias_or_name, sorted(t_.name for t_ in cte.this.find_all(exp.Table))] for cte in merged.ctes]
    except Exception as e:  # noqa
        return {"err": f"{type(e).__name__}: {str(e)[:160]}"}


def canon_merged(m, known_names: t.Set[str]):
    """new names (content hashes on one side, "#k" on the other) are numbered in order of first appearance as a CTE name"""
    if isinstance(m, dict):
        return m
    ren: t.Dict[str, str] = {}
    for name, _ in m:
        if name not in known_names and name not in ren:
            ren[name] = f"<new{len(ren)}>"
    return [[ren.get(n, n), sorted(ren.get(x, x) for x in refs)] for n, refs in m]


def check_merge_stream(ctx: Ctx) -> t.Tuple[int, int]:
    cases = merge_cases(ctx.rng, 400 if ctx.thorough else 120)
    impls = vlib.parallel_map(run_merge_impl, cases)
    outs = vlib.run_driver("C02", [{"case": i, "merge": {"existing": [{"name": n, "body": body_to_lean(b)} for n, b in c["existing"]],
                                                          "ctes": [{"name": n, "body": body_to_lean(b)} for n, b in c["ctes"]]}} for i, c in enumerate(cases)])
    known_names = set(MERGE_POOL + MERGE_BASES)
    bad = []
    renamed = 0
    for c, impl, o in zip(cases, impls, outs):
        want = canon_merged(impl, known_names)
        got = canon_merged([[n, sorted(r)] for n, r in o.get("merged", [])], known_names) if "merged" in o else o
        if isinstance(want, list) and any(n.startswith("<new") for n, _ in want):
            renamed += 1
        if want != got:
            bad.append((c, want, got))
    if bad:
        c, want, got = bad[0]
        ctx.broken.append(f"correspondence stream M (_add_ctes_to_expression vs Impl/C02Ctes.lean mergeCtes): {len(bad)} of {len(cases)} WITH-clause pairs differ, first: "
                          f"existing={json.dumps(c['existing'])} ctes={json.dumps(c['ctes'])} implementation={json.dumps(want)[:300]} model={json.dumps(got)[:300]}")
    return len(cases), renamed


RENDER_NAMES = QUOTED_KEYS + ["unit price", "list-price", "k", "v", "cust_id", "g", "_k", "k9", "1st", "é", "a b c", "a-b", "x+y", "p#q"]


def check_name_rendering(ctx: Ctx) -> int:
    """`quoteName` (Impl/C02Join.lean) against the running code: the quote-preserving name of each column of a DataFrame"""
    if vlib.REPO not in sys.path:
        sys.path.insert(0, vlib.REPO)
    try:
        s = session()
        live = []
        for n in RENDER_NAMES:
            df = s.createDataFrame([(1, 2)], [n, "zz"])
            live.append(df._get_outer_select_columns(df.expression)[0].alias_or_name)
        out = vlib.run_driver("C02", [{"case": 0, "names": RENDER_NAMES}])[0]
        if out.get("quoted") != live:
            diff = [(n, a, b) for n, a, b in zip(RENDER_NAMES, live, out.get("quoted") or [None] * len(live)) if a != b]
            ctx.broken.append(f"name rendering: quoteName differs from Column.alias_or_name on {diff[:4]}")
    except Exception as e:  # noqa
        ctx.broken.append(f"name rendering could not be exercised: {type(e).__name__}: {str(e)[:200]}")
    return len(RENDER_NAMES)


# ------------------------------------------------------------------------------------------------
# PySpark oracle (recorded; live in the thorough tier)
# ------------------------------------------------------------------------------------------------


def oracle_cases() -> t.List[dict]:
    if not os.path.exists(ORACLE):
        return []
    return json.load(open(ORACLE))["cases"]


def check_oracle(ctx: Ctx) -> t.Tuple[int, int]:
    """the Lean specification must reproduce what PySpark returned for every recorded program"""
    oc = oracle_cases()
    if not oc:
        ctx.broken.append("PySpark oracle file missing or empty")
        return 0, 0
    outs = run_driver(oc)
    bad = []
    for c, o in zip(oc, outs):
        exp = c["pyspark"]
        got = canon(o.get("spec"))
        want = None if "err" in exp else (tuple(exp["cols"]), tuple(bag(exp["rows"])))
        if got != want:
            bad.append((c, exp, o.get("spec")))
    if bad:
        c, exp, got = bad[0]
        ctx.broken.append(f"stream C: the specification differs from recorded PySpark on {len(bad)} of {len(oc)} programs, first: {show_case(c)} pyspark={json.dumps(exp)[:200]} spec={json.dumps(got)[:200]}")
    return len(oc), len(oc) - len(bad)


def live_pyspark(cases: t.List[dict], timeout: int = 600) -> t.Optional[t.List[dict]]:
    script = os.path.join(vlib.VERIF, "tools", "oracle", "mk_c02_pyspark.py")
    env = dict(os.environ, PYSPARK_PYTHON="/venv/bin/python")
    try:
        p = subprocess.run(["/venv/bin/python", script, "--stdin"], input=json.dumps(cases), capture_output=True, text=True, timeout=timeout, env=env)
        if p.returncode != 0:
            log("live PySpark failed:", p.stderr[-400:])
            return None
        return json.loads(p.stdout.strip().split("\n")[-1])
    except Exception as e:  # noqa
        log("live PySpark unavailable:", e)
        return None


# ------------------------------------------------------------------------------------------------
# the check
# ------------------------------------------------------------------------------------------------


def violation_payload(rr: dict, ctx: Ctx, kind: str) -> dict:
    return {
        "kind": kind,
        "program": show_case(rr["case"]),
        "case": rr["case"],
        "implementation": rr["impl"],
        "specification": rr["spec"],
        "model": rr["model"],
        "violated_scope_hypotheses": rr["scope"],
        "broken": ctx.broken,
    }


def run(ctx: Ctx) -> None:
    idx = vlib.props_index()[ID]
    vlib.prove(ctx, MODULES, GEN, idx["theorems"], SOURCES)
    log(f"[C02] prove done at {ctx.elapsed():.1f}s; broken={len(ctx.broken)}")
    check_gen_against_live(ctx)
    known = known_entries()

    driver_ok = os.path.exists(os.path.join(vlib.GEN_DIR, "Joins.lean"))
    cases = cases_for(ctx)
    res: t.List[dict] = []
    n_oracle = n_oracle_ok = 0
    n_merge = n_merge_renamed = n_render = 0
    if driver_ok:
        try:
            res = evaluate(cases)
            n_merge, n_merge_renamed = check_merge_stream(ctx)
            n_oracle, n_oracle_ok = check_oracle(ctx)
            n_render = check_name_rendering(ctx)
        except Exception as e:  # the model no longer builds against the regenerated Gen
            ctx.broken.append(f"Lean driver unavailable: {str(e)[-300:]}")
            driver_ok = False
    if not driver_ok:
        # no model to consult: compare the implementation with the recorded PySpark expectations directly
        res = []
        oc = oracle_cases()
        impls = vlib.parallel_map(run_impl, oc)
        for c, impl in zip(oc, impls):
            exp = c["pyspark"]
            if "err" in exp:
                continue
            want = (tuple(exp["cols"]), tuple(bag(exp["rows"])))
            res.append({"case": {k: v for k, v in c.items() if k != "pyspark"}, "impl": impl, "model": None, "spec": exp, "scope": c.get("scope", []),
                        "in_domain": True, "impl_eq_model": True, "impl_eq_spec": canon(impl) == want, "oracle_only": True})

    log(f"[C02] streams done at {ctx.elapsed():.1f}s; programs={len(res)}")
    model_mismatch = [r for r in res if not r["impl_eq_model"]]
    spec_mismatch = [r for r in res if r["in_domain"] and not r["impl_eq_spec"]]
    if model_mismatch:
        r0 = model_mismatch[0]
        ctx.broken.append(f"correspondence stream A (implementation vs Impl/C02Prog.lean): {len(model_mismatch)} of {len(res)} programs differ, first: {show_case(r0['case'])}")

    new_viol = []
    for r in spec_mismatch:
        if r.get("oracle_only"):
            # recorded scope of the oracle case tells which known hypotheses it violates
            if r["scope"] and all(h in known for h in r["scope"]):
                for h in r["scope"]:
                    vlib.report_known(ctx, known[h], known[h]["summary"])
            else:
                new_viol.append(r)
        elif is_known(r, known):
            for h in r["scope"]:
                vlib.report_known(ctx, known[h], known[h]["summary"])
        else:
            new_viol.append(r)

    # replay the recorded witnesses of open known findings on the real code
    if driver_ok:
        wit = [(e, e["witness"]) for e in known.values() if isinstance(e.get("witness"), dict) and "frames" in e["witness"]]
        if wit:
            for (e, _), r in zip(wit, evaluate([w for _, w in wit], workers=1)):
                if r["in_domain"] and not r["impl_eq_spec"]:
                    vlib.report_known(ctx, e, e["summary"])

    log(f"[C02] classification done at {ctx.elapsed():.1f}s; unexplained={len(new_viol)}")
    reported = 0
    # one report per distinct set of violated hypotheses, smallest programs first
    seen_sc = set()
    for r in sorted(new_viol, key=lambda r: (len(r["case"]["frames"]), sum(len(f.get("rows", [])) for f in r["case"]["frames"]))):
        key = tuple(r["scope"])
        if key in seen_sc or reported >= 3:
            continue
        seen_sc.add(key)
        if r.get("oracle_only"):
            rr = r
        else:
            c = shrink(r["case"], lambda x: x["in_domain"] and not x["impl_eq_spec"] and not is_known(x, known) and x["scope"] == r["scope"])
            rr = evaluate([c], workers=1)[0]
        vlib.report_violation(ctx, violation_payload(rr, ctx, "implementation differs from PySpark's join specification"))
        reported += 1
    if ctx.broken and not reported:
        first = None
        if model_mismatch:
            r0 = model_mismatch[0]
            first = {"program": show_case(r0["case"]), "case": r0["case"], "implementation": r0["impl"], "model": r0["model"], "specification": r0["spec"]}
        vlib.report_violation(
            ctx,
            {"kind": "proof obligation or correspondence no longer checks; no failing input found", "broken": ctx.broken,
             "searched": {"programs": len(res)}, "first_model_mismatch": first},
            no_input=True,
        )

    # thorough: a fresh live PySpark sample validates the specification beyond the recorded file
    live_n = live_ok = 0
    if ctx.thorough and driver_ok:
        sample = [r["case"] for r in res if r["in_domain"]]
        ctx.rng.shuffle(sample)
        sample = sample[:150]
        live = live_pyspark([{k: v for k, v in c.items() if k != "origin"} for c in sample])
        if live is not None:
            outs = run_driver(sample)
            for c, o, exp in zip(sample, outs, live):
                live_n += 1
                want = None if "err" in exp else (tuple(exp["cols"]), tuple(bag(exp["rows"])))
                if canon(o["spec"]) == want:
                    live_ok += 1
                else:
                    ctx.broken.append(f"stream C (live): specification differs from PySpark on {show_case(c)}: pyspark={json.dumps(exp)[:160]}")
                    break

    hist: t.Dict[str, int] = {}
    nontrivial = set()
    for r in res:
        o = r["case"].get("origin", "?").split(":")
        key = ":".join(o[:2]) if o[0] in ("single", "random", "spelled") else o[0]
        hist[key] = hist.get(key, 0) + 1
        if canon(r["impl"]) is not None and r["impl"]["rows"]:
            nontrivial.add(vlib.digest(r["case"]["frames"]))
    scope_hist: t.Dict[str, int] = {}
    for r in res:
        for h in r["scope"]:
            scope_hist[h] = scope_hist.get(h, 0) + 1
    ctx.cov.update({
        "evaluations": len(res),
        "distinct_nontrivial": len(nontrivial),
        "rule": "corpus; then join spellings x on-forms (name, [names], Column, [Columns], null-safe, none, F.col-based) x lineage (independent | common ancestor, 5 variants | aliased, 2 variants) "
                "x key multiplicities (plain, NULLs, duplicates, empty left, empty right, mixed) x a following select/where on either side; chains of 2 and 3 joins (+select/where); "
                "column names that need quoting (keys, shared and distinct non-keys, several keys, chains, capitalised); select with star arguments ('*', df['*'], 'a.*', col('a.*'), pairs, "
                "next to plain / re-spelled / computed columns, after a filter, over chains, references to the key instance a name-join hides); joins of session.sql statements whose WITH clauses "
                "use the same CTE names for different queries (1-3 CTEs per side, chains and a CTE reading two earlier ones, either side an ordinary DataFrame, three statements, the same statement twice); random draws. "
                "non-trivial = distinct programs whose implementation result has at least one row",
        "traces_validated_against_impl": sum(r["impl_eq_model"] for r in res),
        "impl_vs_spec_agree": sum(1 for r in res if r["in_domain"] and r["impl_eq_spec"]),
        "in_pyspark_domain": sum(1 for r in res if r["in_domain"]),
        "impl_vs_spec_differ_known": len(spec_mismatch) - len(new_viol),
        "implementation_errors": sum(1 for r in res if "err" in r["impl"]),
        "scope_hypothesis_histogram": scope_hist,
        "origin_histogram": hist,
        "merge_stream_with_clause_pairs": n_merge,
        "merge_stream_pairs_with_a_rename": n_merge_renamed,
        "names_rendered_against_live_code": n_render,
        "pyspark_oracle_programs": n_oracle,
        "pyspark_oracle_agree_with_spec": n_oracle_ok,
        "pyspark_live_programs": live_n,
        "pyspark_live_agree_with_spec": live_ok,
        "samples": [{"program": show_case(r["case"]), "result": r["impl"]} for r in res[:: max(1, len(res) // 4)][:4]],
    })
    ctx.assumptions += [
        "DuckDB evaluates one SELECT block as Core/Sql.lean says and one JOIN as Impl/C02Join.lean `joinTables` says (validated by stream A on every program)",
        "sqlglot turns the join_type string into the join Impl/C02Join.lean `kindOfJoinType` names and records `side` as `sideOfJoinType` says",
        "_add_ctes_to_expression preserves the value of every CTE it copies or renames (Impl/C02Prog.lean carries CTEs by value): proved for the name-level model of the loop (C02_merge_preserves, "
        "decisions regenerated, model compared with the real method by stream M) for WITH clauses that read backwards; the random filter added to a renamed CTE and the SELECT wrapped around a set operation are assumed value-preserving",
        "`quoteName` (which names the input dialect renders quoted) is hand-modelled and compared with Column.alias_or_name on the names the generators use",
        "PySpark's meaning of join / select / where / alias is Impl/C02Prog.lean `runSpec` (validated against PySpark 3.5.9: recorded file in the quick tier, live JVM sample in the thorough tier)",
        "bags, not row order, are compared",
    ]


def replay(ctx: Ctx, rp: dict) -> None:
    c = rp.get("case")
    if not c:
        print("replay names a broken obligation, not an input:", rp.get("broken"))
        return
    try:
        r = evaluate([c], workers=1)[0]
        spec, model, agree = r["spec"], r["model"], r["impl_eq_spec"]
        impl = r["impl"]
    except Exception:
        impl = run_impl(c)
        spec, model = rp.get("specification"), None
        agree = spec is not None and "err" not in impl and canon(impl) == (tuple(spec["cols"]), tuple(bag(spec["rows"])))
    print(json.dumps({"program": show_case(c), "implementation": impl, "specification": spec, "model": model, "agree": agree}, indent=1))
    if not agree:
        vlib.report_violation(ctx, dict(rp, implementation=impl, specification=spec))
