"""
C02 — joins return PySpark's rows and PySpark's output column list.

proof      : lean/SqlframeModel/Props/C02.lean over the regenerated Gen.Joins (+ Gen.Operations / Gen.Methods / Gen.Clauses)
tie        : Gen/Joins.lean regenerated from VERIF_REPO on every run and compared with the live Python objects;
             stream A: real sqlframe + DuckDB  vs  Impl/C02Prog.lean `runImpl`   (same programs, df.columns + collect() bags)
             stream C: Impl/C02Prog.lean `runSpec` vs PySpark 3.5.9 (recorded in tools/oracle/c02_pyspark.json; live JVM in the thorough tier)
search     : the same programs compare the implementation with the specification directly; a difference is a known
             finding only when the model predicts it and every violated named hypothesis is listed as open
"""
from __future__ import annotations

import ast
import itertools
import json
import os
import random
import subprocess
import sys
import typing as t

import vlib
from vlib import Ctx, bag, log, lval, plain

ID = "C02"
LEVEL = "proof"
MODULES = ["SqlframeModel.Props.C02"]
GEN = ["Joins", "Operations", "Methods", "Clauses"]
SOURCES = [
    "SqlframeModel/Props/C02.lean",
    "SqlframeModel/Lemmas/C02.lean",
    "SqlframeModel/Impl/C02Join.lean",
    "SqlframeModel/Impl/C02Prog.lean",
]
ORACLE = os.path.join(vlib.VERIF, "tools", "oracle", "c02_pyspark.json")
LOCAL_KNOWN = os.path.join(vlib.VERIF, "tools", "props", "c02.known.json")

SPELLINGS = [
    "inner", "cross", "outer", "full", "fullouter", "full_outer", "left", "leftouter", "left_outer",
    "right", "rightouter", "right_outer", "semi", "leftsemi", "left_semi", "anti", "leftanti", "left_anti",
]
KIND_OF = {
    "inner": "inner", "cross": "cross", "outer": "full", "full": "full", "fullouter": "full", "full_outer": "full",
    "left": "left", "leftouter": "left", "left_outer": "left", "right": "right", "rightouter": "right", "right_outer": "right",
    "semi": "semi", "leftsemi": "semi", "left_semi": "semi", "anti": "anti", "leftanti": "anti", "left_anti": "anti",
}


class _KindOf(dict):
    """PySpark reads `how` case-insensitively and ignoring underscores (JoinType.apply)"""

    def __missing__(self, how):
        return dict.__getitem__(self, how.lower().replace("_", ""))


KIND_OF = _KindOf(KIND_OF)


def respell(rng: random.Random, how: str) -> str:
    """a spelling PySpark reads as the same join: random upper-casing, underscores moved / inserted"""
    base = how.replace("_", "")
    out = []
    for i, ch in enumerate(base):
        if i and rng.random() < 0.25:
            out.append("_")
        out.append(ch.upper() if rng.random() < 0.5 else ch)
    s = "".join(out)
    return s if s != how else s.upper()


CAMEL = ["Inner", "CROSS", "Outer", "FULL", "FullOuter", "Full_Outer", "LEFT", "LeftOuter", "Left_Outer", "RIGHT", "RightOuter",
         "RIGHT_OUTER", "Semi", "LeftSemi", "LEFT_SEMI", "Anti", "LeftAnti", "Left_Anti"]
ONE_PER_KIND = ["inner", "cross", "outer", "left", "right", "semi", "anti"]
BIG = 1000

# ------------------------------------------------------------------------------------------------
# programs: {"frames": [frame...]}; a frame refers to earlier frames by index
# ------------------------------------------------------------------------------------------------


def ref_name(c):
    return ["ref", ["name", c]]


def ref_df(f, c):
    return ["ref", ["df", f, c]]


def ref_alias(a, c, as_str=False):
    return ["ref", ["alias", a, c, as_str]]


def lit(v):
    return ["lit", v]


def binop(op, a, b):
    return ["bin", op, a, b]


def base(cols, rows, spell=None):
    """`cols` are the case-folded names every reference uses; `spell` is how the DataFrame is created (default: as folded)"""
    fr = {"op": "base", "cols": list(cols), "rows": [list(r) for r in rows]}
    if spell is not None and list(spell) != list(cols):
        assert [x.lower() for x in spell] == list(cols)
        fr["spell"] = list(spell)
    return fr


def refs_of(e) -> t.List[list]:
    if e[0] == "ref":
        return [e[1]]
    out = []
    for x in e[1:]:
        if isinstance(x, list) and x and isinstance(x[0], str) and x[0] in ("ref", "lit", "bin", "not", "isNull"):
            out += refs_of(x)
    return out


# encoders to the Lean driver -------------------------------------------------------------------


def ref_to_lean(r):
    if r[0] == "name":
        return {"name": {"c": r[1]}}
    if r[0] == "df":
        return {"df": {"f": r[1], "c": r[2]}}
    if r[0] == "alias":
        return {"alias": {"a": r[1], "c": r[2], "asStr": bool(r[3])}}
    raise ValueError(r)


def pexpr_to_lean(e):
    k = e[0]
    if k == "ref":
        return {"ref": {"r": ref_to_lean(e[1])}}
    if k == "lit":
        return {"lit": {"v": lval(e[1])}}
    if k == "bin":
        return {"bin": {"op": e[1], "a": pexpr_to_lean(e[2]), "b": pexpr_to_lean(e[3])}}
    if k in ("not", "isNull"):
        return {k: {"a": pexpr_to_lean(e[1])}}
    raise ValueError(e)


def on_to_lean(on):
    f = on["form"]
    if f == "none":
        return "none"
    if f == "name":
        return {"names": {"ks": [on["k"]]}}
    if f == "names":
        return {"names": {"ks": list(on["ks"])}}
    if f == "expr":
        return {"exprs": {"es": [pexpr_to_lean(on["e"])]}}
    if f == "exprs":
        return {"exprs": {"es": [pexpr_to_lean(e) for e in on["es"]]}}
    raise ValueError(on)


def frame_to_lean(fr):
    op = fr["op"]
    if op == "base":
        tbl = {"cols": fr["cols"], "rows": [[lval(v) for v in r] for r in fr["rows"]]}
        if fr.get("spell"):
            return {"baseSpelled": {"t": tbl, "disp": fr["spell"]}}
        return {"base": {"t": tbl}}
    if op == "where":
        return {"wher": {"src": fr["src"], "p": pexpr_to_lean(fr["p"])}}
    if op == "select":
        return {"select": {"src": fr["src"], "items": [[n, pexpr_to_lean(e)] for n, e in fr["items"]]}}
    if op == "alias":
        return {"alias": {"src": fr["src"], "a": fr["a"]}}
    if op == "join":
        return {"join": {"l": fr["l"], "r": fr["r"], "on": on_to_lean(fr["on"]), "how": fr["how"] if fr.get("how") is not None else "inner"}}
    if op == "crossJoin":
        return {"crossJoin": {"l": fr["l"], "r": fr["r"]}}
    if op == "limit":
        return {"limit": {"src": fr["src"], "n": fr["n"]}}
    raise ValueError(fr)


def case_to_lean(i: int, c: dict) -> dict:
    return {"case": i, "prog": [frame_to_lean(f) for f in c["frames"]]}


# pretty printer ---------------------------------------------------------------------------------


def show_ref(r):
    if r[0] == "name":
        return f"col({r[1]!r})"
    if r[0] == "df":
        return f"f{r[1]}[{r[2]!r}]"
    return repr(f"{r[1]}.{r[2]}") if r[3] else f"col('{r[1]}.{r[2]}')"


def show_pexpr(e):
    k = e[0]
    if k == "ref":
        return show_ref(e[1])
    if k == "lit":
        return f"lit({e[1]!r})"
    if k == "bin":
        sym = {"add": "+", "sub": "-", "mul": "*", "lt": "<", "le": "<=", "gt": ">", "ge": ">=", "eq": "==", "ne": "!=", "and": "&", "or": "|", "nseq": "<=>"}[e[1]]
        return f"({show_pexpr(e[2])} {sym} {show_pexpr(e[3])})"
    if k == "not":
        return f"~{show_pexpr(e[1])}"
    if k == "isNull":
        return f"{show_pexpr(e[1])}.isNull()"
    return str(e)


def show_on(on):
    f = on["form"]
    if f == "none":
        return ""
    if f == "name":
        return repr(on["k"])
    if f == "names":
        return repr(list(on["ks"]))
    if f == "expr":
        return show_pexpr(on["e"])
    return "[" + ", ".join(show_pexpr(e) for e in on["es"]) + "]"


def show_case(c: dict) -> str:
    out = []
    for i, fr in enumerate(c["frames"]):
        op = fr["op"]
        if op == "base":
            s = f"createDataFrame({fr['rows']}, {fr.get('spell') or fr['cols']})"
        elif op == "where":
            s = f"f{fr['src']}.where({show_pexpr(fr['p'])})"
        elif op == "select":
            items = []
            for n, e in fr["items"]:
                items.append(show_pexpr(e) if (e[0] == "ref" and e[1][-2 if e[1][0] == "alias" else -1] == n) else f"{show_pexpr(e)}.alias({n!r})")
            s = f"f{fr['src']}.select({', '.join(items)})"
        elif op == "alias":
            s = f"f{fr['src']}.alias({fr['a']!r})"
        elif op == "join":
            args = [f"f{fr['r']}"]
            if fr["on"]["form"] != "none":
                args.append(show_on(fr["on"]))
            if fr.get("how") is not None:
                args.append(("how=" if fr["on"]["form"] == "none" else "") + repr(fr["how"]))
            s = f"f{fr['l']}.join({', '.join(args)})"
        elif op == "crossJoin":
            s = f"f{fr['l']}.crossJoin(f{fr['r']})"
        elif op == "limit":
            s = f"f{fr['src']}.limit({fr['n']})"
        else:
            s = str(fr)
        out.append(f"f{i} = {s}")
    return "; ".join(out)


# ------------------------------------------------------------------------------------------------
# running a program on a DataFrame implementation (real sqlframe, or PySpark for the oracle)
# ------------------------------------------------------------------------------------------------


def build_col(e, frames, F):
    k = e[0]
    if k == "ref":
        r = e[1]
        if r[0] == "name":
            return F.col(r[1])
        if r[0] == "df":
            return frames[r[1]][r[2]]
        return F.col(f"{r[1]}.{r[2]}")
    if k == "lit":
        return F.lit(e[1])
    if k == "bin":
        a, b = build_col(e[2], frames, F), build_col(e[3], frames, F)
        op = e[1]
        if op == "nseq":
            return a.eqNullSafe(b)
        return {
            "add": lambda: a + b, "sub": lambda: a - b, "mul": lambda: a * b, "lt": lambda: a < b, "le": lambda: a <= b,
            "gt": lambda: a > b, "ge": lambda: a >= b, "eq": lambda: a == b, "ne": lambda: a != b, "and": lambda: a & b, "or": lambda: a | b,
        }[op]()
    if k == "not":
        return ~build_col(e[1], frames, F)
    if k == "isNull":
        return build_col(e[1], frames, F).isNull()
    raise ValueError(e)


def build_on(on, frames, F):
    f = on["form"]
    if f == "name":
        return on["k"]
    if f == "names":
        return list(on["ks"])
    if f == "expr":
        return build_col(on["e"], frames, F)
    if f == "exprs":
        return [build_col(e, frames, F) for e in on["es"]]
    return None


def select_arg(n, e, frames, F):
    if e[0] == "ref":
        r = e[1]
        if r[0] == "name" and r[1] == n:
            return n  # a plain string
        if r[0] == "alias" and r[2] == n:
            return f"{r[1]}.{r[2]}" if r[3] else F.col(f"{r[1]}.{r[2]}")
        if r[0] == "df" and r[2] == n:
            return frames[r[1]][r[2]]
    return build_col(e, frames, F).alias(n)


def run_program(c: dict, session, F, make_base) -> t.Tuple[t.List[str], t.List[t.List[t.Any]]]:
    frames: t.List[t.Any] = []
    for fr in c["frames"]:
        op = fr["op"]
        if op == "base":
            df = make_base(session, fr.get("spell") or fr["cols"], fr["rows"])
        elif op == "where":
            df = frames[fr["src"]].where(build_col(fr["p"], frames, F))
        elif op == "select":
            df = frames[fr["src"]].select(*[select_arg(n, e, frames, F) for n, e in fr["items"]])
        elif op == "alias":
            df = frames[fr["src"]].alias(fr["a"])
        elif op == "join":
            kw = {}
            on = build_on(fr["on"], frames, F)
            if on is not None:
                kw["on"] = on
            if fr.get("how") is not None:
                kw["how"] = fr["how"]
            df = frames[fr["l"]].join(frames[fr["r"]], **kw)
        elif op == "crossJoin":
            df = frames[fr["l"]].crossJoin(frames[fr["r"]])
        elif op == "limit":
            df = frames[fr["src"]].limit(fr["n"])
        else:
            raise ValueError(op)
        frames.append(df)
    out = frames[-1]
    cols = list(out.columns)
    got = out.collect()
    if got and list(got[0].__fields__) != cols:
        raise AssertionError(f"Row fields {list(got[0].__fields__)} differ from df.columns {cols}")
    rows = [[plain(v) for v in r] for r in got]
    return cols, rows


def make_base_sqlframe(session, cols, rows):
    ddl = ", ".join(f"{c} bigint" for c in cols)
    return session.createDataFrame([tuple(r) for r in rows], schema=ddl)


_SESSION = None


def session():
    global _SESSION
    if _SESSION is None:
        _SESSION = vlib.fresh_duckdb_session()
    return _SESSION


def run_impl(c: dict) -> dict:
    import logging

    logging.getLogger("sqlframe").setLevel(logging.ERROR)
    if vlib.REPO not in sys.path:
        sys.path.insert(0, vlib.REPO)
    try:
        s = session()
        from sqlframe.duckdb import functions as F

        cols, rows = run_program(c, s, F, make_base_sqlframe)
        return {"cols": cols, "rows": rows}
    except Exception as e:  # noqa
        return {"err": f"{type(e).__name__}: {str(e)[:160]}"}


# ------------------------------------------------------------------------------------------------
# generation
# ------------------------------------------------------------------------------------------------

KEYS = {
    "plain": ([1, 2, 3], [1, 2, 4]),
    "nulls": ([1, None, 2, None], [None, 2, 3]),
    "dups": ([1, 2, 2, 3], [2, 2, 1, 5]),
    "emptyL": ([], [1, 2, None]),
    "emptyR": ([1, None, 2], []),
    "mixed": ([1, 2, None, 2], [1, 2, None, 3]),
}
MULTS = list(KEYS)


def table_rows(keys: t.List[t.Any], ncols: int, seed: int) -> t.List[t.List[t.Any]]:
    rows = []
    for i, k in enumerate(keys):
        rows.append([k] + [seed + 10 * (i + 1) + j for j in range(ncols - 1)])
    return rows


def empty_base(prog: t.List[dict], cols: t.List[str]) -> int:
    """an empty frame: createDataFrame cannot build one from no data, so filter a one-row frame"""
    prog.append(base(cols, [[0] * len(cols)]))
    prog.append({"op": "where", "src": len(prog) - 1, "p": binop("eq", lit(1), lit(0))})
    return len(prog) - 1


def add_base(prog: t.List[dict], cols: t.List[str], keys: t.List[t.Any], seed: int) -> int:
    if not keys:
        return empty_base(prog, cols)
    prog.append(base(cols, table_rows(keys, len(cols), seed)))
    return len(prog) - 1


def on_variants(shape: str, li: int, ri: int, lcols: t.List[str], rcols: t.List[str]) -> t.List[t.Tuple[str, dict]]:
    """the on-forms of the property statement for a left frame li and right frame ri sharing key `k`"""

    def kref(side):
        if shape == "aliased":
            return ref_alias("x" if side == "l" else "y", "k")
        return ref_df(li if side == "l" else ri, "k")

    lnon = [c for c in lcols if c != "k"][0]
    rnon = [c for c in rcols if c != "k"][0]

    def nref(side):
        if shape == "aliased":
            return ref_alias("x" if side == "l" else "y", lnon if side == "l" else rnon)
        return ref_df(li if side == "l" else ri, lnon if side == "l" else rnon)

    out = [
        ("name", {"form": "name", "k": "k"}),
        ("names", {"form": "names", "ks": ["k"]}),
        ("expr", {"form": "expr", "e": binop("eq", kref("l"), kref("r"))}),
        ("exprs", {"form": "exprs", "es": [binop("eq", kref("l"), kref("r")), binop("lt", nref("l"), nref("r"))]}),
        ("nullsafe", {"form": "expr", "e": binop("nseq", kref("l"), kref("r"))}),
        # ONE Column mentioning each side twice (a conjunction), as opposed to a list of conditions
        ("and", {"form": "expr", "e": binop("and", binop("eq", kref("l"), kref("r")), binop("lt", nref("l"), nref("r")))}),
        ("none", {"form": "none"}),
    ]
    if lnon != rnon and shape == "independent":
        out.append(("fcol", {"form": "expr", "e": binop("lt", ref_name(lnon), ref_name(rnon))}))
    return out


def lineage(shape: str, variant: int, mult: str, rcols: t.List[str]) -> t.Tuple[t.List[dict], int, int, t.List[str], t.List[str]]:
    """build the two inputs; returns (frames, left index, right index, left columns, right columns)"""
    kl, kr = KEYS[mult]
    prog: t.List[dict] = []
    if shape == "independent":
        li = add_base(prog, ["k", "v"], kl, 0)
        ri = add_base(prog, rcols, kr, 100)
        return prog, li, ri, ["k", "v"], rcols
    if shape == "aliased":
        a = add_base(prog, ["k", "v"], kl, 0)
        if variant % 2 == 0:
            b = add_base(prog, rcols, kr, 100)
            prog.append({"op": "alias", "src": a, "a": "x"})
            li = len(prog) - 1
            prog.append({"op": "alias", "src": b, "a": "y"})
            return prog, li, len(prog) - 1, ["k", "v"], rcols
        prog.append({"op": "alias", "src": a, "a": "x"})
        li = len(prog) - 1
        prog.append({"op": "alias", "src": a, "a": "y"})
        return prog, li, len(prog) - 1, ["k", "v"], ["k", "v"]
    # common ancestor
    a = add_base(prog, ["k", "v"], kl or [1, 2, None], 0)
    v = variant % 5
    if v == 0:  # the same handle on both sides
        return prog, a, a, ["k", "v"], ["k", "v"]
    if v == 1:  # right = filtered left
        prog.append({"op": "where", "src": a, "p": binop("gt", ref_name("v"), lit(10))})
        return prog, a, len(prog) - 1, ["k", "v"], ["k", "v"]
    if v == 2:  # right = re-projected left, the non-key column recomputed under the same name
        prog.append({"op": "select", "src": a, "items": [["k", ref_name("k")], ["v", binop("add", ref_name("v"), lit(1))]]})
        return prog, a, len(prog) - 1, ["k", "v"], ["k", "v"]
    if v == 3:  # right = re-projected left, the non-key column renamed
        prog.append({"op": "select", "src": a, "items": [["k", ref_name("k")], ["u", ref_name("v")]]})
        return prog, a, len(prog) - 1, ["k", "v"], ["k", "u"]
    # left derived, right = the ancestor
    prog.append({"op": "select", "src": a, "items": [["k", ref_name("k")], ["u", binop("mul", ref_name("v"), lit(2))]]})
    return prog, len(prog) - 1, a, ["k", "u"], ["k", "v"]


def post_variants(shape: str, li: int, ri: int, lcols: t.List[str], rcols: t.List[str], on_kind: str, how: str, j: int) -> t.List[t.Tuple[str, t.List[dict]]]:
    """select / where on either side's columns after the join frame j"""
    kind = KIND_OF[how]
    left_only = kind in ("semi", "anti")
    lnon = [c for c in lcols if c != "k"][0]
    rnon = [c for c in rcols if c != "k"][0]

    def sref(side, c):
        if shape == "aliased":
            return ref_alias("x" if side == "l" else "y", c)
        return ref_df(li if side == "l" else ri, c)

    out: t.List[t.Tuple[str, t.List[dict]]] = [("none", [])]
    sel = [[lnon, sref("l", lnon)]]
    if not left_only:
        sel.append([rnon, sref("r", rnon)])
    out.append(("select-sides", [{"op": "select", "src": j, "items": sel}]))
    out.append(("where-left", [{"op": "where", "src": j, "p": binop("gt", sref("l", lnon), lit(15))}]))
    if not left_only:
        out.append(("where-right", [{"op": "where", "src": j, "p": binop("gt", sref("r", rnon), lit(115))}]))
    if on_kind in ("name", "names"):
        out.append(("where-key", [{"op": "where", "src": j, "p": binop("gt", ref_name("k"), lit(1))}]))
        ksel = [["k", ref_name("k")], [lnon, sref("l", lnon)]]
        out.append(("select-key", [{"op": "select", "src": j, "items": ksel}]))
    if lnon != rnon:
        out.append(("where-names", [{"op": "where", "src": j, "p": binop("gt", ref_name(lnon), lit(15))}]))
    out.append(("limit-where", [{"op": "limit", "src": j, "n": BIG}, {"op": "where", "src": j + 1, "p": binop("ge", sref("l", lnon) if shape != "aliased" else ref_name(lnon), lit(0))}]))
    if shape == "aliased":
        s2 = [[lnon, ref_alias("x", lnon, True)]]
        if not left_only:
            s2.append([rnon, ref_alias("y", rnon, True)])
        out.append(("select-strings", [{"op": "select", "src": j, "items": s2}]))
    return out


def single_join_cases(rng: random.Random, thorough: bool) -> t.List[dict]:
    cases: t.List[dict] = []
    for shape in ("independent", "common", "aliased"):
        variants = {"independent": [0], "common": [0, 1, 2, 3, 4], "aliased": [0, 1]}[shape]
        for variant in variants:
            for how in SPELLINGS:
                rcols_opts = [["k", "w"]] + ([["k", "v"]] if shape == "independent" else [])
                for rcols0 in rcols_opts:
                    mults = MULTS if (thorough or how in ONE_PER_KIND) else [rng.choice(MULTS)]
                    base_prog, li, ri, lcols, rcols = lineage(shape, variant, "mixed", rcols0)
                    for on_kind, _ in on_variants(shape, li, ri, lcols, rcols):
                        pick = mults if (thorough or on_kind in ("name", "expr")) else ([rng.choice(mults)] + (["mixed"] if on_kind == "and" else []))
                        for mult in pick:
                            prog, li, ri, lcols, rcols = lineage(shape, variant, mult, rcols0)
                            on = dict(on_variants(shape, li, ri, lcols, rcols))[on_kind]
                            jf = {"op": "join", "l": li, "r": ri, "on": on, "how": how}
                            j = len(prog)
                            posts = post_variants(shape, li, ri, lcols, rcols, on_kind, how, j)
                            chosen = posts if (thorough and mult == "mixed") else ([posts[0]] + ([rng.choice(posts[1:])] if mult in ("mixed", "nulls") else []))
                            for pname, post in chosen:
                                cases.append({"frames": prog + [jf] + post, "origin": f"single:{shape}{variant}:{how}:{on_kind}:{mult}:{pname}"})
    # spellings outside the documented table that PySpark accepts (case, underscores)
    for how in CAMEL + [respell(rng, h) for h in SPELLINGS]:
        prog, li, ri, lcols, rcols = lineage("independent", 0, "mixed", ["k", "w"])
        ons = dict(on_variants("independent", li, ri, lcols, rcols))
        for on_kind in ("name", "expr"):
            cases.append({"frames": prog + [{"op": "join", "l": li, "r": ri, "on": ons[on_kind], "how": how}], "origin": f"single:respelled-how:{how}:{on_kind}"})
        if KIND_OF[how] not in ("cross",):
            cases.append({"frames": prog + [{"op": "join", "l": li, "r": ri, "on": {"form": "none"}, "how": how}], "origin": f"single:respelled-how:{how}:none"})
    # join() with no `how`, crossJoin()
    for mult in MULTS:
        prog, li, ri, lcols, rcols = lineage("independent", 0, mult, ["k", "w"])
        cases.append({"frames": prog + [{"op": "join", "l": li, "r": ri, "on": {"form": "name", "k": "k"}, "how": None}], "origin": f"single:default-how:{mult}"})
        cases.append({"frames": prog + [{"op": "join", "l": li, "r": ri, "on": {"form": "none"}, "how": None}], "origin": f"single:no-args:{mult}"})
        cases.append({"frames": prog + [{"op": "crossJoin", "l": li, "r": ri}], "origin": f"single:crossJoin:{mult}"})
    # two key columns
    for how in ONE_PER_KIND:
        for ks in (["k", "g"], ["g", "k"]):
            prog = [base(["k", "g", "v"], [[1, 1, 10], [1, 2, 20], [None, 1, 30], [2, None, 40], [2, 2, 50]]),
                    base(["g", "k", "w"], [[1, 1, 100], [2, 1, 200], [1, None, 300], [2, 2, 400], [2, 2, 500], [3, 3, 600]])]
            cases.append({"frames": prog + [{"op": "join", "l": 0, "r": 1, "on": {"form": "names", "ks": ks}, "how": how}], "origin": f"single:two-keys:{how}:{ks}"})
    return cases


def spelled_cases(rng: random.Random, thorough: bool) -> t.List[dict]:
    """column names spelled with different letter case on the two sides (PySpark resolves names case-insensitively and
    reports each output column with the spelling of the attribute it comes from); df.columns / Row fields compared exactly"""
    cases: t.List[dict] = []
    lrows = [[1, 10], [2, 20], [2, 25], [None, 99]]
    rrows = [[2, 7], [3, 8], [None, 9]]
    variants = [
        ("key", ["Cust_ID", "Total"], ["cust_id", "Region"]),          # only the key differs in case
        ("key-upper", ["cust_id", "total"], ["CUST_ID", "Region"]),
        ("nonkey", ["Cust_ID", "Val"], ["cust_id", "val"]),            # a non-key name differs in case as well
        ("same", ["Cust_ID", "Total"], ["Cust_ID", "Region"]),
    ]
    hows = SPELLINGS if thorough else ONE_PER_KIND
    for vname, ls, rs in variants:
        lc, rc = [x.lower() for x in ls], [x.lower() for x in rs]
        for how in hows:
            for on in ({"form": "name", "k": "cust_id"}, {"form": "names", "ks": ["cust_id"]},
                       {"form": "expr", "e": binop("eq", ref_df(0, "cust_id"), ref_df(1, "cust_id"))}):
                if on["form"] == "names" and not thorough and how not in ("inner", "outer"):
                    continue
                prog = [base(lc, lrows, ls), base(rc, rrows, rs), {"op": "join", "l": 0, "r": 1, "on": on, "how": how}]
                cases.append({"frames": prog, "origin": f"spelled:{vname}:{how}:{on['form']}"})
                if on["form"] == "name" and how in ("inner", "left", "outer"):
                    cases.append({"frames": prog + [{"op": "where", "src": 2, "p": binop("gt", ref_name(lc[1]), lit(0))}], "origin": f"spelled:{vname}:{how}:name:where"})
        # chains: the spelling of the first join's result feeds the second join
        for h1, h2 in (("left", "left"), ("inner", "outer"), ("outer", "inner"), ("left", "semi")):
            prog = [base(lc, lrows, ls), base(rc, rrows, rs), base(["cust_id", "zz"], [[2, 5], [1, 6]], ["CUST_id", "Zz"]),
                    {"op": "join", "l": 0, "r": 1, "on": {"form": "name", "k": "cust_id"}, "how": h1},
                    {"op": "join", "l": 3, "r": 2, "on": {"form": "name", "k": "cust_id"}, "how": h2}]
            cases.append({"frames": prog, "origin": f"spelled:{vname}:chain:{h1}/{h2}"})
    return cases


def chain_cases(rng: random.Random, thorough: bool) -> t.List[dict]:
    """chains of 2 and 3 joins over independent inputs, followed by select/where on any side's columns"""
    cases: t.List[dict] = []
    kinds = ONE_PER_KIND
    tables = [(["k", "v"], [1, 2, None, 3, 2], 0), (["k", "w"], [1, 2, None, 4], 100), (["k", "z"], [1, 3, 3, None], 200), (["k", "y"], [1, 2, 3], 300)]
    for n in (2, 3):
        hows_all = list(itertools.product(kinds, repeat=n))
        if not thorough:
            hows_all = rng.sample(hows_all, 40 if n == 2 else 30)
        for hows in hows_all:
            for on_style in ("name", "expr-first", "expr-prev", "mixed", "expr-then-name"):
                if not thorough and rng.random() < 0.5:
                    continue
                prog: t.List[dict] = []
                idx = []
                for cols, keys, seed in tables[: n + 1]:
                    idx.append(add_base(prog, cols, keys, seed))
                cur = idx[0]
                visible = [0]  # inputs whose columns are still visible
                ok = True
                for step in range(n):
                    how = hows[step]
                    r = idx[step + 1]
                    style = on_style
                    if on_style == "mixed":
                        style = "name" if step % 2 == 0 else "expr-prev"
                    elif on_style == "expr-then-name":
                        style = "expr-prev" if step == 0 else "name"
                    if style == "name":
                        on = {"form": "name", "k": "k"}
                    else:
                        lside = idx[0] if style == "expr-first" else idx[visible[-1]]
                        on = {"form": "expr", "e": binop("eq", ref_df(lside, "k"), ref_df(r, "k"))}
                    prog.append({"op": "join", "l": cur, "r": r, "on": on, "how": how})
                    cur = len(prog) - 1
                    if KIND_OF[how] not in ("semi", "anti"):
                        visible.append(step + 1)
                if not ok:
                    continue
                posts: t.List[t.List[dict]] = [[]]
                nonkey = {0: "v", 1: "w", 2: "z", 3: "y"}
                sel = [[nonkey[i], ref_df(idx[i], nonkey[i])] for i in visible]
                posts.append([{"op": "select", "src": cur, "items": sel}])
                last = visible[-1]
                posts.append([{"op": "where", "src": cur, "p": binop("gt", ref_name(nonkey[last]), lit(0))}])
                posts.append([{"op": "select", "src": cur, "items": [[nonkey[i], ref_name(nonkey[i])] for i in visible]}, {"op": "where", "src": cur + 1, "p": binop("gt", ref_name("v"), lit(5))}])
                for post in (posts if thorough else [posts[0], rng.choice(posts[1:])]):
                    cases.append({"frames": prog + post, "origin": f"chain{n}:{'/'.join(hows)}:{on_style}"})
    # the same DataFrame joined twice (its frozen CTE name clashes with the copy already in the chain), and x.join(x)
    for how in (["inner", "left", "right", "outer", "semi"] if not thorough else ONE_PER_KIND):
        for derive in ("select", "where", "base"):
            for between in ("none", "select"):
                prog = []
                a = add_base(prog, ["k", "v"], [1, 2, None, 2], 0)
                b = add_base(prog, ["k", "w"], [2, 3, None, 2], 100)
                if derive == "select":
                    prog.append({"op": "select", "src": b, "items": [["k", ref_name("k")], ["w", ref_name("w")]]})
                    b = len(prog) - 1
                elif derive == "where":
                    prog.append({"op": "where", "src": b, "p": binop("gt", ref_name("w"), lit(0))})
                    b = len(prog) - 1
                prog.append({"op": "join", "l": a, "r": b, "on": {"form": "name", "k": "k"}, "how": "inner"})
                cur = len(prog) - 1
                if between == "select":
                    prog.append({"op": "select", "src": cur, "items": [["k", ref_name("k")], ["v", ref_name("v")]]})
                    cur = len(prog) - 1
                prog.append({"op": "join", "l": cur, "r": b, "on": {"form": "name", "k": "k"}, "how": how})
                cases.append({"frames": prog, "origin": f"chain:twice:{derive}:{between}:{how}"})
            if derive != "base":
                prog = []
                a = add_base(prog, ["k", "v"], [1, 2, None, 2], 0)
                if derive == "select":
                    prog.append({"op": "select", "src": a, "items": [["k", ref_name("k")], ["v", ref_name("v")]]})
                else:
                    prog.append({"op": "where", "src": a, "p": binop("gt", ref_name("v"), lit(0))})
                x = len(prog) - 1
                prog.append({"op": "join", "l": x, "r": x, "on": {"form": "name", "k": "k"}, "how": how})
                cases.append({"frames": prog, "origin": f"chain:self-twice:{derive}:{how}"})
    # a select between two joins (the first join is frozen into a CTE before the second)
    for h1, h2 in itertools.product(["inner", "left", "right", "outer"], repeat=2):
        prog = []
        a = add_base(prog, ["k", "v"], [1, 2, None, 2], 0)
        b = add_base(prog, ["k", "w"], [1, 2, None, 3], 100)
        c = add_base(prog, ["k", "z"], [1, 3, 3, None], 200)
        prog.append({"op": "join", "l": a, "r": b, "on": {"form": "name", "k": "k"}, "how": h1})
        prog.append({"op": "select", "src": len(prog) - 1, "items": [["k", ref_name("k")], ["v", ref_name("v")], ["w", ref_name("w")]]})
        prog.append({"op": "join", "l": len(prog) - 1, "r": c, "on": {"form": "name", "k": "k"}, "how": h2})
        cases.append({"frames": prog, "origin": f"chain:select-between:{h1}/{h2}"})
    return cases


def random_cases(rng: random.Random, n: int) -> t.List[dict]:
    out = []
    for _ in range(n):
        shape = rng.choice(["independent", "independent", "common", "aliased"])
        variant = rng.randrange(5)
        how = rng.choice(SPELLINGS)
        rcols0 = rng.choice([["k", "w"], ["k", "v"]]) if shape == "independent" else ["k", "w"]
        mult = rng.choice(MULTS)
        prog, li, ri, lcols, rcols = lineage(shape, variant, mult, rcols0)
        # random key values instead of the fixed pools
        for fr in prog:
            if fr["op"] == "base" and len(fr["rows"]) > 1:
                for r in fr["rows"]:
                    r[0] = rng.choice([None, 1, 2, 2, 3])
        on_kind, on = rng.choice(on_variants(shape, li, ri, lcols, rcols))
        j = len(prog)
        posts = post_variants(shape, li, ri, lcols, rcols, on_kind, how, j)
        pname, post = rng.choice(posts)
        out.append({"frames": prog + [{"op": "join", "l": li, "r": ri, "on": on, "how": how}] + post, "origin": f"random:{shape}{variant}:{how}:{on_kind}:{mult}:{pname}"})
    return out


def corpus_cases() -> t.List[dict]:
    cases = []
    d = os.path.join(vlib.VERIF, "corpus", ID)
    if os.path.isdir(d):
        for fn in sorted(os.listdir(d)):
            if fn.endswith(".json"):
                c = json.load(open(os.path.join(d, fn)))
                c["origin"] = "corpus:" + fn
                cases.append(c)
    return cases


def cases_for(ctx: Ctx) -> t.List[dict]:
    cases = corpus_cases()
    cases += single_join_cases(ctx.rng, ctx.thorough)
    cases += chain_cases(ctx.rng, ctx.thorough)
    cases += spelled_cases(ctx.rng, ctx.thorough)
    cases += random_cases(ctx.rng, 3000 if ctx.thorough else 250)
    return cases


# ------------------------------------------------------------------------------------------------
# evaluation and comparison
# ------------------------------------------------------------------------------------------------


def canon(x: t.Optional[dict]) -> t.Optional[t.Tuple[t.Tuple[str, ...], t.Tuple[str, ...]]]:
    if x is None or "err" in x:
        return None
    return (tuple(x["cols"]), tuple(bag(x["rows"])))


def gen_is_current() -> bool:
    """do the Gen modules on disk belong to VERIF_REPO? (other checks regenerate Gen/ from their own VERIF_REPO)"""
    import importlib

    tr = importlib.import_module("translate")
    for g in GEN:
        try:
            text = tr.GENERATORS[g](vlib.REPO)
            with open(os.path.join(vlib.GEN_DIR, g + ".lean"), encoding="utf-8") as f:
                if f.read() != text:
                    return False
        except Exception:
            return False
    return True


def run_driver(cases: t.List[dict]) -> t.List[dict]:
    """the Lean driver on `cases`; when a concurrent check has regenerated Gen/ from another tree, re-translate and
    rebuild the model first (exclusive lock, released before vlib.run_driver takes its own shared lock)"""
    if not gen_is_current():
        with vlib.lean_lock():
            st = vlib.translate(GEN)
            if not all(st.get(g, {}).get("ok") for g in GEN):
                raise RuntimeError("Gen untranslatable: " + "; ".join(f"{g}: {st.get(g, {}).get('reason')}" for g in GEN if not st.get(g, {}).get("ok")))
            ok, out = vlib.lake_build(["SqlframeModel.Codec.C02"])
            if not ok:
                raise RuntimeError("model does not build against the regenerated Gen: " + out[-300:])
    return vlib.run_driver("C02", [case_to_lean(i, c) for i, c in enumerate(cases)])


def evaluate(cases: t.List[dict], workers: int = 0) -> t.List[dict]:
    outs = run_driver(cases)
    impls = vlib.parallel_map(run_impl, cases, workers)
    res = []
    for c, o, impl in zip(cases, outs, impls):
        if "err" in o:
            raise RuntimeError(f"driver rejected a case: {o} :: {show_case(c)}")
        ci, cm, cs = canon(impl), canon(o["model"]), canon(o["spec"])
        res.append({
            "case": c, "impl": impl, "model": o["model"], "spec": o["spec"], "scope": o["scope"],
            "in_domain": o["spec"] is not None,
            "impl_eq_model": ci == cm,
            "impl_eq_spec": (ci == cs) if o["spec"] is not None else True,
        })
    return res


def known_entries() -> t.Dict[str, dict]:
    known = {e["id"]: e for e in vlib.known_findings(ID)}
    if os.path.exists(LOCAL_KNOWN):
        for e in json.load(open(LOCAL_KNOWN)).get("findings", []):
            if e.get("property") == ID and e.get("status") == "open":
                known.setdefault(e["id"], e)
    return known


def is_known(r: dict, known: t.Dict[str, dict]) -> bool:
    return bool(r["scope"]) and all(h in known for h in r["scope"]) and r["impl_eq_model"]


def shrink(c: dict, failing: t.Callable[[dict], bool], rounds: int = 8) -> dict:
    """greedy: drop trailing frames that nothing needs, then rows of the base tables"""
    best = c
    for _ in range(rounds):
        cands = []
        fr = best["frames"]
        if len(fr) > 1 and fr[-1]["op"] in ("select", "where", "limit"):
            cands.append(dict(best, frames=fr[:-1]))
        for i, f in enumerate(fr):
            if f["op"] == "base" and len(f["rows"]) > 1:
                for k in range(len(f["rows"])):
                    nf = dict(f, rows=f["rows"][:k] + f["rows"][k + 1:])
                    cands.append(dict(best, frames=fr[:i] + [nf] + fr[i + 1:]))
        if not cands:
            break
        res = evaluate(cands, workers=1)
        nxt = next((r["case"] for r in res if failing(r)), None)
        if nxt is None:
            break
        best = nxt
    return best


# ------------------------------------------------------------------------------------------------
# the generated decisions vs the running code
# ------------------------------------------------------------------------------------------------


def check_gen_against_live(ctx: Ctx) -> None:
    """Gen/Joins.lean's table must be the JOIN_TYPE_MAPPING the interpreter actually has"""
    path = os.path.join(vlib.GEN_DIR, "Joins.lean")
    if not os.path.exists(path):
        return
    src = open(path, encoding="utf-8").read()
    import re

    m = re.search(r"def joinTypeMapping : List \(String × String\) := \[(.*?)\n\]", src, flags=re.S)
    pairs = re.findall(r'\("([^"]*)", "([^"]*)"\)', m.group(1)) if m else []
    try:
        if vlib.REPO not in sys.path:
            sys.path.insert(0, vlib.REPO)
        from sqlframe.base import dataframe as D

        live = list(D.JOIN_TYPE_MAPPING.items())
    except Exception as e:  # noqa
        ctx.broken.append(f"cannot import sqlframe.base.dataframe: {e}")
        return
    if [tuple(p) for p in pairs] != live:
        ctx.broken.append(f"translator disagreement: Gen.joinTypeMapping {pairs} vs live JOIN_TYPE_MAPPING {live}")


# ------------------------------------------------------------------------------------------------
# PySpark oracle (recorded; live in the thorough tier)
# ------------------------------------------------------------------------------------------------


def oracle_cases() -> t.List[dict]:
    if not os.path.exists(ORACLE):
        return []
    return json.load(open(ORACLE))["cases"]


def check_oracle(ctx: Ctx) -> t.Tuple[int, int]:
    """the Lean specification must reproduce what PySpark returned for every recorded program"""
    oc = oracle_cases()
    if not oc:
        ctx.broken.append("PySpark oracle file missing or empty")
        return 0, 0
    outs = run_driver(oc)
    bad = []
    for c, o in zip(oc, outs):
        exp = c["pyspark"]
        got = canon(o.get("spec"))
        want = None if "err" in exp else (tuple(exp["cols"]), tuple(bag(exp["rows"])))
        if got != want:
            bad.append((c, exp, o.get("spec")))
    if bad:
        c, exp, got = bad[0]
        ctx.broken.append(f"stream C: the specification differs from recorded PySpark on {len(bad)} of {len(oc)} programs, first: {show_case(c)} pyspark={json.dumps(exp)[:200]} spec={json.dumps(got)[:200]}")
    return len(oc), len(oc) - len(bad)


def live_pyspark(cases: t.List[dict], timeout: int = 600) -> t.Optional[t.List[dict]]:
    script = os.path.join(vlib.VERIF, "tools", "oracle", "mk_c02_pyspark.py")
    env = dict(os.environ, PYSPARK_PYTHON="/venv/bin/python")
    try:
        p = subprocess.run(["/venv/bin/python", script, "--stdin"], input=json.dumps(cases), capture_output=True, text=True, timeout=timeout, env=env)
        if p.returncode != 0:
            log("live PySpark failed:", p.stderr[-400:])
            return None
        return json.loads(p.stdout.strip().split("\n")[-1])
    except Exception as e:  # noqa
        log("live PySpark unavailable:", e)
        return None


# ------------------------------------------------------------------------------------------------
# the check
# ------------------------------------------------------------------------------------------------


def violation_payload(rr: dict, ctx: Ctx, kind: str) -> dict:
    return {
        "kind": kind,
        "program": show_case(rr["case"]),
        "case": rr["case"],
        "implementation": rr["impl"],
        "specification": rr["spec"],
        "model": rr["model"],
        "violated_scope_hypotheses": rr["scope"],
        "broken": ctx.broken,
    }


def run(ctx: Ctx) -> None:
    idx = vlib.props_index()[ID]
    vlib.prove(ctx, MODULES, GEN, idx["theorems"], SOURCES)
    log(f"[C02] prove done at {ctx.elapsed():.1f}s; broken={len(ctx.broken)}")
    check_gen_against_live(ctx)
    known = known_entries()

    driver_ok = os.path.exists(os.path.join(vlib.GEN_DIR, "Joins.lean"))
    cases = cases_for(ctx)
    res: t.List[dict] = []
    n_oracle = n_oracle_ok = 0
    if driver_ok:
        try:
            res = evaluate(cases)
            n_oracle, n_oracle_ok = check_oracle(ctx)
        except Exception as e:  # the model no longer builds against the regenerated Gen
            ctx.broken.append(f"Lean driver unavailable: {str(e)[-300:]}")
            driver_ok = False
    if not driver_ok:
        # no model to consult: compare the implementation with the recorded PySpark expectations directly
        res = []
        oc = oracle_cases()
        impls = vlib.parallel_map(run_impl, oc)
        for c, impl in zip(oc, impls):
            exp = c["pyspark"]
            if "err" in exp:
                continue
            want = (tuple(exp["cols"]), tuple(bag(exp["rows"])))
            res.append({"case": {k: v for k, v in c.items() if k != "pyspark"}, "impl": impl, "model": None, "spec": exp, "scope": c.get("scope", []),
                        "in_domain": True, "impl_eq_model": True, "impl_eq_spec": canon(impl) == want, "oracle_only": True})

    log(f"[C02] streams done at {ctx.elapsed():.1f}s; programs={len(res)}")
    model_mismatch = [r for r in res if not r["impl_eq_model"]]
    spec_mismatch = [r for r in res if r["in_domain"] and not r["impl_eq_spec"]]
    if model_mismatch:
        r0 = model_mismatch[0]
        ctx.broken.append(f"correspondence stream A (implementation vs Impl/C02Prog.lean): {len(model_mismatch)} of {len(res)} programs differ, first: {show_case(r0['case'])}")

    new_viol = []
    for r in spec_mismatch:
        if r.get("oracle_only"):
            # recorded scope of the oracle case tells which known hypotheses it violates
            if r["scope"] and all(h in known for h in r["scope"]):
                for h in r["scope"]:
                    vlib.report_known(ctx, known[h], known[h]["summary"])
            else:
                new_viol.append(r)
        elif is_known(r, known):
            for h in r["scope"]:
                vlib.report_known(ctx, known[h], known[h]["summary"])
        else:
            new_viol.append(r)

    # replay the recorded witnesses of open known findings on the real code
    if driver_ok:
        wit = [(e, e["witness"]) for e in known.values() if isinstance(e.get("witness"), dict) and "frames" in e["witness"]]
        if wit:
            for (e, _), r in zip(wit, evaluate([w for _, w in wit], workers=1)):
                if r["in_domain"] and not r["impl_eq_spec"]:
                    vlib.report_known(ctx, e, e["summary"])

    log(f"[C02] classification done at {ctx.elapsed():.1f}s; unexplained={len(new_viol)}")
    reported = 0
    # one report per distinct set of violated hypotheses, smallest programs first
    seen_sc = set()
    for r in sorted(new_viol, key=lambda r: (len(r["case"]["frames"]), sum(len(f.get("rows", [])) for f in r["case"]["frames"]))):
        key = tuple(r["scope"])
        if key in seen_sc or reported >= 3:
            continue
        seen_sc.add(key)
        if r.get("oracle_only"):
            rr = r
        else:
            c = shrink(r["case"], lambda x: x["in_domain"] and not x["impl_eq_spec"] and not is_known(x, known) and x["scope"] == r["scope"])
            rr = evaluate([c], workers=1)[0]
        vlib.report_violation(ctx, violation_payload(rr, ctx, "implementation differs from PySpark's join specification"))
        reported += 1
    if ctx.broken and not reported:
        first = None
        if model_mismatch:
            r0 = model_mismatch[0]
            first = {"program": show_case(r0["case"]), "case": r0["case"], "implementation": r0["impl"], "model": r0["model"], "specification": r0["spec"]}
        vlib.report_violation(
            ctx,
            {"kind": "proof obligation or correspondence no longer checks; no failing input found", "broken": ctx.broken,
             "searched": {"programs": len(res)}, "first_model_mismatch": first},
            no_input=True,
        )

    # thorough: a fresh live PySpark sample validates the specification beyond the recorded file
    live_n = live_ok = 0
    if ctx.thorough and driver_ok:
        sample = [r["case"] for r in res if r["in_domain"]]
        ctx.rng.shuffle(sample)
        sample = sample[:150]
        live = live_pyspark([{k: v for k, v in c.items() if k != "origin"} for c in sample])
        if live is not None:
            outs = run_driver(sample)
            for c, o, exp in zip(sample, outs, live):
                live_n += 1
                want = None if "err" in exp else (tuple(exp["cols"]), tuple(bag(exp["rows"])))
                if canon(o["spec"]) == want:
                    live_ok += 1
                else:
                    ctx.broken.append(f"stream C (live): specification differs from PySpark on {show_case(c)}: pyspark={json.dumps(exp)[:160]}")
                    break

    hist: t.Dict[str, int] = {}
    nontrivial = set()
    for r in res:
        o = r["case"].get("origin", "?").split(":")
        key = ":".join(o[:2]) if o[0] in ("single", "random", "spelled") else o[0]
        hist[key] = hist.get(key, 0) + 1
        if canon(r["impl"]) is not None and r["impl"]["rows"]:
            nontrivial.add(vlib.digest(r["case"]["frames"]))
    scope_hist: t.Dict[str, int] = {}
    for r in res:
        for h in r["scope"]:
            scope_hist[h] = scope_hist.get(h, 0) + 1
    ctx.cov.update({
        "evaluations": len(res),
        "distinct_nontrivial": len(nontrivial),
        "rule": "corpus; then join spellings x on-forms (name, [names], Column, [Columns], null-safe, none, F.col-based) x lineage (independent | common ancestor, 5 variants | aliased, 2 variants) "
                "x key multiplicities (plain, NULLs, duplicates, empty left, empty right, mixed) x a following select/where on either side; chains of 2 and 3 joins (+select/where); random draws. "
                "non-trivial = distinct programs whose implementation result has at least one row",
        "traces_validated_against_impl": sum(r["impl_eq_model"] for r in res),
        "impl_vs_spec_agree": sum(1 for r in res if r["in_domain"] and r["impl_eq_spec"]),
        "in_pyspark_domain": sum(1 for r in res if r["in_domain"]),
        "impl_vs_spec_differ_known": len(spec_mismatch) - len(new_viol),
        "implementation_errors": sum(1 for r in res if "err" in r["impl"]),
        "scope_hypothesis_histogram": scope_hist,
        "origin_histogram": hist,
        "pyspark_oracle_programs": n_oracle,
        "pyspark_oracle_agree_with_spec": n_oracle_ok,
        "pyspark_live_programs": live_n,
        "pyspark_live_agree_with_spec": live_ok,
        "samples": [{"program": show_case(r["case"]), "result": r["impl"]} for r in res[:: max(1, len(res) // 4)][:4]],
    })
    ctx.assumptions += [
        "DuckDB evaluates one SELECT block as Core/Sql.lean says and one JOIN as Impl/C02Join.lean `joinTables` says (validated by stream A on every program)",
        "sqlglot turns the join_type string into the join Impl/C02Join.lean `kindOfJoinType` names and records `side` as `sideOfJoinType` says",
        "_add_ctes_to_expression preserves the value of every CTE it copies or renames (CTEs are modelled by their frozen values)",
        "PySpark's meaning of join / select / where / alias is Impl/C02Prog.lean `runSpec` (validated against PySpark 3.5.9: recorded file in the quick tier, live JVM sample in the thorough tier)",
        "bags, not row order, are compared",
    ]


def replay(ctx: Ctx, rp: dict) -> None:
    c = rp.get("case")
    if not c:
        print("replay names a broken obligation, not an input:", rp.get("broken"))
        return
    try:
        r = evaluate([c], workers=1)[0]
        spec, model, agree = r["spec"], r["model"], r["impl_eq_spec"]
        impl = r["impl"]
    except Exception:
        impl = run_impl(c)
        spec, model = rp.get("specification"), None
        agree = spec is not None and "err" not in impl and canon(impl) == (tuple(spec["cols"]), tuple(bag(spec["rows"])))
    print(json.dumps({"program": show_case(c), "implementation": impl, "specification": spec, "model": model, "agree": agree}, indent=1))
    if not agree:
        vlib.report_violation(ctx, dict(rp, implementation=impl, specification=spec))
