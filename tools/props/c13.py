"""
C13 — temp views and session.sql interoperate faithfully with DataFrames.

proof      : lean/SqlframeModel/Props/C13.lean (C13_splice, C13_table, C13_history_*, C13_result_is_df,
             C13_partial + counterexample theorems) over the regenerated Gen.Views
tie        : Gen.Views is regenerated from /repo on every run (tools/gen_c13.py) and exercised against the
             live objects; the correspondence stream runs generated histories (create / register /
             re-register / table / sql / transform / join-back) on real sqlframe + DuckDB, on the Lean model
             (Impl/C13Views.lean: registry, splice, execution) and on the Lean specification
             (Impl/C13Spec.lean: views denote rows), and — independently of both — on DuckDB directly over
             real tables holding the same rows (what the engine returns for q)
search     : the same stream compares the implementation with the specification directly; targeted families for the
             classes random histories rarely reach: what the LAST steps of a registered frame are (distinct, orderBy,
             limit, agg … must all be inside the CTE the view is read through), temp views that hide engine tables
             which older views still read, CTEs named like views referenced in and out of their scope
"""
from __future__ import annotations

import copy
import json
import os
import random
import re
import typing as t

import exprs as X
import vlib
from vlib import Ctx, bag, log, plain

ID = "C13"
LEVEL = "proof"
MODULES = ["SqlframeModel.Codec.C13", "SqlframeModel.Props.C13"]
GEN = ["Views"]
SOURCES = [
    "SqlframeModel/Props/C13.lean",
    "SqlframeModel/Lemmas/C13.lean",
    "SqlframeModel/Lemmas/C13Splice.lean",
    "SqlframeModel/Lemmas/C13Lexical.lean",
    "SqlframeModel/Lemmas/C13History.lean",
    "SqlframeModel/Impl/C13Views.lean",
    "SqlframeModel/Impl/C13Scope.lean",
    "SqlframeModel/Impl/C13Spec.lean",
]

VIEW_NAMES = ["va", "vb", "vc"]
SCHEMAS = [
    [("k", "int"), ("s", "str")],
    [("k", "int"), ("w", "int")],
    [("k", "int"), ("s", "str"), ("w", "int")],
    [("k", "int"), ("v", "int"), ("u", "str")],
]
NEW_NAMES = ["j", "m", "n", "p"]
DEFECT_HYPS = {"H_noUserCteShadowsView", "H_noCteNameClash", "H_noCteCapturesViewTable", "H_distinctCteBodies", "H_reregisterKeepsColumns", "H_uniqueOutputNames", "H_starSourcesOrdered"}

# DuckDB 1.2.2 pushes the dynamic min/max filter of a hash join into table scans *below* an ORDER BY … LIMIT (TOP_N) on
# the probe side: `WITH c AS (SELECT … FROM t ORDER BY … LIMIT 2) SELECT … FROM c JOIN t …` then returns rows that are
# not among the first two (and varying ones with several threads).  An engine defect, independent of sqlframe (the same
# text run directly shows it); both connections of the harness switch that optimizer pass off.
ENGINE_SETUP = ["SET threads=1", "SET disabled_optimizers='join_filter_pushdown'"]

tuple_ = None  # set below


def _tuple(e: t.Any) -> t.Any:
    if isinstance(e, (list, tuple)):
        return tuple(_tuple(x) if isinstance(x, (list, tuple)) else x for x in e)
    return e


# ------------------------------------------------------------------------------------------------
# SQL text / Lean JSON of the same tree
# ------------------------------------------------------------------------------------------------

SYM = {"add": "+", "sub": "-", "mul": "*", "lt": "<", "le": "<=", "gt": ">", "ge": ">=", "eq": "=", "ne": "<>", "and": "AND", "or": "OR"}


def expr_sql(e: t.Any) -> str:
    e = _tuple(e)
    k = e[0]
    if k == "col":
        return e[1]
    if k == "lit":
        v = e[1]
        if v is None:
            return "NULL"
        if isinstance(v, bool):
            return "TRUE" if v else "FALSE"
        if isinstance(v, int):
            return str(v) if v >= 0 else f"({v})"
        return "'" + str(v).replace("'", "''") + "'"
    if k == "bin":
        return f"({expr_sql(e[2])} {SYM[e[1]]} {expr_sql(e[3])})"
    if k == "not":
        return f"(NOT {expr_sql(e[1])})"
    if k == "neg":
        return f"(-{expr_sql(e[1])})"
    if k == "isNull":
        return f"({expr_sql(e[1])} IS NULL)"
    if k == "ite":
        return f"CASE WHEN {expr_sql(e[1])} THEN {expr_sql(e[2])} ELSE {expr_sql(e[3])} END"
    raise ValueError(e)


def order_sql(name: str, desc: bool) -> str:
    """Spark's default null ordering, spelled out: ascending keys put NULL first, descending keys last"""
    return f"{name} DESC NULLS LAST" if desc else f"{name} ASC NULLS FIRST"


def ord_keys(keys: t.List[t.Any]) -> t.List[dict]:
    return [{"name": n, "desc": bool(d), "nullsFirst": not d} for n, d in keys]


def src_alias(s: dict) -> str:
    return s["a"] if s.get("a") else s["t"].lower()


def src_sql(s: dict) -> str:
    if "t" in s:
        return s["t"] + (f" AS {s['a']}" if s.get("a") else "")
    return f"({block_sql(s['sub'])}) AS {s['a']}"


def block_sql(b: dict) -> str:
    if "union" in b:
        return f"{block_sql(b['union'][0])} UNION ALL {block_sql(b['union'][1])}"
    if "lit" in b:
        return "SELECT " + ", ".join(f"{expr_sql(('lit', v))} AS {c}" for c, v in zip(b["lit"]["cols"], b["lit"]["row"]))
    sel = b["sel"]
    if sel["k"] == "star":
        items = "*"
    elif sel["k"] == "items":
        items = ", ".join(f"{expr_sql(e)} AS {n}" for n, e in sel["items"])
    else:
        parts = [f"{c} AS {n}" for n, c in sel["keys"]]
        for n, fn, c in sel["aggs"]:
            parts.append(("COUNT(*)" if fn == "countStar" else f"{fn.upper()}({c})") + f" AS {n}")
        items = ", ".join(parts)
    out = "SELECT " + ("DISTINCT " if b.get("distinct") else "") + items + " FROM " + src_sql(b["src"][0])
    if len(b["src"]) == 2:
        if b.get("on") is not None:
            out += f" JOIN {src_sql(b['src'][1])} ON {expr_sql(b['on'])}"
        else:
            out += f" CROSS JOIN {src_sql(b['src'][1])}"
    if b.get("where") is not None:
        out += f" WHERE {expr_sql(b['where'])}"
    if sel["k"] == "agg" and sel["keys"]:
        out += " GROUP BY " + ", ".join(c for _, c in sel["keys"])
    if b.get("top"):
        out += " ORDER BY " + ", ".join(order_sql(n, d) for n, d in b["top"]["keys"]) + f" LIMIT {b['top']['n']}"
    return out


def query_sql(q: dict) -> str:
    w = ""
    if q["ctes"]:
        w = "WITH " + ", ".join(f"{n} AS ({block_sql(b)})" for n, b in q["ctes"]) + " "
    return w + block_sql(q["final"])


def _lex_block(b: dict, scope: t.Dict[str, str]) -> dict:
    if "union" in b:
        return {"union": [_lex_block(x, scope) for x in b["union"]]}
    if "lit" in b:
        return b
    nb = dict(b)
    srcs = []
    for s_ in b["src"]:
        if "t" in s_:
            new = scope.get(s_["t"].lower())
            srcs.append({"t": new, "a": src_alias(s_)} if new else s_)
        else:
            srcs.append({"sub": _lex_block(s_["sub"], scope), "a": s_["a"]})
    nb["src"] = srcs
    return nb


def lexical_query(q: dict) -> dict:
    """the statement with Spark's scoping made explicit: every CTE gets a name of its own and every reference is
    bound to the nearest CTE of that name defined *before* it (else it keeps meaning the view / table), so that an
    engine that binds a WITH list by name reads it the way Spark does"""
    scope: t.Dict[str, str] = {}
    ctes = []
    for i, (n, b) in enumerate(q["ctes"]):
        nb = _lex_block(b, scope)
        new = f"{n.lower()}__{i}"
        ctes.append([new, nb])
        scope[n.lower()] = new
    return {"ctes": ctes, "final": _lex_block(q["final"], scope)}


def src_body(s: dict) -> t.Any:
    inner = {"scan": {"n": s["t"]}} if "t" in s else block_body(s["sub"])
    return {"un": {"op": {"qual": {"a": src_alias(s)}}, "b": inner}}


def block_body(b: dict) -> t.Any:
    if "union" in b:
        return {"bin": {"op": "unionAll", "l": block_body(b["union"][0]), "r": block_body(b["union"][1])}}
    if "lit" in b:
        return {"lit": {"T": X.table_to_lean(b["lit"]["cols"], [b["lit"]["row"]])}}
    body = src_body(b["src"][0])
    if len(b["src"]) == 2:
        body = {"bin": {"op": "cross", "l": body, "r": src_body(b["src"][1])}}
        if b.get("on") is not None:
            body = {"un": {"op": {"filter": {"p": X.to_lean(_tuple(b["on"]))}}, "b": body}}
    if b.get("where") is not None:
        body = {"un": {"op": {"filter": {"p": X.to_lean(_tuple(b["where"]))}}, "b": body}}
    sel = b["sel"]
    if sel["k"] == "star":
        body = {"un": {"op": "star", "b": body}}
    elif sel["k"] == "items":
        body = {"un": {"op": {"project": {"items": [[n, X.to_lean(_tuple(e))] for n, e in sel["items"]]}}, "b": body}}
    else:
        body = {"un": {"op": {"agg": {"keys": [[n, c] for n, c in sel["keys"]], "aggs": [[n, [fn, c or ""]] for n, fn, c in sel["aggs"]]}}, "b": body}}
    if b.get("distinct"):
        body = {"un": {"op": "distinct", "b": body}}
    if b.get("top"):
        body = {"un": {"op": {"sort": {"keys": ord_keys(b["top"]["keys"])}}, "b": body}}
        body = {"un": {"op": {"limit": {"n": b["top"]["n"]}}, "b": body}}
    return body


def query_lean(q: dict) -> t.Any:
    return {"ctes": [[n, block_body(b)] for n, b in q["ctes"]], "final": block_body(q["final"])}


def op_lean(op: dict) -> t.Any:
    k = op["k"]
    if k == "where":
        return {"filter": {"p": X.to_lean(_tuple(op["p"]))}}
    if k == "select":
        return {"project": {"items": [[n, X.to_lean(_tuple(e))] for n, e in op["items"]]}}
    if k == "distinct":
        return "distinct"
    if k == "sort":
        return {"sort": {"keys": ord_keys(op["keys"])}}
    if k == "limit":
        return {"limit": {"n": op["n"]}}
    if k == "agg":
        return {"agg": {"keys": [[c, c] for c in op["keys"]], "aggs": [[n, [fn, c or ""]] for n, fn, c in op["aggs"]]}}
    raise ValueError(k)


def op_apply(df: t.Any, op: dict, F: t.Any) -> t.Any:
    """the DataFrame call of a transform event"""
    k = op["k"]
    if k == "where":
        return df.where(X.to_column(_tuple(op["p"]), F))
    if k == "select":
        return df.select(*[X.to_column(_tuple(e), F).alias(n) for n, e in op["items"]])
    if k == "distinct":
        return df.dropDuplicates() if op.get("via") == "dropDuplicates" else df.distinct()
    if k == "sort":
        return df.orderBy(*[(F.col(n).desc() if d else F.col(n).asc()) for n, d in op["keys"]])
    if k == "limit":
        return df.limit(op["n"])
    if k == "agg":
        aggs = []
        for n, fn, c in op["aggs"]:
            col = F.count(F.lit(1)) if fn == "countStar" else getattr(F, fn)(F.col(c))
            aggs.append(col.alias(n))
        return df.groupBy(*op["keys"]).agg(*aggs) if op["keys"] else df.agg(*aggs)
    raise ValueError(k)


def op_show(op: dict) -> str:
    k = op["k"]
    if k == "where":
        return f"where({X.show(_tuple(op['p']))})"
    if k == "select":
        return "select(" + ", ".join(f"{X.show(_tuple(e))}.alias({n!r})" for n, e in op["items"]) + ")"
    if k == "distinct":
        return (op.get("via") or "distinct") + "()"
    if k == "sort":
        return "orderBy(" + ", ".join(f"col({n!r}).{'desc' if d else 'asc'}()" for n, d in op["keys"]) + ")"
    if k == "limit":
        return f"limit({op['n']})"
    if k == "agg":
        a = ", ".join(("count(lit(1))" if fn == "countStar" else f"{fn}({c!r})") + f".alias({n!r})" for n, fn, c in op["aggs"])
        return (f"groupBy({', '.join(repr(c) for c in op['keys'])})." if op["keys"] else "") + f"agg({a})"
    return str(op)


def op_oracle_sql(op: dict, src: str, sort_keys: t.Optional[list]) -> t.Optional[str]:
    """the same step as SQL over the materialised input (None: not expressible without the input's order)"""
    k = op["k"]
    if k == "where":
        return f"select * from {src} where {expr_sql(op['p'])}"
    if k == "select":
        return "select " + ", ".join(f"{expr_sql(e)} as {n}" for n, e in op["items"]) + f" from {src}"
    if k == "distinct":
        return f"select distinct * from {src}"
    if k == "sort":
        return f"select * from {src}"
    if k == "limit":
        if not sort_keys:
            return None
        return f"select * from {src} order by " + ", ".join(order_sql(n, d) for n, d in sort_keys) + f" limit {op['n']}"
    if k == "agg":
        parts = [c for c in op["keys"]]
        for n, fn, c in op["aggs"]:
            parts.append(("count(*)" if fn == "countStar" else f"{fn}({c})") + f" as {n}")
        return "select " + ", ".join(parts) + f" from {src}" + (" group by " + ", ".join(op["keys"]) if op["keys"] else "")
    raise ValueError(k)


def ev_lean(ev: dict) -> t.Any:
    k = ev["ev"]
    if k == "create":
        return {"create": {"T": X.table_to_lean([c for c, _ in ev["schema"]], ev["rows"])}}
    if k == "register":
        return {"register": {"name": ev["name"], "i": ev["i"]}}
    if k == "table":
        return {"table": {"name": ev["name"]}}
    if k == "sql":
        return {"sql": {"q": query_lean(ev["q"])}}
    if k == "transform":
        return {"transform": {"i": ev["i"], "op": op_lean(ev["op"])}}
    if k == "joinBack":
        return {"joinBack": {"i": ev["i"], "name": ev["name"], "k": ev["on"]}}
    raise ValueError(k)


def case_lean(i: int, c: dict) -> dict:
    return {
        "case": i,
        "tables": [[n, X.table_to_lean([c_ for c_, _ in tb["schema"]], tb["rows"])] for n, tb in c.get("tables", {}).items()],
        "events": [ev_lean(e) for e in c["events"]],
    }


def show_event(ev: dict) -> str:
    k = ev["ev"]
    if k == "create":
        return f"createDataFrame({ev['rows']}, {[c for c, _ in ev['schema']]})"
    if k == "register":
        return f"f{ev['i']}.createOrReplaceTempView({ev['name']!r})"
    if k == "table":
        return f"session.table({ev['name']!r})"
    if k == "sql":
        return f"session.sql({query_sql(ev['q'])!r})"
    if k == "transform":
        return f"f{ev['i']}." + op_show(ev["op"])
    if k == "joinBack":
        return f"f{ev['i']}.join(session.table({ev['name']!r}), on={ev['on']!r})"
    return str(ev)


def show_case(c: dict) -> t.List[str]:
    out = [f"table {n}{[x for x, _ in tb['schema']]} = {tb['rows']}" for n, tb in c.get("tables", {}).items()]
    fi = 0
    for ev in c["events"]:
        s = show_event(ev)
        if ev["ev"] != "register":
            s = f"f{fi} = " + s
            fi += 1
        out.append(s)
    return out


# ------------------------------------------------------------------------------------------------
# generation
# ------------------------------------------------------------------------------------------------


def variant(rng: random.Random, n: str) -> str:
    r = rng.random()
    if r < 0.6:
        return n
    if r < 0.8:
        return n.upper()
    return n.capitalize()


def unique(names: t.Sequence[str]) -> bool:
    return len(set(names)) == len(names)


class QGen:
    def __init__(self, rng: random.Random, views: t.Dict[str, list], tables: t.Dict[str, list], clash: float = 0.15, avoid: t.Collection[str] = ()):
        self.rng = rng
        self.views = views
        self.tables = tables
        self.clash = clash  # how often a CTE of the statement takes the name of a registered view
        # view names that are also CTE names inside a registered view's chain: a CTE of that name would be the
        # listed finding H_noCteNameClash (kept to the names c / d, where the model is validated for it)
        self.avoid = set(avoid)

    def env(self) -> t.List[t.Tuple[str, list, str]]:
        """(name as written, schema, kind); a view hides an engine table of the same name"""
        out = [(variant(self.rng, n), sch, "view") for n, sch in self.views.items()]
        out += [(n, sch, "table") for n, sch in self.tables.items() if n not in self.views]
        return out

    def lit_block(self) -> t.Tuple[dict, list]:
        r = self.rng
        cols = [("k", "int")] + ([("s", "str")] if r.random() < 0.5 else [])
        row = [r.choice([1, 2, 7]) if ty == "int" else r.choice(["a", "z"]) for _, ty in cols]
        return {"lit": {"cols": [c for c, _ in cols], "row": row}}, cols

    def block(self, env: t.List[t.Tuple[str, list, str]], depth: int, need_unique: bool) -> t.Tuple[dict, list]:
        r = self.rng
        if not env or r.random() < 0.04:
            return self.lit_block()
        nsrc = 1 if r.random() < 0.6 else 2
        srcs: t.List[dict] = []
        quals: t.List[t.Tuple[str, list]] = []
        pool = ["x", "y"]
        for i in range(nsrc):
            if depth > 0 and r.random() < 0.18:
                if r.random() < 0.3:
                    b1, s1 = self.block(env, 0, True)
                    # a union partner with the same types
                    b2, s2 = self.block(env, 0, True)
                    if [ty for _, ty in s1] == [ty for _, ty in s2] and "lit" not in b1:
                        b1.pop("top", None)  # ORDER BY / LIMIT of a UNION operand would need parentheses
                        b2.pop("top", None)
                        sub, sch = {"union": [b1, b2]}, s1
                    else:
                        sub, sch = b1, s1
                else:
                    sub, sch = self.block(env, depth - 1, True)
                a = ["q", "r"][i]
                srcs.append({"sub": sub, "a": a})
                quals.append((a, sch))
            else:
                name, sch, kind = r.choice(env)
                a = pool[i] if r.random() < 0.6 else None
                srcs.append({"t": name, "a": a})
                quals.append((a or name.lower(), sch))
        if nsrc == 2 and quals[0][0] == quals[1][0]:
            srcs[0]["a"], srcs[1]["a"] = "x", "y"
            quals = [("x", quals[0][1]), ("y", quals[1][1])]
        qschema: t.Dict[str, str] = {}
        for a, sch in quals:
            for c, ty in sch:
                qschema[f"{a}.{c}"] = ty
        g = X.Gen(r, qschema)
        b: dict = {"src": srcs, "on": None, "where": None, "distinct": False}
        if nsrc == 2 and r.random() < 0.85:
            li = [c for c, ty in quals[0][1] if ty == "int"]
            ri = [c for c, ty in quals[1][1] if ty == "int"]
            if li and ri:
                lc = "k" if "k" in li and r.random() < 0.7 else r.choice(li)
                rc = "k" if "k" in ri and r.random() < 0.7 else r.choice(ri)
                b["on"] = ("bin", "eq", ("col", f"{quals[0][0]}.{lc}"), ("col", f"{quals[1][0]}.{rc}"))
        if r.random() < 0.5:
            b["where"] = g.bool_expr(r.choice([1, 1, 2]))
        star_names = [c for _, sch in quals for c, _ in sch]
        kinds_by_name = {e[0]: e[2] for e in env}
        # `SELECT *` over a base table the session catalog has not seen stays `*` (df.columns == ['*']): a
        # separate observation, kept out of the stream (see the report); `*` is generated over views, CTEs, subqueries
        star_ok = (all("t" in s for s in srcs) or unique(star_names)) and not any("t" in s and kinds_by_name.get(s["t"]) == "table" for s in srcs)
        c = r.random()
        if c < 0.25 and star_ok and (not need_unique or unique(star_names)):
            b["sel"] = {"k": "star"}
            out = [(cn, ty) for _, sch in quals for cn, ty in sch]
        elif c < 0.45 and any(ty == "int" for ty in qschema.values()):
            keys = []
            cols = list(qschema)
            if r.random() < 0.6:
                kc = r.choice(cols)
                keys = [[kc.split(".", 1)[1], kc]]
            aggs = []
            used = {k_[0] for k_ in keys}
            for nm_ in r.sample(NEW_NAMES, r.randint(1, 2)):
                if nm_ in used:
                    continue
                fn = r.choice(["countStar", "count", "sum", "min", "max"])
                if fn == "countStar":
                    aggs.append([nm_, fn, None])
                elif fn == "sum":
                    aggs.append([nm_, fn, r.choice([c_ for c_, ty in qschema.items() if ty == "int"])])
                else:
                    aggs.append([nm_, fn, r.choice(cols)])
            b["sel"] = {"k": "agg", "keys": keys, "aggs": aggs}
            out = [(k_[0], qschema[k_[1]]) for k_ in keys]
            for nm_, fn, c_ in aggs:
                out.append((nm_, "int" if fn in ("countStar", "count", "sum") else qschema[c_]))
        else:
            items: t.List[t.Any] = []
            names: t.List[str] = []
            cols = list(qschema)
            kcols = [c_ for c_ in cols if c_.endswith(".k")]
            if kcols and r.random() < 0.65:
                items.append(["k", ("col", kcols[0]), "int"])
                names.append("k")
            for _ in range(r.randint(1, 2)):
                if r.random() < 0.5:
                    c_ = r.choice(cols)
                    n_ = c_.split(".", 1)[1]
                    if n_ in names:
                        continue
                    items.append([n_, ("col", c_), qschema[c_]])
                    names.append(n_)
                else:
                    e, ty = g.any_expr(r.choice([1, 2]))
                    cand = [x for x in NEW_NAMES if x not in names]
                    if not cand:
                        continue
                    n_ = r.choice(cand)
                    items.append([n_, e, ty])
                    names.append(n_)
            if not items:
                c_ = cols[0]
                items = [[c_.split(".", 1)[1], ("col", c_), qschema[c_]]]
            b["sel"] = {"k": "items", "items": [[n_, e] for n_, e, _ in items]}
            out = [(n_, ty) for n_, _, ty in items]
            if r.random() < 0.1:
                b["distinct"] = True
        if r.random() < 0.07 and unique([n_ for n_, _ in out]):
            # ORDER BY every output column (a total order up to identical rows) + LIMIT: which rows, not in which order
            ks = [[n_, r.random() < 0.5] for n_, _ in out]
            r.shuffle(ks)
            b["top"] = {"keys": ks, "n": r.randint(1, 3)}
        return b, out

    def query(self) -> t.Tuple[dict, list]:
        r = self.rng
        env = self.env()
        ctes: t.List[t.Any] = []
        cte_env: t.List[t.Tuple[str, list, str]] = []
        n = r.choice([0, 0, 0, 1, 1, 2])
        for i in range(n):
            name = ["c", "d"][i]
            cur_env = env + cte_env
            free = [v for v in self.views if v not in [c_[0] for c_ in ctes] and v not in self.avoid]
            if free and r.random() < self.clash:
                # a CTE named like a registered view.  Scoping is Spark's: the CTE is visible to the definitions that
                # follow it and to the main query; inside its own definition and in earlier definitions the name
                # still means the view (so the body may read the view it is about to hide)
                name = r.choice(free)
                if r.random() < 0.6:
                    cur_env = [e for e in cur_env if e[0].lower() == name] * 3 + cur_env  # likely a self reference
            if i == 1 and r.random() < 0.06 and ctes[0][0] not in self.views:
                # the same text twice (a copy of a definition that reads the view it hides would read the CTE instead)
                body, sch = copy.deepcopy(ctes[0][1]), cte_env[0][1]
            else:
                body, sch = self.block(cur_env, 1, True)
            ctes.append([name, body])
            # the new name shadows whatever had it
            env = [e for e in env if e[0].lower() != name]
            cte_env = [e for e in cte_env if e[0] != name] + [(name, sch, "cte")]
        final_env = env + cte_env
        if cte_env and r.random() < 0.8:
            # make it likely that the CTEs are used
            final_env = cte_env + (env if r.random() < 0.6 else [])
        final, sch = self.block(final_env, 1, False)
        return {"ctes": ctes, "final": final}, sch


AGG_NAMES = ["n", "m"]


def gen_transform(rng: random.Random, sch: list, sorted_keys: t.Optional[list]) -> t.Tuple[dict, list, t.Optional[list]]:
    """one DataFrame step on a frame with schema `sch` (pairwise distinct names): (op, new schema, sort keys the result
    ends with).  `limit` is only drawn directly after an orderBy over *all* columns (which rows, not which order)."""
    g = X.Gen(rng, dict(sch))
    c2 = rng.random()
    if sorted_keys and c2 < 0.5:
        return {"k": "limit", "n": rng.randint(1, 3)}, list(sch), None
    if c2 < 0.3:
        return {"k": "where", "p": g.bool_expr(rng.choice([1, 2]))}, list(sch), None
    if c2 < 0.4 and len(sch) > 1:
        # the same columns in another order (a later re-registration under the same name must show the new order)
        perm = list(sch)
        while perm == list(sch):
            rng.shuffle(perm)
        return {"k": "select", "items": [[c_, ("col", c_)] for c_, _ in perm]}, perm, None
    if c2 < 0.55:
        return {"k": "distinct", "via": rng.choice(["distinct", "dropDuplicates"])}, list(sch), None
    if c2 < 0.7:
        ks = [[c_, rng.random() < 0.5] for c_, _ in sch]
        rng.shuffle(ks)
        return {"k": "sort", "keys": ks}, list(sch), ks
    if c2 < 0.8:
        keys = [rng.choice(sch)[0]] if rng.random() < 0.75 else []
        rest = [x for x in sch if x[0] not in keys]
        aggs = []
        out = [x for x in sch if x[0] in keys]
        for nm_ in AGG_NAMES[: rng.randint(1, 2)]:
            if nm_ in [c_ for c_, _ in sch]:
                continue
            ints = [c_ for c_, ty in rest if ty == "int"]
            fn = rng.choice(["countStar", "count", "sum", "min", "max"])
            if fn == "countStar" or not rest:
                aggs.append([nm_, "countStar", None])
                out.append((nm_, "int"))
            elif fn == "sum":
                if not ints:
                    continue
                aggs.append([nm_, fn, rng.choice(ints)])
                out.append((nm_, "int"))
            else:
                c_, ty = rng.choice(rest)
                aggs.append([nm_, fn, c_])
                out.append((nm_, "int" if fn == "count" else ty))
        if aggs:
            return {"k": "agg", "keys": keys, "aggs": aggs}, out, None
    items = []
    names = []
    if any(c_ == "k" for c_, _ in sch) and rng.random() < 0.8:
        items.append(["k", ("col", "k"), "int"])
        names.append("k")
    for _ in range(rng.randint(1, 2)):
        e, ty = g.any_expr(2)
        cand_n = [x for x in NEW_NAMES + [c_ for c_, _ in sch] if x not in names]
        n_ = rng.choice(cand_n)
        items.append([n_, e, ty])
        names.append(n_)
    return {"k": "select", "items": [[n_, e] for n_, e, _ in items]}, [(n_, ty) for n_, _, ty in items], None


def gen_case(rng: random.Random, max_events: int = 6) -> dict:
    tables: t.Dict[str, dict] = {}
    tsch: t.Dict[str, list] = {}
    if rng.random() < 0.3:
        sch = rng.choice(SCHEMAS[:3])
        tables["tb"] = {"schema": sch, "rows": X.gen_table(rng, dict(sch), 4)}
        tsch["tb"] = sch
    events: t.List[dict] = []
    frames: t.List[list] = []  # schema per frame
    joined: t.Set[int] = set()  # frames that are (descendants of) join-back results: C02's territory from there on
    from_sql: t.Set[int] = set()  # results of session.sql and DataFrame transformations of them
    skeys: t.Dict[int, list] = {}  # frames that end with an orderBy over all their columns (also: read back from a view of one)
    vkeys: t.Dict[str, list] = {}
    views: t.Dict[str, list] = {}
    fctes: t.List[t.Set[str]] = []  # per frame: names of statement CTEs in its chain (upper bound)
    vctes: t.Dict[str, t.Set[str]] = {}
    for _ in range(rng.randint(1, 3)):
        sch = rng.choice(SCHEMAS)
        events.append({"ev": "create", "schema": sch, "rows": X.gen_table(rng, dict(sch), 5)})
        frames.append(sch)
        fctes.append(set())
    if tables and rng.random() < 0.6:
        # a frame read from the engine table (before any view can hide that name)
        events.append({"ev": "table", "name": "tb"})
        frames.append(tsch["tb"])
        fctes.append(set())

    def registrable() -> t.List[int]:
        return [i for i, s in enumerate(frames) if s and unique([c for c, _ in s])]

    def view_name() -> str:
        if tables and rng.random() < 0.25:
            return "tb"  # a temp view that hides an engine table of the same name
        # re-registration is likely: few names
        return rng.choice(VIEW_NAMES[:2] if rng.random() < 0.7 else VIEW_NAMES)

    def do_register(i: int, nm_: str) -> None:
        events.append({"ev": "register", "name": variant(rng, nm_), "i": i})
        views[nm_] = frames[i]
        vctes[nm_] = fctes[i]
        vkeys.pop(nm_, None)
        if i in skeys:
            vkeys[nm_] = skeys[i]

    # first registration
    do_register(rng.choice(registrable()), rng.choice(VIEW_NAMES))
    n_more = rng.randint(2, max_events - 1)
    for _ in range(n_more):
        c = rng.random()
        if c < 0.2:
            do_register(rng.choice(registrable()), view_name())
        elif c < 0.3:
            nm_ = rng.choice(list(views) + (["tb"] if tables and rng.random() < 0.3 else []))
            events.append({"ev": "table", "name": variant(rng, nm_) if nm_ != "tb" else nm_})
            if nm_ in vkeys:
                skeys[len(frames)] = vkeys[nm_]
            frames.append(views.get(nm_) or tsch[nm_])
            fctes.append(vctes.get(nm_, set()))
        elif c < 0.68:
            inherited = set().union(*vctes.values()) if vctes else set()
            q, sch = QGen(rng, views, tsch, avoid=inherited).query()
            events.append({"ev": "sql", "q": q})
            from_sql.add(len(frames))
            frames.append(sch)
            fctes.append(inherited | {c_[0] for c_ in q["ctes"]})
        elif c < 0.87:
            cand = [i for i, s in enumerate(frames) if s and unique([c_ for c_, _ in s])]
            if not cand:
                continue
            srt = [i for i in cand if i in skeys]
            i = rng.choice(srt) if srt and rng.random() < 0.4 else rng.choice(cand)
            if i in joined:
                joined.add(len(frames))
            if i in from_sql:
                from_sql.add(len(frames))
            op, sch, ks = gen_transform(rng, frames[i], skeys.get(i))
            events.append({"ev": "transform", "i": i, "op": op})
            if ks:
                skeys[len(frames)] = ks
            frames.append(sch)
            fctes.append(fctes[i])
        else:
            # join back: a result of session.sql (possibly transformed further) joined with a registered view.
            # (a frame obtained from session.table / createDataFrame joined with *itself* is C02's self-join case)
            cand = [
                (i, v)
                for i, s in enumerate(frames)
                for v, vs in views.items()
                if s and unique([c_ for c_, _ in s]) and ("k", "int") in s and ("k", "int") in vs and i not in joined and i in from_sql
            ]
            if not cand:
                continue
            i, v = rng.choice(cand)
            events.append({"ev": "joinBack", "i": i, "name": variant(rng, v), "on": "k"})
            joined.add(len(frames))
            frames.append([("k", "int")] + [x for x in frames[i] if x[0] != "k"] + [x for x in views[v] if x[0] != "k"])
            fctes.append(fctes[i] | vctes.get(v, set()))
    return {"tables": tables, "events": events}


# ------------------------------------------------------------------------------------------------
# the real implementation
# ------------------------------------------------------------------------------------------------


def frame_events(events: t.List[dict]) -> t.List[int]:
    return [j for j, e in enumerate(events) if e["ev"] != "register"]


def observe(df: t.Any) -> dict:
    if df is None:
        return {"err": "frame was not built"}
    try:
        cols = list(df.columns)
        rows = [[plain(v) for v in r] for r in df.collect()]
        return {"cols": cols, "rows": rows}
    except Exception as e:  # noqa
        return {"err": f"{type(e).__name__}: {str(e)[:160]}"}


def run_impl(c: dict) -> dict:
    """returns {"obs": [per event], "final": [per frame], "depends_on_unbuilt": first event index or None, "live": {...}}"""
    s = vlib.fresh_duckdb_session()
    from sqlframe.duckdb import functions as F

    for stmt in ENGINE_SETUP:
        s._conn.execute(stmt)
    for n, tb in c.get("tables", {}).items():
        ddl = ", ".join(f"{c_} {'bigint' if ty == 'int' else 'varchar'}" for c_, ty in tb["schema"])
        s._conn.execute(f"create table {n} ({ddl})")
        for r in tb["rows"]:
            s._conn.execute(f"insert into {n} values ({', '.join('?' for _ in r)})", list(r))
    frames: t.List[t.Any] = []
    obs: t.List[dict] = []
    stop = None
    for j, ev in enumerate(c["events"]):
        k = ev["ev"]
        if k in ("register", "transform", "joinBack") and frames[ev["i"]] is None:
            stop = j
            break
        try:
            if k == "create":
                df = X.make_df(s, dict(ev["schema"]), ev["rows"])
            elif k == "register":
                frames[ev["i"]].createOrReplaceTempView(ev["name"])
                o = {"kind": "register", "keys": sorted(s.temp_views.keys())}
                try:
                    # what the session catalog shows: the temp views it lists, and the columns it reports for this one
                    o["listed"] = sorted(t_.name for t_ in s.catalog.listTables() if t_.isTemporary)
                    o["cols"] = [c_.name for c_ in s.catalog.listColumns(ev["name"])]
                    o["df_cols"] = list(frames[ev["i"]].columns)
                except Exception as e:  # noqa
                    o["err"] = f"catalog: {type(e).__name__}: {str(e)[:160]}"
                obs.append(o)
                continue
            elif k == "table":
                df = s.table(ev["name"])
            elif k == "sql":
                df = s.sql(query_sql(ev["q"]))
            elif k == "transform":
                df = op_apply(frames[ev["i"]], ev["op"], F)
            elif k == "joinBack":
                df = frames[ev["i"]].join(s.table(ev["name"]), on=ev["on"])
            else:
                raise ValueError(k)
            frames.append(df)
            obs.append(observe(df))
        except Exception as e:  # noqa
            if k == "register":
                obs.append({"kind": "register", "err": f"{type(e).__name__}: {str(e)[:160]}"})
            else:
                frames.append(None)
                obs.append({"err": f"{type(e).__name__}: {str(e)[:160]}"})
    final = [observe(df) for df in frames]
    raw = []
    for st in c.get("raw", []):
        try:
            raw.append(observe(s.sql(st["sql"])))
        except Exception as e:  # noqa
            raw.append({"err": f"{type(e).__name__}: {str(e)[:160]}"})
    return {"obs": obs, "final": final, "stop": stop, "raw": raw}


# ------------------------------------------------------------------------------------------------
# independent oracle: DuckDB directly, over real tables holding the registered frames' rows
# ------------------------------------------------------------------------------------------------


def run_oracle(c: dict, raw: bool = False) -> t.List[t.Optional[dict]]:
    """per frame-producing event: {"cols","rows"} | {"err"} | None (oracle not applicable from here on);
    with raw=True: the results of the case's extra statements (text given to the engine as it is) instead"""
    import duckdb

    con = duckdb.connect(":memory:")
    for stmt in ENGINE_SETUP:
        con.execute(stmt)
    out: t.List[t.Optional[dict]] = []
    mat: t.List[t.Optional[str]] = []  # materialised table name per frame
    skeys: t.Dict[int, list] = {}  # frame -> sort keys of the orderBy it ends with (also through a view of it)
    vkeys: t.Dict[str, list] = {}  # view name -> sort keys of the registered frame
    dead = False

    def fetch(sql: str) -> dict:
        cur = con.execute(sql)
        cols = [d[0] for d in cur.description]
        return {"cols": cols, "rows": [[plain(v) for v in r] for r in cur.fetchall()]}

    def materialise(j: int, sql: str) -> t.Tuple[t.Optional[str], dict]:
        name = f"f{j}"
        try:
            o = fetch(sql)
        except Exception as e:  # noqa
            return None, {"err": f"{type(e).__name__}: {str(e)[:120]}"}
        if not unique(o["cols"]):
            return None, o  # CREATE TABLE AS would rename the duplicates
        try:
            con.execute(f"create table {name} as {sql}")
            return name, o
        except Exception:
            return None, o

    for n, tb in c.get("tables", {}).items():
        ddl = ", ".join(f"{c_} {'bigint' if ty == 'int' else 'varchar'}" for c_, ty in tb["schema"])
        con.execute(f"create table {n} ({ddl})")
        for r in tb["rows"]:
            con.execute(f"insert into {n} values ({', '.join('?' for _ in r)})", list(r))
    for ev in c["events"]:
        k = ev["ev"]
        if dead:
            if k != "register":
                out.append(None)
                mat.append(None)
            continue
        j = len(mat)
        if k == "create":
            ddl = ", ".join(f"{c_} {'bigint' if ty == 'int' else 'varchar'}" for c_, ty in ev["schema"])
            con.execute(f"create table f{j} ({ddl})")
            for r in ev["rows"]:
                con.execute(f"insert into f{j} values ({', '.join('?' for _ in r)})", list(r))
            mat.append(f"f{j}")
            out.append(fetch(f"select * from f{j}"))
        elif k == "register":
            if mat[ev["i"]] is None:
                dead = True
                continue
            con.execute(f"create or replace table {ev['name'].lower()} as select * from {mat[ev['i']]}")
            vkeys.pop(ev["name"].lower(), None)
            if ev["i"] in skeys:
                vkeys[ev["name"].lower()] = skeys[ev["i"]]
        elif k == "table":
            m, o = materialise(j, f"select * from {ev['name'].lower()}")
            if ev["name"].lower() in vkeys:
                skeys[j] = vkeys[ev["name"].lower()]
            mat.append(m)
            out.append(o)
        elif k == "sql":
            m, o = materialise(j, query_sql(lexical_query(ev["q"])))
            mat.append(m)
            out.append(o)
        elif k == "transform":
            if mat[ev["i"]] is None:
                dead = True
                out.append(None)
                mat.append(None)
                continue
            op = ev["op"]
            sql = op_oracle_sql(op, mat[ev["i"]], skeys.get(ev["i"]))
            if sql is None:
                dead = True
                out.append(None)
                mat.append(None)
                continue
            if op["k"] == "sort":
                skeys[j] = op["keys"]
            m, o = materialise(j, sql)
            mat.append(m)
            out.append(o)
        elif k == "joinBack":
            if mat[ev["i"]] is None:
                dead = True
                out.append(None)
                mat.append(None)
                continue
            lcols = [d[0] for d in con.execute(f"select * from {mat[ev['i']]} limit 0").description]
            rcols = [d[0] for d in con.execute(f"select * from {ev['name'].lower()} limit 0").description]
            kk = ev["on"]
            sel = [f"l.{kk}"] + [f"l.{x}" for x in lcols if x != kk] + [f"r.{x}" for x in rcols if x != kk]
            sql = f"select {', '.join(sel)} from {mat[ev['i']]} l join {ev['name'].lower()} r on l.{kk} = r.{kk}"
            m, o = materialise(j, sql)
            mat.append(m)
            out.append(o)
    if raw:
        res: t.List[t.Optional[dict]] = []
        for st in c.get("raw", []):
            if dead:
                res.append(None)
                continue
            try:
                res.append(fetch(st.get("engine") or st["sql"]))
            except Exception as e:  # noqa
                res.append({"err": f"{type(e).__name__}: {str(e)[:120]}"})
        return res
    return out


# ------------------------------------------------------------------------------------------------
# statement shapes outside the Lean statement language: implementation vs the engine run directly
# ------------------------------------------------------------------------------------------------

# {a}, {b}: two registered view names (as written, case variants included); every view has an integer column k.
# "engine" is the text for the direct run where Spark's reading has to be spelled out for DuckDB.
RAW_TEMPLATES: t.List[t.Tuple[str, str, t.Optional[str]]] = [
    ("in_subquery", "SELECT x.k AS k FROM {a} AS x WHERE x.k IN (SELECT y.k FROM {b} AS y)", None),
    ("not_in_literal_list_and_subquery", "SELECT x.k AS k FROM {a} AS x WHERE x.k NOT IN (SELECT y.k FROM {b} AS y WHERE y.k IS NOT NULL)", None),
    ("exists_correlated", "SELECT x.k AS k FROM {a} AS x WHERE EXISTS (SELECT 1 FROM {b} AS y WHERE y.k = x.k)", None),
    ("scalar_subquery", "SELECT x.k AS k, (SELECT MAX(y.k) FROM {b} AS y) AS m FROM {a} AS x", None),
    ("left_join_null", "SELECT x.k AS k FROM {a} AS x LEFT JOIN {b} AS y ON x.k = y.k WHERE y.k IS NULL", None),
    ("nested_predicates", "SELECT x.k AS k FROM {a} AS x WHERE x.k >= (SELECT MIN(y.k) FROM {b} AS y WHERE y.k IN (SELECT z.k FROM {a} AS z))", None),
    ("cte_used_in_predicate", "WITH c AS (SELECT y.k AS k FROM {b} AS y) SELECT x.k AS k FROM {a} AS x WHERE x.k IN (SELECT c.k FROM c)", None),
    ("cte_named_like_view_in_predicate", "WITH {bl} AS (SELECT 2 AS k) SELECT x.k AS k FROM {a} AS x WHERE x.k IN (SELECT y.k FROM {bl} AS y)", None),
    (
        "cte_reads_view_it_hides_in_predicate",
        "WITH {al} AS (SELECT x.k AS k FROM {al} AS x WHERE x.k IN (SELECT y.k FROM {b} AS y)) SELECT {al}.k AS k FROM {al}",
        "WITH c__0 AS (SELECT x.k AS k FROM {al} AS x WHERE x.k IN (SELECT y.k FROM {b} AS y)) SELECT c__0.k AS k FROM c__0",
    ),
    ("nested_with_in_derived_table", "SELECT q.k AS k FROM (WITH c AS (SELECT x.k AS k FROM {a} AS x) SELECT c.k AS k FROM c) AS q JOIN {b} AS y ON q.k = y.k", None),
    ("group_having", "SELECT x.k AS k, COUNT(*) AS n FROM {a} AS x GROUP BY x.k HAVING COUNT(*) > 1", None),
    ("self_join_of_a_view", "SELECT x.k AS k, y.k AS j FROM {a} AS x JOIN {a} AS y ON x.k = y.k", None),
    ("view_in_both_from_and_predicate", "SELECT x.k AS k FROM {a} AS x JOIN {b} AS y ON x.k = y.k WHERE y.k IN (SELECT z.k FROM {a} AS z WHERE z.k > 0)", None),
    ("union_in_derived_table", "SELECT q.k AS k FROM (SELECT x.k AS k FROM {a} AS x UNION ALL SELECT y.k AS k FROM {b} AS y) AS q WHERE q.k IS NOT NULL", None),
    ("case_and_between", "SELECT CASE WHEN x.k BETWEEN 1 AND 2 THEN 1 ELSE 0 END AS f, COUNT(*) AS n FROM {a} AS x GROUP BY CASE WHEN x.k BETWEEN 1 AND 2 THEN 1 ELSE 0 END", None),
]


def gen_raw_case(rng: random.Random) -> dict:
    """two (or three) views over frames that end in different DataFrame steps, optionally an engine table hidden by a
    view, a re-registration; then every template as an extra statement"""
    events: t.List[dict] = []
    frames: t.List[list] = []
    tables: t.Dict[str, dict] = {}
    for _ in range(2):
        sch = rng.choice(SCHEMAS)
        events.append({"ev": "create", "schema": sch, "rows": _rows(rng, sch, 4)})
        frames.append(list(sch))
    if rng.random() < 0.4:
        sch = rng.choice(SCHEMAS[:3])
        tables["tb"] = {"schema": sch, "rows": _rows(rng, sch, 3)}
        events.append({"ev": "table", "name": "tb"})
        frames.append(list(sch))
    for i in range(len(frames)):
        if rng.random() < 0.5:
            op, sch2, _ = gen_transform(rng, frames[i], None)
            if op["k"] != "limit" and ("k", "int") in sch2 and unique([c_ for c_, _ in sch2]):
                events.append({"ev": "transform", "i": i, "op": op})
                frames.append(sch2)
    ok = [i for i, s_ in enumerate(frames) if ("k", "int") in s_]
    names = rng.sample(VIEW_NAMES, 2)
    if tables and rng.random() < 0.5:
        names[1] = "tb"
    a, b = names
    events.append({"ev": "register", "name": variant(rng, a), "i": rng.choice(ok)})
    events.append({"ev": "register", "name": variant(rng, b), "i": rng.choice(ok)})
    if rng.random() < 0.4:
        events.append({"ev": "register", "name": variant(rng, rng.choice(names)), "i": rng.choice(ok)})
    raw = []
    for tag, sql, eng in rng.sample(RAW_TEMPLATES, 8):
        if b == "tb" and "WITH {bl} AS" in sql:
            continue  # a CTE named like the engine table that a view reads: the listed finding H_noCteCapturesViewTable
        va, vb = variant(rng, a), variant(rng, b)
        fill = {"a": va, "b": vb, "al": a, "bl": b}
        raw.append({"tag": tag, "sql": sql.format(**fill), "engine": eng.format(**fill) if eng else None})
    return {"tables": tables, "events": events, "raw": raw}


def eval_raw(c: dict) -> dict:
    impl = run_impl(c)
    if impl["stop"] is not None or any(isinstance(o, dict) and o.get("err") and o.get("kind") == "register" for o in impl["obs"]):
        return {"case": c, "skipped": True, "rows": []}
    orc = run_oracle(c, raw=True)
    rows = []
    for st, io, oo in zip(c["raw"], impl["raw"], orc):
        rows.append({"tag": st["tag"], "sql": st["sql"], "impl": io, "engine": oo, "agree": same(io, oo)})
    return {"case": c, "skipped": False, "rows": rows}


# ------------------------------------------------------------------------------------------------
# evaluation of cases on all sides
# ------------------------------------------------------------------------------------------------


def same(a: t.Optional[dict], b: t.Optional[dict]) -> bool:
    if a is None or b is None:
        return True
    ea, eb = "err" in a, "err" in b
    if ea or eb:
        return ea and eb
    return a["cols"] == b["cols"] and bag(a["rows"]) == bag(b["rows"])


def lean_table(x: t.Any) -> dict:
    if x is None:
        return {"err": "no value"}
    return {"cols": x["cols"], "rows": x["rows"]}


def _impl_and_truncate(c: dict) -> t.Tuple[dict, dict]:
    r = run_impl(c)
    if r["stop"] is not None:
        c = dict(c, events=c["events"][: r["stop"]], truncated=True)
        r = run_impl(c)
    return c, r


def evaluate(cases: t.List[dict], workers: int = 0) -> t.List[dict]:
    pairs = vlib.parallel_map(_impl_and_truncate, cases, workers)
    cases = [p[0] for p in pairs]
    outs = vlib.run_driver("C13", [case_lean(i, c) for i, c in enumerate(cases)])
    oracles = vlib.parallel_map(run_oracle, cases, workers)
    res = []
    for (c, impl), o, orc in zip(pairs, outs, oracles):
        if "err" in o:
            raise RuntimeError(f"driver rejected a case: {o}")
        checks = []  # per frame: dict
        fi = 0
        for j, (ev, lo) in enumerate(zip(c["events"], o["events"])):
            if ev["ev"] == "register":
                io = impl["obs"][j]
                checks.append(
                    {
                        "event": j,
                        "kind": "register",
                        "impl_keys": io.get("keys"),
                        "impl_listed": io.get("listed"),
                        "model_keys": sorted(lo.get("keys", [])),
                        "err": io.get("err"),
                        # catalog.listColumns(view) against the model's catalog entry and against df.columns (the specification)
                        "impl": {"cols": io.get("cols"), "rows": []},
                        "model": {"cols": lo.get("cols"), "rows": []},
                        "spec": {"cols": io.get("df_cols"), "rows": []},
                        "model_df_cols": lo.get("dfCols"),
                        "scope": ["H_reregisterKeepsColumns"] if lo.get("stale") else [],
                    }
                )
                continue
            m = lean_table(lo["model"])
            sp = lean_table(lo["spec"])
            io = impl["obs"][j]
            fin = impl["final"][fi]
            checks.append(
                {
                    "event": j,
                    "kind": ev["ev"],
                    "frame": fi,
                    "impl": io,
                    "impl_final": fin,
                    "model": m,
                    "spec": sp,
                    "oracle": orc[fi] if fi < len(orc) else None,
                    "scope": lo["scope"],
                    "impl_eq_model": same(io, m) and same(fin, m),
                    "impl_eq_spec": same(io, sp) and same(fin, sp),
                    "stable": same(io, fin),
                    "spec_eq_oracle": same(sp, orc[fi] if fi < len(orc) else None),
                }
            )
            fi += 1
        res.append({"case": c, "checks": checks})
    return res


def classify(r: dict, known: t.Dict[str, dict]) -> t.Dict[str, t.Any]:
    """returns {"model_bad": [...], "oracle_bad": [...], "known": set(ids), "viol": [checks]}"""
    out: t.Dict[str, t.Any] = {"model_bad": [], "oracle_bad": [], "known": set(), "viol": [], "reg_bad": []}
    for ch in r["checks"]:
        if ch["kind"] == "register":
            if ch["err"] or ch["impl_keys"] != ch["model_keys"] or ch["impl_listed"] != ch["model_keys"] or ch["impl"]["cols"] != ch["model"]["cols"] or ch["spec"]["cols"] != ch["model_df_cols"]:
                out["reg_bad"].append(ch)
            if not ch["err"] and ch["impl"]["cols"] != ch["spec"]["cols"]:
                # the catalog reports other columns for the view than the DataFrame has
                if ch["scope"] and ch["impl"]["cols"] == ch["model"]["cols"] and all(h in known for h in ch["scope"]):
                    out["known"].update(ch["scope"])
                else:
                    out["viol"].append(ch)
            continue
        fwd = (not ch["impl_eq_spec"]) and "H_viewCtesAfterOwn" in known and not (ch["scope"] and ch["impl_eq_model"]) and forward_view_reference(r["case"], ch)
        if not ch["impl_eq_model"] and not fwd:
            out["model_bad"].append(ch)
        if not ch["spec_eq_oracle"]:
            out["oracle_bad"].append(ch)
        if not ch["impl_eq_spec"]:
            sc = ch["scope"]
            if sc and ch["impl_eq_model"] and all(h in known for h in sc):
                out["known"].update(sc)
            elif fwd:
                out["known"].add("H_viewCtesAfterOwn")
            else:
                out["viol"].append(ch)
    return out


def forward_view_reference(case: dict, ch: dict) -> bool:
    """the mechanism of H_viewCtesAfterOwn, verified on the real statement (the Lean model reads CTEs by name and has no
    order, so this finding is accepted by mechanism, not by model prediction): session.sql appends the CTEs of a view
    AFTER the statement's own CTEs; when an own CTE reads the view and sqlglot's optimizer does not happen to re-order
    them, the engine refuses the forward reference.  Accepted only if (1) the engine refused with exactly that message,
    (2) the specification agrees with DuckDB run directly on the user's statement, (3) in the statement sqlframe built
    (optimize=False) an own CTE really reads a view CTE defined later in the WITH list."""
    try:
        err = ch["impl"].get("err", "") if isinstance(ch.get("impl"), dict) else ""
        if "cannot be referenced from this part of the query" not in err or not ch.get("spec_eq_oracle"):
            return False
        ev = case["events"][ch["event"]]
        if ev.get("ev") != "sql" or not ev["q"].get("ctes"):
            return False
        import sqlglot
        from sqlglot import exp as E

        text = rebuild_statement_text(case, ch["event"])
        if not text:
            return False
        tree = sqlglot.parse_one(text, read="duckdb")
        names = [c.alias_or_name for c in tree.ctes]
        for i, c in enumerate(tree.ctes):
            reads = {t.name for t in c.find_all(E.Table)}
            if reads & set(names[i + 1:]):
                return True
        return False
    except Exception:
        return False


def _statement_text_inproc(c: dict) -> t.Optional[str]:
    s = vlib.fresh_duckdb_session()
    from sqlframe.duckdb import functions as F

    for stmt in ENGINE_SETUP:
        s._conn.execute(stmt)
    for n, tb in c.get("tables", {}).items():
        ddl = ", ".join(f"{c_} {'bigint' if ty == 'int' else 'varchar'}" for c_, ty in tb["schema"])
        s._conn.execute(f"create table {n} ({ddl})")
        for r in tb["rows"]:
            s._conn.execute(f"insert into {n} values ({', '.join('?' for _ in r)})", list(r))
    frames: t.List[t.Any] = []
    df = None
    for ev in c["events"]:
        k = ev["ev"]
        if k == "create":
            df = X.make_df(s, dict(ev["schema"]), ev["rows"])
        elif k == "register":
            frames[ev["i"]].createOrReplaceTempView(ev["name"])
            continue
        elif k == "table":
            df = s.table(ev["name"])
        elif k == "sql":
            df = s.sql(query_sql(ev["q"]))
        elif k == "transform":
            df = op_apply(frames[ev["i"]], ev["op"], F)
        elif k == "joinBack":
            df = frames[ev["i"]].join(s.table(ev["name"]), on=ev["on"])
        frames.append(df)
    return df.sql(optimize=False, dialect="duckdb") if df is not None else None


def statement_text_of_last_sql(c: dict) -> t.Optional[str]:
    """in a forked child (the parent must not touch DuckDB before it forks workers again)"""
    import os

    rfd, wfd = os.pipe()
    pid = os.fork()
    if pid == 0:
        try:
            os.close(rfd)
            try:
                txt = _statement_text_inproc(c) or ""
            except Exception:
                txt = ""
            with os.fdopen(wfd, "w") as w:
                w.write(txt)
        finally:
            os._exit(0)
    os.close(wfd)
    with os.fdopen(rfd) as r:
        txt = r.read()
    os.waitpid(pid, 0)
    return txt or None


def rebuild_statement_text(case: dict, upto: int) -> t.Optional[str]:
    """run the history again on a fresh session and return the optimize=False text of the event's statement"""
    try:
        c2 = copy.deepcopy(case)
        c2["events"] = c2["events"][: upto + 1]
        return statement_text_of_last_sql(c2)
    except Exception:
        return None


# ------------------------------------------------------------------------------------------------
# shrinking
# ------------------------------------------------------------------------------------------------


def depends(ev: dict) -> t.List[int]:
    return [ev["i"]] if ev["ev"] in ("register", "transform", "joinBack") else []


def drop_event(c: dict, j: int) -> t.Optional[dict]:
    evs = c["events"]
    fidx = None
    if evs[j]["ev"] != "register":
        fidx = sum(1 for e in evs[:j] if e["ev"] != "register")
        if any(fidx in depends(e) for e in evs[j + 1 :]):
            return None
    new = []
    for jj, e in enumerate(evs):
        if jj == j:
            continue
        e = copy.deepcopy(e)
        if fidx is not None and jj > j and "i" in e and e["i"] > fidx:
            e["i"] -= 1
        new.append(e)
    if not any(e["ev"] == "create" for e in new):
        return None
    return dict(c, events=new)


def shrink_candidates(c: dict) -> t.List[dict]:
    out = []
    evs = c["events"]
    for j in range(len(evs) - 1, -1, -1):
        d = drop_event(c, j)
        if d:
            out.append(d)
    for j, e in enumerate(evs):
        if e["ev"] == "create":
            for i in range(len(e["rows"])):
                ne = dict(e, rows=e["rows"][:i] + e["rows"][i + 1 :])
                out.append(dict(c, events=evs[:j] + [ne] + evs[j + 1 :]))
        if e["ev"] == "sql":
            q = e["q"]
            for bpath in ("final",):
                b = q[bpath]
                if isinstance(b, dict) and b.get("where") is not None:
                    nq = copy.deepcopy(q)
                    nq[bpath]["where"] = None
                    out.append(dict(c, events=evs[:j] + [dict(e, q=nq)] + evs[j + 1 :]))
            for bpath in ["final"] + list(range(len(q["ctes"]))):
                b = q["final"] if bpath == "final" else q["ctes"][bpath][1]
                if isinstance(b, dict) and b.get("top"):
                    nq = copy.deepcopy(q)
                    (nq["final"] if bpath == "final" else nq["ctes"][bpath][1]).pop("top")
                    out.append(dict(c, events=evs[:j] + [dict(e, q=nq)] + evs[j + 1 :]))
            for ci in range(len(q["ctes"])):
                nq = copy.deepcopy(q)
                name = nq["ctes"][ci][0]
                del nq["ctes"][ci]
                if name not in json.dumps(nq):
                    out.append(dict(c, events=evs[:j] + [dict(e, q=nq)] + evs[j + 1 :]))
                b = q["ctes"][ci][1]
                if isinstance(b, dict) and b.get("where") is not None:
                    nq = copy.deepcopy(q)
                    nq["ctes"][ci][1]["where"] = None
                    out.append(dict(c, events=evs[:j] + [dict(e, q=nq)] + evs[j + 1 :]))
    for n, tb in (c.get("tables") or {}).items():
        for i in range(len(tb["rows"])):
            out.append(dict(c, tables=dict(c["tables"], **{n: dict(tb, rows=tb["rows"][:i] + tb["rows"][i + 1 :])})))
    if c.get("tables") and not any(e["ev"] in ("table", "sql") for e in evs):
        out.append(dict(c, tables={}))
    return out


def shrink_raw(c: dict, rounds: int = 6) -> dict:
    """drop events / rows while the one extra statement still differs from the engine's answer"""

    def fails(x: dict) -> bool:
        try:
            r = eval_raw(x)
        except Exception:
            return False
        return (not r["skipped"]) and any(not row["agree"] for row in r["rows"])

    best = c
    for _ in range(rounds):
        nxt = None
        for cand in shrink_candidates({k: v for k, v in best.items() if k != "raw"}):
            cand = dict(cand, raw=best["raw"])
            if fails(cand):
                nxt = cand
                break
        if nxt is None:
            break
        best = nxt
    return best


def shrink(c: dict, failing: t.Callable[[dict], bool], rounds: int = 10) -> dict:
    best = {k: v for k, v in c.items() if k != "truncated"}
    for _ in range(rounds):
        cands = shrink_candidates(best)
        if not cands:
            break
        try:
            res = evaluate(cands, workers=1)
        except Exception:
            break
        nxt = next((r["case"] for r in res if failing(r)), None)
        if nxt is None:
            break
        best = {k: v for k, v in nxt.items() if k != "truncated"}
    return best


# ------------------------------------------------------------------------------------------------
# the generated definitions against the running code
# ------------------------------------------------------------------------------------------------


def gen_values() -> t.Dict[str, str]:
    path = os.path.join(vlib.GEN_DIR, "Views.lean")
    out: t.Dict[str, str] = {}
    if not os.path.exists(path):
        return out
    for m in re.finditer(r"^def (\w+) : [^:=]+ := (.+)$", open(path).read(), flags=re.M):
        out[m.group(1)] = m.group(2).strip()
    return out


def live_decisions() -> t.Dict[str, str]:
    """observe on live objects the decisions Gen.Views claims"""
    from sqlglot import exp

    s = vlib.fresh_duckdb_session()
    a = s.createDataFrame([(1, "x"), (2, "y")], schema="k bigint, s string")
    w = a.where("k > 1")
    w.createOrReplaceTempView("VA")
    out: t.Dict[str, str] = {}
    out["viewNormalizesName"] = "true" if "va" in s.temp_views and "VA" not in s.temp_views else "false"
    key = "va" if "va" in s.temp_views else "VA"
    st = s.temp_views[key]
    wrapped = bool(st.expression.ctes) and not st.expression.args.get("where") and st.expression.args["from"].this.name == st.expression.ctes[-1].alias_or_name
    out["viewStores"] = ".self" if st is w else (".wrappedCopy" if wrapped else ".copyOnly")
    out["viewRegistersColumns"] = "true" if s.catalog._schema.find(exp.to_table(key), raise_on_missing=False) else "false"
    try:
        tt = s.table("Va")
        out["tableChecksViewsFirst"] = "true" if tt is st else "false"
        out["tableNormalizesName"] = "true" if tt is st else "unknown"
    except Exception:
        out["tableChecksViewsFirst"] = "false"
        out["tableNormalizesName"] = "unknown"
    b = s.createDataFrame([(1, 10)], schema="k bigint, w bigint")
    b.createOrReplaceTempView("va")
    cols = list((s.catalog._schema.find(exp.to_table("va"), raise_on_missing=False) or {}).keys())
    out["viewSchemaKeptOnReregister"] = "true" if cols == ["k", "s"] else "false"
    # the splice
    a.where("k > 0").createOrReplaceTempView("vs")  # a chain of two CTEs: first and last differ
    view = s.temp_views["vs"]
    d = s.sql("select x.k as k from vs as x")
    names = [c.alias_or_name for c in d.expression.ctes]
    vnames = [c.alias_or_name for c in view.expression.ctes]
    out["spliceAppend"] = ".never" if not set(vnames) <= set(names) else (".ifAbsent" if len(set(names)) == len(names) else ".always")
    tabs = [t_.name for c in d.expression.ctes for t_ in c.this.find_all(exp.Table) if t_.alias == "x"]
    out["spliceTarget"] = ".last" if tabs and tabs[0] == vnames[-1] else (".first" if tabs and tabs[0] == vnames[0] else "other")
    wrapped = bool(d.expression.ctes) and d.expression.args["from"].this.name == d.expression.ctes[-1].alias_or_name
    out["sqlWrapsResult"] = "true" if wrapped else "false"
    d2 = s.sql("with vs as (select 5 as k) select vs.k as k from vs")
    r = [tuple(x) for x in d2.collect()]
    # … by scope: inside its own definition the name still means the view (rows k = 1, 2 of `a`, filtered k > 0)
    try:
        r3 = sorted(tuple(x) for x in s.sql("with vs as (select x.k as k from vs as x where x.k > 1) select vs.k as k from vs").collect())
    except Exception:
        r3 = None
    out["spliceSkipsCteBound"] = "true" if r == [(5,)] and r3 == [(2,)] else "false"
    # the leaf -> CTE conversion, on a leaf that carries every clause
    full = a.where("k > 0").distinct().orderBy("k").limit(5)

    def set_args(x: t.Any) -> t.List[str]:
        return sorted(k for k, v in x.args.items() if v not in (None, [], False))

    before = set_args(full.expression)
    conv = full._convert_leaf_to_cte()
    body = conv.expression.ctes[-1].this
    out["cteClearedArgs"] = "[" + ", ".join(json.dumps(k) for k in before if k not in set_args(body)) + "]"
    out["wrapKeepsChain"] = "true" if [c.alias_or_name for c in conv.expression.ctes[:-1]] == [c.alias_or_name for c in full.expression.ctes] else "false"
    leaf_args = [k for k in set_args(conv.expression) if k != "with"]
    out["wrapLeafBuilders"] = "[" + ", ".join(json.dumps({"from": "from_", "expressions": "select"}.get(k, k)) for k in sorted(leaf_args, key=lambda k: k != "from")) + "]"
    from_ok = conv.expression.args["from"].this.name == conv.expression.ctes[-1].alias_or_name
    out["wrapSelectsOuterColumns"] = "true" if from_ok and [x.alias_or_name for x in conv.expression.expressions] == [x.alias_or_name for x in body.expressions] and all(isinstance(x, exp.Column) for x in conv.expression.expressions) else "false"
    return out


def check_gen(ctx: Ctx) -> t.Dict[str, t.Any]:
    gv = gen_values()
    try:
        lv = live_decisions()
    except Exception as e:  # noqa
        ctx.broken.append(f"Gen.Views could not be exercised against the running code: {type(e).__name__}: {str(e)[:200]}")
        return {}
    diff = {k: (gv.get(k), v) for k, v in lv.items() if v != "unknown" and gv.get(k) != v}
    if gv and diff:
        ctx.broken.append(f"Gen.Views disagrees with the running code (generated, observed): {diff}")
    return {"generated": gv, "observed": lv}


# ------------------------------------------------------------------------------------------------
# the check
# ------------------------------------------------------------------------------------------------


def _blk(src: t.List[dict], sel: dict, where: t.Any = None, on: t.Any = None) -> dict:
    return {"src": src, "on": on, "where": where, "distinct": False, "sel": sel}


STAR = {"k": "star"}


def family_permute(rng: random.Random) -> dict:
    """a view re-registered with the same columns in another order (or other columns), then `*` in every position"""
    sch = rng.choice([s_ for s_ in SCHEMAS if len(s_) >= 2])
    name = rng.choice(VIEW_NAMES)
    events: t.List[dict] = [{"ev": "create", "schema": sch, "rows": X.gen_table(rng, dict(sch), 4) or [[1 if ty == "int" else "a" for _, ty in sch]]}]
    events.append({"ev": "register", "name": variant(rng, name), "i": 0})
    perm = list(sch)
    while perm == list(sch):
        rng.shuffle(perm)
    if rng.random() < 0.3:
        perm = perm[:-1] + [("j", "int")]  # a renamed column as well
        items = [[c_, ("col", c_)] for c_, _ in perm[:-1]] + [["j", ("lit", 1)]]
    else:
        items = [[c_, ("col", c_)] for c_, _ in perm]
    events.append({"ev": "transform", "i": 0, "op": {"k": "select", "items": items}})
    if rng.random() < 0.5:
        events.append({"ev": "sql", "q": {"ctes": [], "final": _blk([{"t": name, "a": None}], STAR)}})
    events.append({"ev": "register", "name": variant(rng, name), "i": 1})
    g = X.Gen(rng, {f"x.{c_}": ty for c_, ty in perm})
    shapes = [
        {"ctes": [], "final": _blk([{"t": variant(rng, name), "a": None}], STAR)},
        {"ctes": [], "final": _blk([{"t": name, "a": "x"}], STAR, where=g.bool_expr(1))},
        {"ctes": [["c", _blk([{"t": name, "a": None}], STAR)]], "final": _blk([{"t": "c", "a": None}], STAR)},
        {"ctes": [], "final": _blk([{"sub": _blk([{"t": name, "a": None}], STAR), "a": "q"}], STAR)},
        {"ctes": [["c", _blk([{"t": name, "a": "x"}], STAR)]], "final": _blk([{"t": "c", "a": "y"}], {"k": "items", "items": [[perm[0][0], ("col", f"y.{perm[0][0]}")]]})},
    ]
    for q in rng.sample(shapes, 3):
        events.append({"ev": "sql", "q": q})
    events.append({"ev": "table", "name": variant(rng, name)})
    return {"tables": {}, "events": events}


def family_lineage(rng: random.Random) -> dict:
    """a view built from another view keeps its meaning when that view is re-registered, also inside one statement
    that mentions both (in either order)"""
    sch = rng.choice(SCHEMAS)
    rows1 = X.gen_table(rng, dict(sch), 4) or [[1 if ty == "int" else "a" for _, ty in sch]]
    rows2 = [[(v + 1 if isinstance(v, int) else v) for v in r] for r in rows1] + [[7 if ty == "int" else "z" for _, ty in sch]]
    events: t.List[dict] = [{"ev": "create", "schema": sch, "rows": rows1}, {"ev": "create", "schema": sch, "rows": rows2}]
    events.append({"ev": "register", "name": "va", "i": 0})
    other = [c_ for c_, _ in sch if c_ != "k"][0]
    if rng.random() < 0.5:
        events.append({"ev": "sql", "q": {"ctes": [], "final": _blk([{"t": "va", "a": "x"}], {"k": "items", "items": [["k", ("col", "x.k")], [other, ("col", f"x.{other}")]]})}})
        fr = 2
    else:
        events.append({"ev": "table", "name": "va"})
        g = X.Gen(rng, dict(sch))
        events.append({"ev": "transform", "i": 2, "op": {"k": "where", "p": ("bin", "or", ("isNull", ("col", "k")), ("not", ("isNull", ("col", "k"))))}})
        fr = 3
    events.append({"ev": "register", "name": "vb", "i": fr})
    events.append({"ev": "register", "name": variant(rng, "va"), "i": 1})
    a, b = ("va", "vb") if rng.random() < 0.5 else ("vb", "va")
    join = _blk([{"t": a, "a": "x"}, {"t": b, "a": "y"}], {"k": "items", "items": [["k", ("col", "x.k")], ["m", ("col", f"y.{other}")]]}, on=("bin", "eq", ("col", "x.k"), ("col", "y.k")))
    events.append({"ev": "sql", "q": {"ctes": [], "final": join}})
    join2 = _blk([{"t": b, "a": "x"}, {"t": a, "a": "y"}], {"k": "items", "items": [["k", ("col", "x.k")], ["m", ("col", f"y.{other}")]]}, on=("bin", "eq", ("col", "x.k"), ("col", "y.k")))
    events.append({"ev": "sql", "q": {"ctes": [], "final": join2}})
    events.append({"ev": "table", "name": "vb"})
    return {"tables": {}, "events": events}


def _items(alias: str, cols: t.Sequence[str], names: t.Optional[t.Sequence[str]] = None) -> dict:
    return {"k": "items", "items": [[n_, ("col", f"{alias}.{c_}")] for c_, n_ in zip(cols, names or cols)]}


def _rows(rng: random.Random, sch: list, n: int = 5) -> list:
    """rows with NULLs and duplicates (so that DISTINCT, ORDER BY … LIMIT and GROUP BY all make a difference)"""
    rows = X.gen_table(rng, dict(sch), n) or [[1 if ty == "int" else "a" for _, ty in sch]]
    rows = rows + [list(rng.choice(rows)) for _ in range(2)]
    rng.shuffle(rows)
    return rows


def reads_of(rng: random.Random, name: str, sch: list, other: t.Optional[t.Tuple[str, list]], nframes: int, skeys: t.Optional[list]) -> t.List[dict]:
    """every way a history can look at the view `name` (columns `sch`): session.table, SQL with `*` / a column list /
    an aggregate / a CTE / a subquery / a join with another view, and DataFrame steps on what session.table returns"""
    cols = [c_ for c_, _ in sch]
    ints = [c_ for c_, ty in sch if ty == "int"]
    evs: t.List[dict] = []
    w = lambda: variant(rng, name)  # noqa: E731
    shapes = [
        {"ctes": [], "final": _blk([{"t": w(), "a": None}], STAR)},
        {"ctes": [], "final": _blk([{"t": w(), "a": "x"}], _items("x", cols))},
        {"ctes": [], "final": _blk([{"t": w(), "a": "x"}], {"k": "agg", "keys": [], "aggs": [["n", "countStar", None]] + ([["m", "sum", f"x.{ints[0]}"]] if ints else [])})},
        {"ctes": [["c", _blk([{"t": w(), "a": None}], STAR)]], "final": _blk([{"t": "c", "a": "y"}], _items("y", cols))},
        {"ctes": [], "final": _blk([{"sub": _blk([{"t": w(), "a": "x"}], _items("x", cols)), "a": "q"}], STAR)},
    ]
    if other is not None:
        on, osch = other
        jc = [c_ for c_, ty in sch if (c_, ty) in osch]
        if jc:
            oc = [c_ for c_, _ in osch]
            join = _blk(
                [{"t": w(), "a": "x"}, {"t": on, "a": "y"}],
                {"k": "items", "items": [[f"a{i}", ("col", f"x.{c_}")] for i, c_ in enumerate(cols)] + [["b0", ("col", f"y.{oc[-1]}")]]},
                on=("bin", "eq", ("col", f"x.{jc[0]}"), ("col", f"y.{jc[0]}")),
            )
            shapes.append({"ctes": [], "final": join})
    k = 3 if len(shapes) > 3 else len(shapes)
    for q in rng.sample(shapes, k):
        evs.append({"ev": "sql", "q": q})
    evs.append({"ev": "table", "name": w()})
    t_idx = nframes + len(evs) - 1
    if skeys:
        evs.append({"ev": "transform", "i": t_idx, "op": {"k": "limit", "n": rng.randint(1, 2)}})
    else:
        op, _, _ = gen_transform(rng, sch, None)
        evs.append({"ev": "transform", "i": t_idx, "op": op})
    return evs


LAST_STEPS = ["distinct", "dropDuplicates", "sort", "sortLimit", "agg", "where", "select", "selectDistinct", "whereSortLimit"]


def family_leaf(rng: random.Random, last: t.Optional[str] = None) -> dict:
    """what a registered frame's *last* steps are must not matter: the frame ends with distinct / dropDuplicates /
    orderBy / orderBy+limit / groupBy.agg / where / select (after 0-1 other steps), is registered, and is then read in
    every way; then the name is re-registered with another such frame and read again"""
    sch = rng.choice(SCHEMAS)
    events: t.List[dict] = [{"ev": "create", "schema": sch, "rows": _rows(rng, sch, 5)}]
    osch = rng.choice(SCHEMAS)
    events.append({"ev": "create", "schema": osch, "rows": _rows(rng, osch, 3)})
    events.append({"ev": "register", "name": "vo", "i": 1})
    nframes = 2

    def build(i: int, cur: list, last_: str) -> t.Tuple[int, list, t.Optional[list]]:
        nonlocal nframes
        steps: t.List[dict] = []
        if rng.random() < 0.4:
            op, cur2, _ = gen_transform(rng, cur, None)
            if op["k"] != "limit" and unique([c_ for c_, _ in cur2]):
                steps.append(op)
                cur = cur2
        ks = [[c_, rng.random() < 0.5] for c_, _ in cur]
        rng.shuffle(ks)
        g = X.Gen(rng, dict(cur))
        keys_out: t.Optional[list] = None
        if last_ in ("distinct", "dropDuplicates"):
            steps.append({"k": "distinct", "via": last_})
        elif last_ == "sort":
            steps.append({"k": "sort", "keys": ks})
            keys_out = ks
        elif last_ == "sortLimit":
            steps += [{"k": "sort", "keys": ks}, {"k": "limit", "n": rng.randint(1, 2)}]
        elif last_ == "whereSortLimit":
            steps += [{"k": "where", "p": g.bool_expr(1)}, {"k": "sort", "keys": ks}, {"k": "limit", "n": rng.randint(1, 2)}]
        elif last_ == "where":
            steps.append({"k": "where", "p": g.bool_expr(rng.choice([1, 2]))})
        elif last_ == "selectDistinct":
            sub = [cur[0]] if len(cur) > 1 else cur
            steps += [{"k": "select", "items": [[c_, ("col", c_)] for c_, _ in sub]}, {"k": "distinct", "via": "distinct"}]
            cur = sub
        else:
            for _ in range(8):
                op, cur2, _ = gen_transform(rng, cur, None)
                if op["k"] == ("agg" if last_ == "agg" else "select") and unique([c_ for c_, _ in cur2]):
                    steps.append(op)
                    cur = cur2
                    break
            else:
                steps.append({"k": "distinct", "via": "distinct"})
        for op in steps:
            events.append({"ev": "transform", "i": i, "op": op})
            i = nframes
            nframes += 1
        return i, cur, keys_out

    name = rng.choice(VIEW_NAMES)
    i, cur, ks = build(0, list(sch), last or rng.choice(LAST_STEPS))
    events.append({"ev": "register", "name": variant(rng, name), "i": i})
    rd = reads_of(rng, name, cur, ("vo", osch), nframes, ks)
    events += rd
    nframes += sum(1 for e in rd if e["ev"] != "register")
    if rng.random() < 0.5:
        base = rng.choice([0, 1])
        i2, cur2, ks2 = build(base, list([sch, osch][base]), rng.choice(LAST_STEPS))
        events.append({"ev": "register", "name": variant(rng, name), "i": i2})
        rd = reads_of(rng, name, cur2, None, nframes, ks2)
        events += rd[:3]
    return {"tables": {}, "events": events}


def family_shadow(rng: random.Random) -> dict:
    """an engine table `tb`; frames read from it (session.table / session.sql, possibly transformed) are registered as
    views; then a temp view named `tb` hides the table.  Frames and views built before keep reading the table, later
    lookups of `tb` see the view — also inside ONE statement that mentions both"""
    sch = rng.choice(SCHEMAS[:3])
    cols = [c_ for c_, _ in sch]
    tables = {"tb": {"schema": sch, "rows": _rows(rng, sch, 4)}}
    events: t.List[dict] = []
    nframes = 0
    if rng.random() < 0.6:
        events.append({"ev": "table", "name": "tb"})
    else:
        events.append({"ev": "sql", "q": {"ctes": [], "final": _blk([{"t": "tb", "a": "x"}], _items("x", cols))}})
    nframes += 1
    src = 0
    if rng.random() < 0.6:
        op, cur, _ = gen_transform(rng, sch, None)
        if op["k"] in ("where", "distinct"):
            events.append({"ev": "transform", "i": 0, "op": op})
            src = nframes
            nframes += 1
    events.append({"ev": "register", "name": variant(rng, "vb"), "i": src})
    # the frame that will hide the table: other rows, possibly other columns (the join column k is in every schema)
    nsch = sch if rng.random() < 0.5 else rng.choice(SCHEMAS[:3])
    events.append({"ev": "create", "schema": nsch, "rows": _rows(rng, nsch, 3)})
    hid = nframes
    nframes += 1
    events.append({"ev": "register", "name": variant(rng, "tb"), "i": hid})
    ncols = [c_ for c_, _ in nsch]
    a, b = ("vb", "tb") if rng.random() < 0.5 else ("tb", "vb")
    ca, cb = (cols, ncols) if a == "vb" else (ncols, cols)
    both = _blk(
        [{"t": a, "a": "x"}, {"t": b, "a": "y"}],
        {"k": "items", "items": [["a0", ("col", f"x.{ca[-1]}")], ["b0", ("col", f"y.{cb[-1]}")], ["k", ("col", "x.k")]]},
        on=("bin", "eq", ("col", "x.k"), ("col", "y.k")) if rng.random() < 0.6 else None,
    )
    shapes = [
        {"ctes": [], "final": both},
        {"ctes": [["c", _blk([{"t": "vb", "a": "x"}], _items("x", cols))]], "final": _blk([{"t": "c", "a": "x"}, {"t": "tb", "a": "y"}], {"k": "items", "items": [["a0", ("col", f"x.{cols[-1]}")], ["b0", ("col", f"y.{ncols[-1]}")]]})},
        {"ctes": [], "final": _blk([{"sub": _blk([{"t": "tb", "a": "x"}], _items("x", ncols)), "a": "q"}, {"t": "vb", "a": "y"}], {"k": "items", "items": [["a0", ("col", f"q.{ncols[-1]}")], ["b0", ("col", f"y.{cols[-1]}")]]})},
        {"ctes": [], "final": _blk([{"t": "vb", "a": None}], STAR)},
        {"ctes": [], "final": _blk([{"t": variant(rng, "tb"), "a": None}], STAR)},
    ]
    for q in [shapes[0]] + rng.sample(shapes[1:], 2):
        events.append({"ev": "sql", "q": q})
        nframes += 1
    events.append({"ev": "table", "name": "vb"})
    events.append({"ev": "table", "name": variant(rng, "tb")})
    if rng.random() < 0.5:
        events.append({"ev": "sql", "q": shapes[0]})
    return {"tables": tables, "events": events}


def family_scope(rng: random.Random) -> dict:
    """a CTE of the statement named like a registered view, referred to from where it is and from where it is not in
    scope: its own definition (`WITH va AS (SELECT … FROM va …)`), an earlier definition, a later one, the main query"""
    sa, sb = rng.choice(SCHEMAS), rng.choice(SCHEMAS)
    events: t.List[dict] = [
        {"ev": "create", "schema": sa, "rows": _rows(rng, sa, 4)},
        {"ev": "create", "schema": sb, "rows": _rows(rng, sb, 3)},
        {"ev": "register", "name": variant(rng, "va"), "i": 0},
        {"ev": "register", "name": "vb", "i": 1},
    ]
    ca, cb = [c_ for c_, _ in sa], [c_ for c_, _ in sb]
    ga = X.Gen(rng, {f"x.{c_}": ty for c_, ty in sa})
    inc = [["k", ("bin", "add", ("col", "x.k"), ("lit", 100))]]
    lit = {"lit": {"cols": ["k"], "row": [rng.choice([7, 10])]}}
    self_ref = _blk([{"t": variant(rng, "va"), "a": "x"}], _items("x", ca), where=ga.bool_expr(1))
    shapes = [
        # the CTE refines the view it hides
        {"ctes": [["va", self_ref]], "final": _blk([{"t": "va", "a": None}], STAR)},
        {"ctes": [["va", self_ref]], "final": _blk([{"t": "va", "a": "x"}, {"t": "vb", "a": "y"}], {"k": "items", "items": [["k", ("col", "x.k")], ["b0", ("col", f"y.{cb[-1]}")]]}, on=("bin", "eq", ("col", "x.k"), ("col", "y.k")))},
        # an earlier definition reads the view, a later one takes its name
        {"ctes": [["c", _blk([{"t": "va", "a": "x"}], _items("x", ["k"]))], ["va", lit]], "final": _blk([{"t": "c", "a": "x"}, {"t": "va", "a": "y"}], {"k": "items", "items": [["a0", ("col", "x.k")], ["b0", ("col", "y.k")]]})},
        # … and is built from the earlier one
        {"ctes": [["c", _blk([{"t": "va", "a": "x"}], _items("x", ["k"]), where=ga.bool_expr(1))], ["va", _blk([{"t": "c", "a": "x"}], {"k": "items", "items": inc})]], "final": _blk([{"t": "c", "a": "x"}, {"t": "va", "a": "y"}], {"k": "items", "items": [["a0", ("col", "x.k")], ["b0", ("col", "y.k")]]}, on=("bin", "eq", ("bin", "add", ("col", "x.k"), ("lit", 100)), ("col", "y.k")))},
        # two views, each hidden by a CTE that reads the *other* name: `vb` inside `va`'s definition is still the view
        {"ctes": [["va", _blk([{"t": "vb", "a": "x"}], _items("x", ["k"]))], ["vb", _blk([{"t": "va", "a": "x"}], {"k": "items", "items": inc})]], "final": _blk([{"t": "vb", "a": None}], STAR)},
        # in scope: a later definition and the main query see the CTE, not the view
        {"ctes": [["va", lit], ["d", _blk([{"t": "va", "a": "x"}], _items("x", ["k"]))]], "final": _blk([{"t": "d", "a": "x"}, {"t": "va", "a": "y"}], {"k": "items", "items": [["a0", ("col", "x.k")], ["b0", ("col", "y.k")]]})},
        # self reference in a subquery of the definition
        {"ctes": [["va", _blk([{"sub": self_ref, "a": "q"}], _items("q", ["k"]))]], "final": _blk([{"t": "va", "a": "x"}], {"k": "agg", "keys": [], "aggs": [["n", "countStar", None]]})},
    ]
    picks = rng.sample(shapes, 3)
    rereg = rng.random() < 0.5
    if rereg:
        picks[0] = shapes[0]  # same columns as the view it refines
    for q in picks:
        events.append({"ev": "sql", "q": q})
    # the result of such a statement registered as a view of its own and read back (without CTEs: a CTE named like
    # one inside the view's chain is the listed finding H_noCteNameClash)
    if rereg:
        events.append({"ev": "register", "name": "vc", "i": 2})
        events.append({"ev": "sql", "q": {"ctes": [], "final": _blk([{"t": "vc", "a": "x"}, {"t": "va", "a": "y"}], {"k": "items", "items": [["a0", ("col", f"x.{ca[-1]}")], ["b0", ("col", f"y.{ca[-1]}")]]}, on=("bin", "eq", ("col", "x.k"), ("col", "y.k")))}})
        events.append({"ev": "table", "name": "vc"})
    else:
        q, _ = QGen(rng, {"va": sa, "vb": sb}, {}, clash=0.9).query()
        events.append({"ev": "sql", "q": q})
    events.append({"ev": "table", "name": "va"})
    return {"tables": {}, "events": events}


def known_entries() -> t.Dict[str, dict]:
    known = {e["id"]: e for e in vlib.known_findings(ID)}
    extra = os.path.join(vlib.VERIF, "tools", "props", "c13.known.json")
    if os.path.exists(extra):
        for e in json.load(open(extra)).get("findings", []):
            if e.get("property") == ID and e.get("status") == "open":
                known.setdefault(e["id"], e)
    return known


def cases_for(ctx: Ctx) -> t.List[dict]:
    cases: t.List[dict] = []
    corpus_dir = os.path.join(vlib.VERIF, "corpus", ID)
    if os.path.isdir(corpus_dir):
        for fn in sorted(os.listdir(corpus_dir)):
            if fn.endswith(".json"):
                c = json.load(open(os.path.join(corpus_dir, fn)))
                c["origin"] = "corpus:" + fn
                cases.append(c)
    for fam, k in ((family_permute, 20), (family_lineage, 10), (family_leaf, 3 * len(LAST_STEPS)), (family_shadow, 20), (family_scope, 24)):
        for j in range(k * (4 if ctx.thorough else 1)):
            c = fam(ctx.rng, LAST_STEPS[j % len(LAST_STEPS)]) if fam is family_leaf else fam(ctx.rng)
            c["origin"] = fam.__name__
            cases.append(c)
    n = 2500 if ctx.thorough else 240
    for _ in range(n):
        c = gen_case(ctx.rng)
        c["origin"] = "random"
        cases.append(c)
    return cases


def failing_pred(known: t.Dict[str, dict]) -> t.Callable[[dict], bool]:
    def f(r: dict) -> bool:
        cl = classify(r, known)
        return bool(cl["viol"])

    return f


def replay_dict(r: dict, ch: dict, ctx: Ctx, kind: str) -> dict:
    c = r["case"]
    return {
        "kind": kind,
        "program": show_case(c),
        "case": {k: v for k, v in c.items() if k not in ("origin", "truncated")},
        "failing_event": ch.get("event"),
        "implementation": ch.get("impl"),
        "implementation_at_end_of_history": ch.get("impl_final"),
        "specification": ch.get("spec"),
        "model": ch.get("model"),
        "duckdb_direct": ch.get("oracle"),
        "violated_scope_hypotheses": ch.get("scope"),
        "broken": ctx.broken,
    }


def run(ctx: Ctx) -> None:
    idx = vlib.props_index()[ID]
    vlib.prove(ctx, MODULES, GEN, idx["theorems"], SOURCES)
    known = known_entries()

    cases = cases_for(ctx)
    res = evaluate(cases)  # forks workers: nothing in this process has touched DuckDB yet
    raw_cases = [gen_raw_case(ctx.rng) for _ in range(160 if ctx.thorough else 40)]
    raw_res = vlib.parallel_map(eval_raw, raw_cases)
    gen_info = check_gen(ctx)

    kinds: t.Dict[str, int] = {}
    qshapes: t.Dict[str, int] = {}
    lens: t.Dict[int, int] = {}
    n_checks = 0
    n_model_ok = 0
    n_spec_ok = 0
    n_oracle = 0
    n_oracle_ok = 0
    n_scope = 0
    nontrivial = set()
    errs = 0
    rereg = 0
    casevar = 0
    model_bad: t.List[t.Tuple[dict, dict]] = []
    oracle_bad: t.List[t.Tuple[dict, dict]] = []
    reg_bad: t.List[t.Tuple[dict, dict]] = []
    viol: t.List[t.Tuple[dict, dict]] = []
    for r in res:
        c = r["case"]
        lens[len(c["events"])] = lens.get(len(c["events"]), 0) + 1
        seen_names = set()
        for ev in c["events"]:
            kinds[ev["ev"]] = kinds.get(ev["ev"], 0) + 1
            if ev["ev"] == "register":
                if ev["name"].lower() in seen_names:
                    rereg += 1
                seen_names.add(ev["name"].lower())
                casevar += ev["name"] != ev["name"].lower()
            if ev["ev"] == "sql":
                q = ev["q"]
                txt = json.dumps(q)
                for tag, cond in (
                    ("cte", bool(q["ctes"])),
                    ("join", '"src": [{' in txt and any(isinstance(b, dict) and len(b.get("src", [])) == 2 for b in [q["final"]] + [x[1] for x in q["ctes"]])),
                    ("aggregate", '"k": "agg"' in txt),
                    ("subquery", '"sub"' in txt),
                    ("union", '"union"' in txt),
                    ("star", '"k": "star"' in txt),
                    ("filter", '"where": [' in txt),
                ):
                    if cond:
                        qshapes[tag] = qshapes.get(tag, 0) + 1
        cl = classify(r, known)
        for ch in r["checks"]:
            if ch["kind"] == "register":
                continue
            n_checks += 1
            n_model_ok += ch["impl_eq_model"]
            n_spec_ok += ch["impl_eq_spec"]
            n_scope += bool(ch["scope"])
            if ch["oracle"] is not None:
                n_oracle += 1
                n_oracle_ok += ch["spec_eq_oracle"]
            if "err" in ch["impl"]:
                errs += 1
            elif ch["kind"] in ("sql", "table", "joinBack") and ch["impl"]["rows"]:
                nontrivial.add(vlib.digest([show_event(c["events"][ch["event"]]), ch["impl"]]))
        for h in cl["known"]:
            vlib.report_known(ctx, known[h], known[h]["summary"])
        model_bad += [(r, ch) for ch in cl["model_bad"]]
        oracle_bad += [(r, ch) for ch in cl["oracle_bad"]]
        reg_bad += [(r, ch) for ch in cl["reg_bad"]]
        viol += [(r, ch) for ch in cl["viol"]]

    # recorded witnesses of the open known findings, replayed on the real code
    for h, e in known.items():
        w = e.get("witness")
        if isinstance(w, dict) and "events" in w:
            try:
                rr = evaluate([w], workers=1)[0]
            except Exception as ex:  # noqa
                ctx.broken.append(f"witness of {h} could not be replayed: {ex}")
                continue
            if any(ch["kind"] != "register" and not ch["impl_eq_spec"] for ch in rr["checks"]):
                vlib.report_known(ctx, e, e["summary"])

    if model_bad:
        ctx.broken.append(f"correspondence stream A (implementation vs Impl/C13Views.lean): {len(model_bad)} of {n_checks} frame observations differ")
    if reg_bad:
        ctx.broken.append(f"registry keys differ between implementation and model in {len(reg_bad)} registrations")
    if oracle_bad:
        ctx.broken.append(f"engine semantics (Lean `evalBody`/`resolveFuel` vs DuckDB run directly): {len(oracle_bad)} of {n_oracle} differ")

    reported = 0
    pred = failing_pred(known)
    seen_prog = set()
    for r, ch in viol:
        if reported >= 3:
            break
        keep_value = "err" not in ch["spec"]  # do not shrink a wrong result into a statement that has no value at all

        def pred_keep(rr: dict, keep_value: bool = keep_value) -> bool:
            return any((not keep_value) or ("err" not in v["spec"]) for v in classify(rr, known)["viol"])

        c = shrink(r["case"], pred_keep)
        key = vlib.digest(c["events"])
        if key in seen_prog:
            continue
        seen_prog.add(key)
        rr = evaluate([c], workers=1)[0]
        bad = [v for v in classify(rr, known)["viol"] if (not keep_value) or ("err" not in v["spec"])] or classify(rr, known)["viol"]
        ch2 = bad[0] if bad else ch
        vlib.report_violation(ctx, replay_dict(rr if bad else r, ch2, ctx, "session.sql / session.table result differs from the specification (views denote the registered frames' rows)"))
        reported += 1
    # statement shapes the Lean statement language does not have (predicate subqueries, HAVING, a WITH inside a derived
    # table, …): the implementation against the engine run directly — validated by execution only
    raw_n = raw_bad = 0
    raw_tags: t.Dict[str, int] = {}
    for rr_ in raw_res:
        for row in rr_["rows"]:
            raw_n += 1
            raw_tags[row["tag"]] = raw_tags.get(row["tag"], 0) + 1
            if not row["agree"]:
                raw_bad += 1
                if reported < 4:
                    c_ = dict(rr_["case"], raw=[st for st in rr_["case"]["raw"] if st["sql"] == row["sql"]])
                    c_ = shrink_raw(c_)
                    vlib.report_violation(
                        ctx,
                        {
                            "kind": "session.sql result differs from what the engine returns for the statement over tables holding the views' rows",
                            "program": show_case(c_) + [f"session.sql({c_['raw'][0]['sql']!r})"],
                            "raw_case": c_,
                            "implementation": row["impl"],
                            "duckdb_direct": row["engine"],
                            "broken": ctx.broken,
                        },
                    )
                    reported += 1
    if ctx.broken and not reported:
        first = (model_bad or oracle_bad or reg_bad or [None])[0]
        vlib.report_violation(
            ctx,
            {
                "kind": "proof obligation or correspondence no longer checks; no failing input found",
                "broken": ctx.broken,
                "searched": {"cases": len(res), "frame_observations": n_checks, "event_kinds": kinds},
                "first_disagreement": replay_dict(first[0], first[1], ctx, "disagreement") if first else None,
            },
            no_input=True,
        )

    step = max(1, len(res) // 4)
    ctx.cov.update(
        {
            "evaluations": len(res),
            "frame_observations": n_checks,
            "distinct_nontrivial": len(nontrivial),
            "rule": "corpus, then five targeted families — (1) a view re-registered with permuted / changed columns followed by `*` at top level, in a CTE, in a subquery; "
            "(2) a view built from another view, that view re-registered, one statement joining both in either order; (3) a frame whose LAST steps are each of distinct / dropDuplicates / "
            "orderBy / orderBy+limit / where+orderBy+limit / groupBy.agg / where / select / select+distinct, registered and read back in every way (session.table, `*`, column list, aggregate, CTE, subquery, "
            "join with another view, DataFrame steps on session.table's result incl. limit over a sorted view), then re-registered; (4) an engine table, frames read from it registered as views, then a temp view "
            "hiding the table's name, statements over both in one query; (5) CTEs named like registered views, referenced from their own definition, from earlier and from later definitions — "
            "then random histories: 1-3 createDataFrame (+ session.table of an engine table), a registration, then up to 5 more events drawn from "
            "register / re-register (3 view names + the engine table's name, case variants) / session.table / session.sql(generated SELECT: projection, filter, join, "
            "aggregate, CTE (15% named like a view), subquery, UNION ALL in a subquery, *, ORDER BY all columns + LIMIT) / DataFrame where|select|distinct|dropDuplicates|orderBy|limit after orderBy|groupBy.agg on any earlier frame / join back to a view; "
            "every frame is collected when built and again at the end of the history; non-trivial = distinct (statement, non-empty result) "
            "of sql / table / join-back events",
            "traces_validated_against_impl": n_model_ok,
            "impl_vs_spec_agree": n_spec_ok,
            "spec_vs_duckdb_direct": {"compared": n_oracle, "agree": n_oracle_ok},
            "out_of_scope_observations": n_scope,
            "implementation_errors": errs,
            "re_registrations": rereg,
            "case_variant_registrations": casevar,
            "event_kind_histogram": kinds,
            "statement_shape_histogram": qshapes,
            "history_length_histogram": {str(k): v for k, v in sorted(lens.items())},
            "execution_only_statements": {"compared": raw_n, "differ": raw_bad, "by_shape": raw_tags, "note": "predicate subqueries (IN / EXISTS / scalar), HAVING, LEFT JOIN, WITH inside a derived table, CTEs named like views inside predicates: implementation vs DuckDB run directly; not in the Lean statement language"},
            "gen_vs_live": gen_info,
            "samples": [{"history": show_case(r["case"]), "last_result": next((ch["impl"] for ch in reversed(r["checks"]) if ch["kind"] != "register"), None)} for r in res[::step][:4]],
        }
    )
    ctx.assumptions += [
        "parsing / qualifying the user's SQL is sqlglot's: the statement enters the model as the parsed tree the generator rendered to text",
        "DuckDB evaluates a SELECT tree as `evalBody` says and binds a WITH list by name (forward references legal) as `resolveFuel` says — validated on every generated statement against DuckDB run directly over real tables",
        "the statement the user writes is read the way Spark reads a WITH list (`evalLex`: a CTE is visible to later definitions and to the main query; confirmed with live PySpark 3.5.9); the direct DuckDB run gets the same statement with that scoping made explicit (every CTE renamed apart, references bound to the nearest earlier CTE); statements in which a definition refers to itself / a later CTE that is NOT a temp view are not generated (Spark rejects them or reads a table, DuckDB binds them to the later CTE)",
        "ORDER BY (DataFrame orderBy, or in a generated statement) always lists every column, so that a following LIMIT determines the rows up to identical ones; Spark's null ordering is spelled out in generated SQL; a table's row list is ordered in the model, and a LIMIT directly over a CTE / view that ends in ORDER BY takes its first rows (DuckDB keeps the order of a CTE scan)",
        "both DuckDB connections run with `SET threads=1; SET disabled_optimizers='join_filter_pushdown'`: DuckDB 1.2.2 pushes a hash join's dynamic filter below ORDER BY … LIMIT of a CTE on the probe side and then returns rows outside the first n (varying with several threads) — an engine defect seen when the generated text is run directly, independent of sqlframe",
        "CTE names are content hashes: a fresh CTE name is not bound or mentioned in the frame it closes (hypothesis `FreshName`; CRC32 collisions excluded)",
        "generated statements never define a CTE whose body refers to the CTE's own name, and CTE / alias names differ from column names",
        "row order of results is not compared (bags)",
    ]


def replay(ctx: Ctx, rp: dict) -> None:
    if rp.get("raw_case"):
        r = eval_raw(rp["raw_case"])
        for row in r["rows"]:
            print(json.dumps(row, default=str))
        if any(not row["agree"] for row in r["rows"]):
            vlib.report_violation(ctx, dict(rp, implementation=r["rows"][0]["impl"], duckdb_direct=r["rows"][0]["engine"]))
        return
    c = rp.get("case")
    if not c:
        print("replay names a broken obligation, not an input:", rp.get("broken"))
        return
    known = known_entries()
    r = evaluate([c], workers=1)[0]
    cl = classify(r, known)
    for ch in r["checks"]:
        if ch["kind"] == "register":
            continue
        print(json.dumps({"event": show_event(r["case"]["events"][ch["event"]]), "implementation": ch["impl"], "at_end": ch["impl_final"], "specification": ch["spec"], "model": ch["model"], "scope": ch["scope"], "agree": ch["impl_eq_spec"]}, default=str))
    if cl["viol"]:
        vlib.report_violation(ctx, replay_dict(r, cl["viol"][0], ctx, rp.get("kind", "replay")))
    for h in cl["known"]:
        vlib.report_known(ctx, known[h], known[h]["summary"])
