"""
c14_pool.py — sharded execution of the implementation side for C14 that cannot hang.

Why not multiprocessing.Pool: (1) forking a process that has already used DuckDB (its worker threads exist in
the parent only; their locks are copied in whatever state they were) deadlocks the children, and Pool.map then
waits for ever — this happened when the shrinker evaluated >= 16 path candidates after the main process had
replayed known findings in-process; (2) Pool.map also waits for ever when a worker dies.

Here:  * the main process remembers whether it has touched DuckDB (`taint()`); once it has, everything runs
         in-process (sequentially), nothing is forked any more;
       * workers are plain os.fork children that stream their results into a private file; the parent polls
         with waitpid(WNOHANG); a child that makes no progress for `stall` seconds is killed;
       * items whose child died or stalled are run again, one fresh child per item; what is still missing
         then raises (the check reports that as a correspondence it could not complete) — never a hang.
"""
from __future__ import annotations

import os
import pickle
import signal
import sys
import tempfile
import time
import traceback
import typing as t

_MAIN_PID = os.getpid()
_TAINTED = False


def taint() -> None:
    """this process is about to use DuckDB in-process: it must not fork workers afterwards"""
    global _TAINTED
    _TAINTED = True


def tainted() -> bool:
    return _TAINTED


def fresh_session() -> t.Any:
    import vlib

    taint()
    return vlib.fresh_duckdb_session()


def _load_results(path: str) -> t.List[t.Tuple[int, str, t.Any]]:
    out = []
    try:
        with open(path, "rb") as f:
            while True:
                try:
                    out.append(pickle.load(f))
                except EOFError:
                    break
                except Exception:  # a record cut short by a kill
                    break
    except FileNotFoundError:
        pass
    return out


def _run_children(fn: t.Callable[[t.Any], t.Any], items: t.List[t.Any], shards: t.List[t.List[int]], stall: float) -> t.Dict[int, t.Tuple[str, t.Any]]:
    d = tempfile.mkdtemp(prefix="verif_c14_pool_")
    kids: t.Dict[int, dict] = {}
    sys.stdout.flush()
    sys.stderr.flush()
    for si, shard in enumerate(shards):
        if not shard:
            continue
        path = os.path.join(d, f"{si}.pkl")
        pid = os.fork()
        if pid == 0:
            code = 0
            try:
                with open(path, "wb") as f:
                    for idx in shard:
                        try:
                            rec = (idx, "ok", fn(items[idx]))
                        except Exception:  # noqa
                            rec = (idx, "exc", traceback.format_exc()[-3000:])
                        pickle.dump(rec, f)
                        f.flush()
            except BaseException:  # noqa
                code = 1
                try:
                    traceback.print_exc()
                except Exception:
                    pass
            finally:
                try:
                    sys.stderr.flush()
                except Exception:
                    pass
                os._exit(code)
        kids[pid] = {"path": path, "size": -1, "t": time.time(), "n": len(shard)}
    live = set(kids)
    while live:
        for pid in list(live):
            k = kids[pid]
            try:
                done, _ = os.waitpid(pid, os.WNOHANG)
            except ChildProcessError:
                done = pid
            if done:
                live.discard(pid)
                continue
            try:
                sz = os.path.getsize(k["path"])
            except OSError:
                sz = 0
            now = time.time()
            if sz != k["size"]:
                k["size"], k["t"] = sz, now
            elif now - k["t"] > stall:
                print(f"c14_pool: worker {pid} made no progress for {stall:.0f}s; killed", file=sys.stderr, flush=True)
                try:
                    os.kill(pid, signal.SIGKILL)
                    os.waitpid(pid, 0)
                except Exception:
                    pass
                live.discard(pid)
        if live:
            time.sleep(0.03)
    res: t.Dict[int, t.Tuple[str, t.Any]] = {}
    for k in kids.values():
        for idx, tag, val in _load_results(k["path"]):
            res[idx] = (tag, val)
        try:
            os.remove(k["path"])
        except OSError:
            pass
    try:
        os.rmdir(d)
    except OSError:
        pass
    return res


def pmap(fn: t.Callable[[t.Any], t.Any], items: t.List[t.Any], workers: int = 0, stall: float = 300.0) -> t.List[t.Any]:
    """order-preserving map; forks workers only from a process that has never used DuckDB"""
    if workers == 0:
        workers = min(int(os.environ.get("VERIF_WORKERS", "8")), os.cpu_count() or 1)
    if _TAINTED or workers <= 1 or len(items) < 16 or os.getpid() != _MAIN_PID:
        taint()
        return [fn(x) for x in items]
    shards = [list(range(i, len(items), workers)) for i in range(workers)]
    res = _run_children(fn, items, shards, stall)
    missing = [i for i in range(len(items)) if i not in res]
    if missing:
        print(f"c14_pool: {len(missing)} of {len(items)} items did not come back; running each again in a fresh process", file=sys.stderr, flush=True)
        for lo in range(0, len(missing), workers):
            part = missing[lo : lo + workers]
            res.update(_run_children(fn, items, [[i] for i in part], stall))
        still = [i for i in range(len(items)) if i not in res]
        if still:
            raise RuntimeError(f"{len(still)} implementation runs did not finish (worker died or stalled twice); first item: {str(items[still[0]])[:300]}")
    out = []
    for i in range(len(items)):
        tag, val = res[i]
        if tag == "exc":
            raise RuntimeError("implementation run raised in a worker:\n" + str(val))
        out.append(val)
    return out
