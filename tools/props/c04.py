"""
C04 — DataFrames are immutable; transformations are pure and lazy.

proof : lean/SqlframeModel/Props/C04.lean (frame / history / handles / lazy / hints, over Gen.Purity + Gen.Writes + Gen.Operations)
tie   : Gen.Purity regenerated from /repo (where display names are recorded, whether normalize works on copies,
        copy()/GroupedData, on which object `_resolve_pending_hints` / `_hint` / `alias` work, `limit`'s body, static call
        graph to the engine) and Gen.Writes (static alias analysis: which DataFrame-owned state every member can write);
        correspondence stream = scenarios of public calls on the real objects with a *deep snapshot of every pre-existing
        DataFrame and Column handle* before and after each call, and a proxy connection counting statements, compared
        with the model's predicted set of mutated objects / hint state / engine traffic.
search: the same snapshots are the specification check (nothing that existed may change), also for the public API
        outside the Lean alphabet (joins, set operations, groupBy/agg, na.*, …).  Observations are calls too: every new
        DataFrame is observed twice at once and once more at the end; every call is made again at the end; at the end every
        DataFrame is also compared with a *fresh twin* (the same calls replayed on new objects), itself and — for receivers —
        through standard derivations (a join, a select).
"""
from __future__ import annotations

import contextlib
import io
import json
import os
import random
import re
import sys
import typing as t
import warnings

import c01
import exprs as X
import vlib
from vlib import Ctx, bag, plain

ID = "C04"
LEVEL = "proof"
MODULES = ["SqlframeModel.Codec.C04", "SqlframeModel.Props.C04"]
GEN = ["Operations", "Methods", "Clauses", "Purity", "Writes"]
SOURCES = ["SqlframeModel/Props/C04.lean", "SqlframeModel/Impl/C04.lean"]

ACTIONS = ["collect", "count", "show", "show1", "show_default", "head", "head1", "head_default", "first", "isEmpty", "toPandas", "toArrow",
           "columns", "sql", "schema", "sql_opt", "explain", "printSchema"]
EXTRA = ["join_name", "join_expr", "crossJoin", "union", "unionByName", "intersect", "exceptAll", "groupBy_agg", "groupBy_count", "agg",
         "dropna", "replace", "unpivot", "toDF", "cube", "na_fill", "dropDuplicates", "select_star", "select_none",
         "withColumns", "cache", "transform", "createOrReplaceTempView", "sort", "filter_str", "selectExpr_like", "getattr", "alias_use",
         # schema-agnostic forms of the single-input transformations, usable on any receiver (also results outside the Lean alphabet)
         "x_limit_big", "x_limit2", "x_distinct", "x_orderBy", "x_where", "x_select1", "x_withColumn", "x_drop_last", "x_rename", "x_copy",
         # naming follow-ups whose new spelling differs from an existing column's only in letter case: the display-name map gets an entry
         # under that column's own key, so an entry recorded on the wrong object shows in what that object reports
         "case_rename", "case_select", "case_alias", "case_toDF", "case_withColumn", "case_withColumns"]
# (method, hint name, parameter): partition hints go into the block's hint clause, join hints wait for a join
HINTS = [("repartition", "REPARTITION", 3), ("coalesce", "COALESCE", 1), ("hint", "REBALANCE", None), ("hint", "BROADCAST", None), ("repartition", "REPARTITION", 2)]
JOIN_HINT_NAMES = {"BROADCAST", "BROADCASTJOIN", "MAPJOIN", "MERGE", "SHUFFLEMERGE", "MERGEJOIN", "SHUFFLE_HASH", "SHUFFLE_REPLICATE_NL"}
LAZY_OPS = ("transform", "getItem", "extra", "create", "hint", "alias")
LAZY_OBS = ("columns", "sql", "sql_opt")  # read-only observations that must not reach the engine either
OBS = ("columns", "sql", "rows", "last_op")  # what a DataFrame reports, and the state its next operation starts from
# which public member(s) an event calls on its receiver (for exercising Gen.Writes against the running code)
ACTION_METHOD = {"collect": "collect", "count": "count", "show": "show", "show1": "show", "show_default": "show", "head": "head", "head1": "head",
                 "head_default": "head", "first": "first", "isEmpty": "isEmpty", "toPandas": "toPandas", "toArrow": "toArrow", "columns": "columns",
                 "sql": "sql", "schema": "schema", "sql_opt": "sql", "explain": "explain", "printSchema": "printSchema"}


class CountingConn:
    """DB-API proxy counting statements sent to the engine"""

    def __init__(self, conn):
        object.__setattr__(self, "_c", conn)
        object.__setattr__(self, "n", 0)

    def execute(self, *a, **k):
        object.__setattr__(self, "n", self.n + 1)
        return self._c.execute(*a, **k)

    def sql(self, *a, **k):
        object.__setattr__(self, "n", self.n + 1)
        return self._c.sql(*a, **k)

    def cursor(self):
        return self

    def close(self):  # pandas closes the "cursor" it was handed; the session must stay usable
        return None

    def __getattr__(self, name):
        return getattr(self._c, name)


_S = None


def sess():
    global _S
    if _S is None:
        import logging

        import duckdb
        from sqlframe.base.session import _BaseSession
        from sqlframe.duckdb import DuckDBSession

        logging.disable(logging.WARNING)  # DuckDB drops hints at execution time and says so, once per statement
        _BaseSession._instance = None
        _S = DuckDBSession(conn=CountingConn(duckdb.connect(":memory:")))
    return _S


# ------------------------------------------------------------------------------------------------
# scenario generation: a list of events over object indices
# ------------------------------------------------------------------------------------------------


def _respell(rng: random.Random, step: dict) -> t.Tuple[str, t.List[t.List[str]]]:
    """occasionally respell a column so that a display-name update happens"""
    names: t.List[t.List[str]] = []
    namer = "none"
    if step["k"] == "select":
        namer = "select"
        spelled = []
        for nm, e in step["items"]:
            sp = nm.upper() if rng.random() < 0.5 else nm
            spelled.append(sp)
            names.append([nm, sp])
        step["spell"] = spelled
    elif step["k"] == "withColumn":
        namer = "withColumns"
        sp = step["n"].upper() if rng.random() < 0.5 else step["n"]
        step["spell"] = sp
        names.append([step["n"], sp])
    elif step["k"] == "withColumnRenamed":
        namer = "withColumnRenamed"
        sp = step["b"].upper() if rng.random() < 0.5 else step["b"]
        step["spell"] = sp
        names.append([step["b"], sp])
    return namer, names


def gen_transform(rng: random.Random, kind: str, r: int, schemas: list, states: list, handles: list) -> t.Optional[dict]:
    """one C01 step on model object r; appends the new object's schema / determinism state"""
    sch = dict(schemas[r])
    st = dict(states[r])
    step = c01.gen_step(rng, kind, sch, st, False)
    if step is None:
        return None
    namer, names = _respell(rng, step)
    hs: t.List[int] = []
    if step["k"] == "where" and handles and rng.random() < 0.5:
        # use a user-held handle inside the predicate: handle.isNull() | handle.isNotNull()
        cand = [i for i, (_, col) in enumerate(handles) if col in schemas[r]]
        if cand:
            hi = rng.choice(cand)
            step = {"k": "where", "p": ("not", ("isNull", ("col", handles[hi][1]))), "handle": hi}
            hs = [hi]
    schemas.append(sch)
    states.append(st)
    return {"op": "transform", "r": r, "step": step, "namer": namer, "names": names, "hs": hs}


def gen_scenario(rng: random.Random, n_events: int) -> dict:
    schema = {"x": "int", "y": "int", "s": "str"}
    rows = X.gen_table(rng, schema)
    schemas = [dict(schema)]  # schema of each model DataFrame object
    states: t.List[dict] = [{"total": False}]  # is its row order total (then a truncating limit is deterministic)?
    handles: t.List[t.Tuple[int, str]] = []  # (object the handle was taken from, column)
    events: t.List[dict] = []
    for _ in range(n_events):
        r = rng.randrange(len(schemas))
        c = rng.random()
        rx = rng.randrange(64) if rng.random() < 0.3 else None
        if c < 0.40:
            # a limit is only interesting after a total order: make those more likely
            kind = rng.choice(c01.KINDS + ["limit", "orderBy"]) if not states[r].get("total") else rng.choice(c01.KINDS + ["limit"] * 6)
            ev = gen_transform(rng, kind, r, schemas, states, handles)
            if ev is not None:
                events.append(ev)
        elif c < 0.60:
            events.append({"op": "action", "r": r, "which": rng.choice(ACTIONS), "rx": rx})
        elif c < 0.68:
            col = rng.choice(list(schemas[r]))
            events.append({"op": "getItem", "r": r, "n": col, "via": rng.choice(["item", "attr", "F.col"])})
            handles.append((r, col))
        elif c < 0.71:
            # a second DataFrame made directly from the session, same data, every column spelled differently
            events.append({"op": "create", "r": 0, "spell": rng.choice(["upper", "title"])})
        elif c < 0.79:
            m, name, n = rng.choice(HINTS)
            events.append({"op": "hint", "r": r, "m": m, "name": name, "n": n, "rx": rx})
            if rx is None:
                schemas.append(dict(schemas[r]))
                states.append(dict(states[r]))
        elif c < 0.83:
            events.append({"op": "alias", "r": r, "name": rng.choice(["t1", "t2"]), "rx": rx})
            if rx is None:
                schemas.append(dict(schemas[r]))
                states.append(dict(states[r]))
        else:
            # `rx`: with some probability the receiver is an earlier result outside the Lean alphabet (join, union, …)
            events.append({"op": "extra", "r": r, "which": rng.choice(EXTRA), "other": rng.randrange(len(schemas)), "rx": rx})
    return {"schema": schema, "rows": rows, "events": events}


def creates_model(ev: dict) -> bool:
    return ev["op"] == "transform" or (ev["op"] in ("hint", "alias") and ev.get("rx") is None)


def hint_text(ev: dict) -> str:
    """as rendered, with the random sequence id a parameterless hint() names written R"""
    if ev["n"] is None:
        return ev["name"] if ev["name"] in JOIN_HINT_NAMES else f"{ev['name']}(R)"
    return f"{ev['name']}({ev['n']})"


def action_via(which: str) -> t.Any:
    if which in ("collect", "toPandas", "toArrow", "count", "explain"):
        return "direct"
    if which in ("schema", "printSchema"):
        return "none"
    if which in ("show", "show1", "show_default", "head", "head1", "head_default", "first"):
        n = {"show": 3, "show1": 1, "show_default": 20, "head": 2, "head1": 1, "head_default": 1, "first": 1}[which]
        return {"step": {"s": {"limit": {"n": n}}}}
    if which == "isEmpty":
        return {"step": {"s": {"select": {"items": [["c", X.to_lean(("lit", True))]]}}}}
    raise ValueError(which)


def to_lean(i: int, sc: dict) -> dict:
    calls = []
    for ev in sc["events"]:
        if ev.get("rx") is not None:
            continue
        if ev["op"] == "transform":
            calls.append({"transform": {"r": ev["r"], "s": c01.step_to_lean(ev["step"]), "namer": ev["namer"], "names": ev["names"], "hs": ev["hs"]}})
        elif ev["op"] == "action" and ev["which"] in ("sql", "sql_opt"):
            calls.append({"render": {"r": ev["r"]}})
        elif ev["op"] == "action" and ev["which"] not in LAZY_OBS:
            calls.append({"action": {"r": ev["r"], "k": 0, "via": action_via(ev["which"])}})
        elif ev["op"] == "getItem":
            calls.append({"getItem": {"r": ev["r"], "n": ev["n"]}})
        elif ev["op"] == "hint":
            calls.append({"hint": {"r": ev["r"], "m": ev["m"], "h": {"join": ev["name"] in JOIN_HINT_NAMES, "text": hint_text(ev), "cell": 0}}})
        elif ev["op"] == "alias":
            calls.append({"alias": {"r": ev["r"]}})
    return {"case": i, "table": X.table_to_lean(list(sc["schema"]), sc["rows"]), "calls": calls}


def in_model(ev: dict) -> bool:
    """does to_lean emit a call for this event?"""
    if ev.get("rx") is not None or ev["op"] in ("extra", "create"):
        return False
    return not (ev["op"] == "action" and ev["which"] == "columns")


# ------------------------------------------------------------------------------------------------
# the real implementation with deep snapshots
# ------------------------------------------------------------------------------------------------


def _rows(df) -> t.Any:
    try:
        return bag([[plain(v) for v in r] for r in df.collect()])
    except Exception as e:  # an invalid program built by an unmodelled follow-up: still compare what can be compared
        return f"uncollectable: {type(e).__name__}"


_HEX = re.compile(r"\b[0-9a-f]{32}\b")
_TNAME = re.compile(r"\bt\d{3,9}\b")
_ANAME = re.compile(r"AS [`\"]?a\d+[`\"]?\(")
_RID = re.compile(r"\br[0-9a-f]{32}\b")
_COMMENT = re.compile(r"/\*\+\s*(.*?)\s*\*/", re.S)


def norm_sql(text: str) -> str:
    """the statement up to the names that differ between two constructions of the same program: the counter in createDataFrame's
    VALUES alias, the content hashes derived from it, random sequence ids and the random literal that keeps two identical CTEs apart"""
    text = _RID.sub("R", text)
    text = _HEX.sub("U", text)
    text = _ANAME.sub("AS A(", text)
    seen: t.Dict[str, str] = {}

    def ren(m: t.Any) -> str:
        return seen.setdefault(m.group(0), f"T{len(seen) + 1}")

    return _TNAME.sub(ren, text)


def hint_comments(text: str) -> t.List[str]:
    return [_RID.sub("R", re.sub(r"\s+", " ", c).replace("( ", "(").replace(" )", ")").replace("`", "")) for c in _COMMENT.findall(text)]


def blur_join_hint_targets(text: str) -> str:
    """the statement with the argument of every join hint blanked (what a join hint names is the one thing the open known
    finding H_hint_nodes_private is about)"""

    def blur(m: t.Any) -> str:
        body = re.sub(r"\b(" + "|".join(sorted(JOIN_HINT_NAMES, key=len, reverse=True)) + r")\s*\([^()]*\)", r"\1(*)", m.group(1))
        return "/*+ " + body + " */"

    return _COMMENT.sub(blur, text)


def hint_state(df) -> dict:
    """internal hint state, read without calling any sqlframe method: pending hints (join hints by name), whether each join hint
    still names this DataFrame's own sequence id, and the hint clause of the open block"""
    from sqlglot import exp

    pend, targets = [], []
    for h in df.pending_hints:
        if isinstance(h, exp.JoinHint):
            pend.append(str(h.this).upper())
            targets.append(all(x.alias_or_name == df.sequence_id for x in h.expressions))
        else:
            pend.append(_RID.sub("R", h.sql()))
    att = df.expression.args.get("hint")
    return {"pending": pend, "targets": targets, "attached": _RID.sub("R", att.sql()) if att is not None else None}


def snap_handle(c) -> dict:
    return {"sql": c.expression.sql(), "meta": {k: str(v) for k, v in sorted((c.expression.meta or {}).items())}}


def do_transform(df, ev: dict, handles: list, F):
    s = ev["step"]
    k = s["k"]
    if "handle" in s:
        return df.where(handles[s["handle"]].isNotNull())
    if k == "select":
        return df.select(*[X.to_column(c01.tuple_(e), F).alias(sp) for (n, e), sp in zip(s["items"], s["spell"])])
    if k == "withColumn":
        return df.withColumn(s["spell"], X.to_column(c01.tuple_(s["e"]), F))
    if k == "withColumnRenamed":
        return df.withColumnRenamed(s["a"], s["spell"])
    return c01.apply_step(df, s, F)


def do_hint(df, ev: dict):
    if ev["m"] == "repartition":
        return df.repartition(ev["n"])
    if ev["m"] == "coalesce":
        return df.coalesce(ev["n"])
    return df.hint(ev["name"].lower()) if ev["n"] is None else df.hint(ev["name"].lower(), ev["n"])


def do_action(df, which: str):
    with warnings.catch_warnings():
        warnings.simplefilter("ignore")
        if which == "collect":
            return bag([[plain(v) for v in r] for r in df.collect()])
        if which == "count":
            return df.count()
        if which in ("show", "show1", "show_default"):
            buf = io.StringIO()
            with contextlib.redirect_stdout(buf):
                if which == "show_default":
                    df.show()
                else:
                    df.show(3 if which == "show" else 1)
            return len(buf.getvalue().split("\n"))
        if which in ("head", "head1"):
            return len(df.head(2 if which == "head" else 1))
        if which == "head_default":
            return df.head() is None
        if which == "first":
            return df.first() is None
        if which == "isEmpty":
            return df.isEmpty()
        if which == "toPandas":
            return list(df.toPandas().columns)
        if which == "toArrow":
            return df.toArrow().num_rows
        if which == "columns":
            return list(df.columns)
        if which == "sql":
            return df.sql(optimize=False)
        if which == "sql_opt":
            try:
                return df.sql()
            except Exception as e:  # sqlglot optimizer failures are C03's business
                return f"raised {type(e).__name__}"
        if which == "schema":
            return [f.name for f in df.schema.fields]
        if which in ("explain", "printSchema"):
            buf = io.StringIO()
            with contextlib.redirect_stdout(buf):
                getattr(df, which)()
            return len(buf.getvalue()) > 0
    raise ValueError(which)


def do_extra(df, other, which: str, F):
    cols = df.columns
    c0 = cols[0]
    if which == "join_name":
        common = [c for c in cols if c in other.columns]
        return df.join(other, on=common[:1] or None, how="left")
    if which == "join_expr":
        return df.join(other, on=df[c0] == other[other.columns[0]], how="inner")
    if which == "crossJoin":
        return df.crossJoin(other)
    if which in ("union", "intersect", "exceptAll"):
        if len(other.columns) != len(cols):
            other = df
        return getattr(df, which)(other)
    if which == "unionByName":
        return df.unionByName(other, allowMissingColumns=True)
    if which == "groupBy_agg":
        return df.groupBy(c0).agg(F.count("*").alias("N"), F.max(cols[-1]).alias("M"))
    if which == "groupBy_count":
        g = df.groupBy(F.col(c0))
        a = g.count()
        b = g.count()
        return a if a.columns == b.columns else None
    if which == "agg":
        return df.agg(F.count(c0).alias("CNT"))
    if which == "alias_use":  # a reference qualified by an alias name, resolved through the session's registry
        return df.select(F.col("t1." + c0))
    if which == "dropna":
        return df.dropna(how="any", subset=[c0])
    if which == "replace":
        return df.replace(1, 9, subset=[c0])
    if which == "unpivot":
        return df.unpivot(c0, None, "var", "val") if len(cols) > 1 else df
    if which == "toDF":
        return df.toDF(*[f"C{i}" for i in range(len(cols))])
    if which == "cube":
        return df.cube(c0).count()
    if which == "na_fill":
        return df.na.fill(0)
    if which == "dropDuplicates":
        return df.dropDuplicates([c0])
    if which == "select_star":
        return df.select("*")
    if which == "select_none":
        return df.select()
    if which == "withColumns":
        return df.withColumns({"NEW": F.lit(1), c0: F.col(c0)})
    if which == "cache":
        return df.cache()
    if which == "transform":
        return df.transform(lambda d: d.limit(c01.BIG))
    if which == "createOrReplaceTempView":
        df.createOrReplaceTempView("c04_view")
        return None
    if which == "sort":
        return df.sort(F.col(c0).desc())
    if which == "filter_str":
        return df.filter(f"{c0} IS NOT NULL")
    if which == "selectExpr_like":
        return df.select(F.col(c0).alias("A"), F.col(c0).alias("B"))
    if which == "getattr":
        return getattr(df, c0)
    if which == "x_limit_big":
        return df.limit(c01.BIG)
    if which == "x_limit2":
        return df.limit(2)
    if which == "x_distinct":
        return df.distinct()
    if which == "x_orderBy":
        return df.orderBy(*[F.col(c).asc_nulls_last() for c in dict.fromkeys(cols)])
    if which == "x_where":
        return df.where(F.col(c0).isNotNull() | F.col(c0).isNull())
    if which == "x_select1":
        return df.select(F.col(c0))
    if which == "x_withColumn":
        return df.withColumn("NEWC", F.lit(1))
    if which == "x_drop_last":
        return df.drop(cols[-1]) if len(set(cols)) > 1 else df.select(F.col(c0))
    if which == "x_rename":
        return df.withColumnRenamed(c0, "RENAMED")
    if which == "x_copy":
        return df.copy()
    if which == "case_rename":
        return df.withColumnRenamed(c0, c0.swapcase())
    if which == "case_select":
        return df.select(F.col(c0.swapcase()), *[F.col(c) for c in cols[1:]])
    if which == "case_alias":
        return df.select(*[F.col(c).alias(c.swapcase()) for c in cols])
    if which == "case_toDF":
        return df.toDF(*[c.swapcase() for c in cols])
    if which == "case_withColumn":
        return df.withColumn(c0.swapcase(), F.col(c0))
    if which == "case_withColumns":
        return df.withColumns({c0.swapcase(): F.col(c0)})
    raise ValueError(which)


NONDET = ("dropDuplicates", "x_limit2")  # results whose rows are not a function of the receiver (an arbitrary representative / prefix)
SENTINELS = ("s_join", "s_select")


def do_sentinel(df, root, which: str, F):
    """standard derivations through which internal state of a DataFrame becomes visible"""
    if which == "s_join":
        common = [c for c in df.columns if c in root.columns]
        return df.join(root, on=common[:1] or None, how="left")
    if which == "s_select":
        return df.select(F.col(df.columns[0]))
    if which == "s_limit":
        return df.limit(c01.BIG)
    raise ValueError(which)


RAW = ("expr", "display", "hints", "last_op", "_columns")


def raw_df(df) -> dict:
    """internal state, read without calling any sqlframe method that does work (about 1 ms)"""
    return {
        "_columns": list(df.expression.named_selects),
        "expr": df.expression.sql(),
        "display": dict(df.display_name_mapping),
        "hints": hint_state(df),
        "last_op": getattr(getattr(df, "last_op", None), "name", None),
    }


def snap_df(df, rows: bool = True) -> dict:
    """what the DataFrame reports (columns, statement, rows) and its internal state before and after reporting it"""
    with warnings.catch_warnings():
        warnings.simplefilter("ignore")
        sn = raw_df(df)
        sn["columns"] = list(df.columns)
        sn["sql"] = df.sql(optimize=False)
        if rows is not None:
            # dropDuplicates(subset) keeps an arbitrary representative: its rows are not a function of the object
            sn["rows"] = _rows(df) if rows else "not compared (nondeterministic by definition)"
        sn["raw_after"] = raw_df(df)
        return sn


def light(df) -> dict:
    """columns and statement only (the rows are a function of the statement)"""
    sn = snap_df(df, None)
    return {"columns": sn["columns"], "sql": norm_sql(sn["sql"])}


def run_impl(sc: dict) -> dict:
    from sqlframe.base.dataframe import BaseDataFrame
    from sqlframe.duckdb import functions as F

    s = sess()
    conn = s._conn
    out: t.Dict[str, t.Any] = {"steps": [], "problems": []}
    try:
        dfs = [X.make_df(s, sc["schema"], sc["rows"])]
        handles: t.List[t.Any] = []
        extras: t.List[t.Any] = []  # results of calls outside the Lean alphabet: watched, not numbered by the model
        # per watched object: are its rows a function of the object, how to build it again from scratch, was it ever a receiver
        det: t.Dict[t.Tuple[str, int], bool] = {("m", 0): True}
        recipe: t.Dict[t.Tuple[str, int], t.Any] = {("m", 0): ("root",)}
        used: t.Set[t.Tuple[str, int]] = {("m", 0)}
        hrecipe: t.List[t.Tuple[t.Tuple[str, int], str, str]] = []
        probes: t.List[t.Tuple[int, t.Callable[[], t.Any], t.Any]] = []  # (event, the call again, its first outcome)
        cache: t.Dict[t.Tuple[str, int], dict] = {}  # the last full snapshot of each watched object
        rawc: t.Dict[t.Tuple[str, int], dict] = {}  # its internal state when last looked at

        def get(ref: t.Tuple[str, int]) -> t.Any:
            return dfs[ref[1]] if ref[0] == "m" else extras[ref[1]]

        def refs() -> t.List[t.Tuple[str, int]]:
            return [("m", i) for i in range(len(dfs))] + [("x", i) for i in range(len(extras))]

        def outcome(call: t.Callable[[], t.Any], first: t.Any = None) -> t.Any:
            try:
                d = first if first is not None else call()
                if not isinstance(d, BaseDataFrame):
                    return "no DataFrame"
                return light(d)
            except Exception as e:  # noqa
                return f"raised {type(e).__name__}"

        def adopt(ei: int, new: t.Any, ref: t.Tuple[str, int], d_: bool) -> dict:
            """a DataFrame that did not exist before: observing it is a call too — twice in a row must agree (its rows are looked
            at again at the end of the scenario)"""
            det[ref] = d_
            s1 = snap_df(new, d_)
            s2 = snap_df(new, None)
            for key in ("columns", "sql", "last_op"):
                if s1[key] != s2[key]:
                    out["problems"].append({"event": ei, "kind": "observe", "what": f"observing the new DataFrame twice (columns, sql, collect) gives two different answers ({key})",
                                            "first": str(s1[key]), "second": str(s2[key])})
                    break
            cache[ref] = s1
            rawc[ref] = s2["raw_after"]
            return s1

        adopt(-1, dfs[0], ("m", 0), True)

        for ei, ev in enumerate(sc["events"]):
            watched = refs()
            before = {r: cache[r] for r in watched}
            raw_before = {r: rawc[r] for r in watched}
            hbefore = [snap_handle(h) for h in handles]
            n0 = conn.n
            info: t.Dict[str, t.Any] = {"op": ev["op"]}
            err = None
            recv_ref: t.Tuple[str, int] = ("m", ev["r"])
            if ev.get("rx") is not None and extras:
                recv_ref = ("x", ev["rx"] % len(extras))
            recv = get(recv_ref)
            used.add(recv_ref)
            info["recv"] = watched.index(recv_ref)
            new_ref: t.Optional[t.Tuple[str, int]] = None
            try:
                if ev["op"] in ("transform", "hint", "alias"):
                    if ev["op"] == "transform":
                        call = lambda r=recv, ev=ev: do_transform(r, ev, handles, F)  # noqa: E731
                        d_ = det[recv_ref] and ev["step"]["k"] != "dropDuplicates"
                    elif ev["op"] == "hint":
                        call = lambda r=recv, ev=ev: do_hint(r, ev)  # noqa: E731
                        d_ = det[recv_ref]
                    else:
                        call = lambda r=recv, ev=ev: r.alias(ev["name"])  # noqa: E731
                        d_ = det[recv_ref]
                    new = call()
                    info["engine"] = conn.n - n0
                    # (purity — the same call on the same receiver builds the same DataFrame again — is probed at the end of the scenario)
                    if recv_ref[0] == "m" and ev.get("rx") is None:
                        dfs.append(new)
                        new_ref = ("m", len(dfs) - 1)
                    else:
                        extras.append(new)
                        new_ref = ("x", len(extras) - 1)
                    recipe[new_ref] = ("ev", ei, recv_ref, None)
                    s1 = adopt(ei, new, new_ref, d_)
                    probes.append((ei, call, {"columns": s1["columns"], "sql": norm_sql(s1["sql"])}))
                elif ev["op"] == "action":
                    a1 = do_action(recv, ev["which"])
                    info["engine"] = conn.n - n0
                    a2 = do_action(recv, ev["which"])
                    if a1 != a2:
                        out["problems"].append({"event": ei, "kind": "repeat", "what": f"repeating {ev['which']} gave a different answer", "first": str(a1), "second": str(a2)})
                elif ev["op"] == "getItem":
                    d = dfs[ev["r"]]
                    h = d[ev["n"]] if ev["via"] == "item" else (getattr(d, ev["n"]) if ev["via"] == "attr" else F.col(ev["n"]))
                    info["engine"] = conn.n - n0
                    handles.append(h)
                    hrecipe.append((("m", ev["r"]), ev["n"], ev["via"]))
                elif ev["op"] == "create":
                    f = str.upper if ev["spell"] == "upper" else str.title
                    new = X.make_df(s, {f(k): v for k, v in sc["schema"].items()}, sc["rows"])
                    info["engine"] = conn.n - n0
                    extras.append(new)
                    new_ref = ("x", len(extras) - 1)
                    recipe[new_ref] = ("create", ev["spell"])
                    adopt(ei, new, new_ref, True)
                else:
                    other = dfs[ev["other"]]
                    used.add(("m", ev["other"]))
                    call = lambda r=recv, o=other, w=ev["which"]: do_extra(r, o, w, F)  # noqa: E731
                    try:
                        new = call()
                    except Exception as e0:
                        if ev["which"] != "createOrReplaceTempView":
                            probes.append((ei, call, f"raised {type(e0).__name__}"))
                        raise
                    info["engine"] = conn.n - n0
                    d_ = det[recv_ref] and det[("m", ev["other"])] and ev["which"] not in NONDET
                    if isinstance(new, BaseDataFrame) and new is not recv:
                        # keep it alive and watched, but the model does not number it
                        extras.append(new)
                        new_ref = ("x", len(extras) - 1)
                        recipe[new_ref] = ("ev", ei, recv_ref, ("m", ev["other"]))
                        s1 = adopt(ei, new, new_ref, d_)
                        if ev["which"] not in ("getattr", "groupBy_count"):
                            probes.append((ei, call, {"columns": s1["columns"], "sql": norm_sql(s1["sql"])}))
            except Exception as e:  # a follow-up that raises must still leave everything else intact
                err = f"{type(e).__name__}: {str(e)[:160]}"
                info["engine"] = conn.n - n0
            info["err"] = err
            # every pre-existing object: its internal state now; what it reports is asked again of every object whose internal state
            # moved (and of all of them at the end of the scenario)
            raw_after = {r: raw_df(get(r)) for r in watched}
            after = dict(before)
            for r in watched:
                if raw_after[r] != raw_before[r]:
                    after[r] = snap_df(get(r), det[r])
                    cache[r] = after[r]
                    raw_after[r] = after[r]["raw_after"] if after[r]["raw_after"] == raw_after[r] else raw_after[r]
                rawc[r] = raw_after[r]
            hafter = [snap_handle(h) for h in handles[: len(hbefore)]]
            n_model = sum(1 for r in watched if r[0] == "m")
            info["objs"] = [i for i, r in enumerate(watched) if any(before[r][k] != after[r][k] for k in OBS)]
            info["internal"] = [i for i, r in enumerate(watched) if raw_before[r] != raw_after[r] and i not in info["objs"]]
            info["objs_model"] = [i for i in info["objs"] if i < n_model]
            info["hints_model"] = [i for i, r in enumerate(watched) if i < n_model and raw_before[r]["hints"] != raw_after[r]["hints"]]
            # which kind of state of which pre-existing object this call wrote: "own" (tree, display map, pending list, hint clause,
            # last_op) or "hints" (only what a join-hint node names)
            wrote = {}
            for i, r in enumerate(watched):
                b, a = raw_before[r], raw_after[r]
                if b != a:
                    own = any(b[k] != a[k] for k in ("expr", "display", "last_op", "_columns")) or \
                        {k: v for k, v in b["hints"].items() if k != "targets"} != {k: v for k, v in a["hints"].items() if k != "targets"}
                    wrote[i] = "own" if own else "hints"
            info["wrote"] = {str(k): v for k, v in wrote.items()}
            info["handles"] = [i for i in range(len(hbefore)) if hbefore[i] != hafter[i]]
            if info["objs"]:
                r = watched[info["objs"][0]]
                info["diff"] = {k: [before[r][k], after[r][k]] for k in OBS + RAW if before[r][k] != after[r][k]}
            elif info["internal"]:
                r = watched[info["internal"][0]]
                info["idiff"] = {k: [raw_before[r][k], raw_after[r][k]] for k in RAW if raw_before[r][k] != raw_after[r][k]}
            if info["handles"]:
                i = info["handles"][0]
                info["hdiff"] = [hbefore[i], hafter[i]]
            out["steps"].append(info)

        n_ev = len(sc["events"])
        # at the end every object is asked again what it reports: the same as when it was last asked
        final_snaps: t.Dict[t.Tuple[str, int], dict] = {}
        final_hints = [hint_state(d) for d in dfs]  # before the derivations below (a join rendered from a hinted DataFrame re-points its hint: H_hint_nodes_private)
        final_last = [getattr(getattr(d, "last_op", None), "name", None) for d in dfs]
        for r in refs():
            sn = snap_df(get(r), det[r])
            final_snaps[r] = sn
            for key in OBS:
                if sn[key] != cache[r][key]:
                    out["problems"].append({"event": n_ev, "kind": "late", "what": f"{'df' if r[0] == 'm' else 'extra'}{r[1]} reports something else at the end of the scenario than when it was last asked, "
                                            f"although no call since then moved its own state ({key})", "first": str(cache[r][key]), "second": str(sn[key])})
                    break

        # purity over time: every call, made again on the same receiver after everything else happened, builds the same DataFrame
        for ei, call, first in probes:
            again = outcome(call)
            if again != first:
                out["problems"].append({"event": ei, "kind": "probe", "what": "the same call on the same receiver gives a different result after the later events of the scenario",
                                        "first": first if isinstance(first, str) else (first["sql"] if isinstance(again, str) or first["columns"] == again["columns"] else str(first["columns"])),
                                        "second": again if isinstance(again, str) else (again["sql"] if isinstance(first, str) or first["columns"] == again["columns"] else str(again["columns"]))})

        # fresh twins: the same calls replayed on new objects give DataFrames that report the same, themselves and (for every object
        # that was the receiver or argument of a call) through standard derivations — whatever happened to the originals in between
        twins: t.Dict[t.Tuple[str, int], t.Any] = {}
        thandles: t.Dict[int, t.Any] = {}

        def twin_handle(i: int) -> t.Any:
            if i not in thandles:
                ref, n, via = hrecipe[i]
                d = twin(ref)
                thandles[i] = d[n] if via == "item" else (getattr(d, n) if via == "attr" else F.col(n))
            return thandles[i]

        def twin(ref: t.Tuple[str, int]) -> t.Any:
            if ref in twins:
                return twins[ref]
            rc = recipe[ref]
            if rc[0] == "root":
                d = X.make_df(s, sc["schema"], sc["rows"])
            elif rc[0] == "create":
                f = str.upper if rc[1] == "upper" else str.title
                d = X.make_df(s, {f(k): v for k, v in sc["schema"].items()}, sc["rows"])
            else:
                ev = sc["events"][rc[1]]
                r = twin(rc[2])
                if ev["op"] == "transform":
                    th = [twin_handle(i) if i in ev["hs"] else None for i in range(len(hrecipe))]
                    d = do_transform(r, ev, th, F)
                elif ev["op"] == "hint":
                    d = do_hint(r, ev)
                elif ev["op"] == "alias":
                    d = r.alias(ev["name"])
                else:
                    d = do_extra(r, twin(rc[3]), ev["which"], F)
            twins[ref] = d
            return d

        n_twins = 0
        for ref in refs():
            try:
                tw = twin(ref)
            except Exception:
                continue  # what a call does can depend on the session's registries (alias names): not comparable then
            orig = get(ref)
            pairs_: t.List[t.Tuple[str, t.Any, t.Any]] = [("itself", {"columns": final_snaps[ref]["columns"], "sql": norm_sql(final_snaps[ref]["sql"])}, outcome(lambda: tw))]
            if ref in used:
                for w in SENTINELS:
                    pairs_.append((w, outcome(lambda: do_sentinel(orig, dfs[0], w, F)), outcome(lambda: do_sentinel(tw, twin(("m", 0)), w, F))))
            for name, a, b in pairs_:
                if isinstance(a, str) or isinstance(b, str):
                    continue
                n_twins += 1
                if a != b:
                    key = "columns" if a["columns"] != b["columns"] else "sql"
                    out["problems"].append({"event": n_ev, "kind": "twin",
                                            "what": f"{'df' if ref[0] == 'm' else 'extra'}{ref[1]} ({name}) differs from a freshly built twin of itself ({key})",
                                            "first": str(a[key]), "second": str(b[key])})
                    break
        out["twins"] = n_twins
        out["final"] = []
        for i, d in enumerate(dfs):
            hs = final_hints[i]
            out["final"].append({"names": list(final_snaps[("m", i)]["columns"]), "hints": hint_comments(final_snaps[("m", i)]["sql"]),
                                 "pending": hs["pending"], "targets": hs["targets"], "last": final_last[i]})
    except Exception as e:  # noqa
        import traceback

        out["err"] = f"{type(e).__name__}: {str(e)[:300]} @ {traceback.format_exc()[-400:]}"
    return out


LEAN_OP = {"init": "INIT", "noOp": "NO_OP", "from_": "FROM", "wher": "WHERE", "groupBy": "GROUP_BY", "having": "HAVING", "select": "SELECT", "orderBy": "ORDER_BY", "limit": "LIMIT"}


def event_methods(ev: dict) -> t.List[str]:
    """public members of BaseDataFrame the event calls on its receiver"""
    if ev["op"] == "transform":
        k = ev["step"]["k"]
        return ["where"] if "handle" in ev["step"] else [k]
    if ev["op"] == "action":
        return [ACTION_METHOD[ev["which"]]]
    if ev["op"] == "hint":
        return [ev["m"]]
    if ev["op"] == "alias":
        return ["alias"]
    return []


def judge(sc: dict, impl: dict, model: dict, writes: t.Optional[dict] = None) -> t.Tuple[t.List[dict], t.List[str]]:
    """failures (implementation vs specification; each with a kind) and mismatches (implementation vs model / generated tables)"""
    fails: t.List[dict] = []
    mm: t.List[str] = []
    if "err" in impl:
        return [{"kind": "error", "text": f"scenario raised outside a follow-up: {impl['err']}"}], ["error"]
    msteps = iter(model["steps"])
    # once a join has been built (and rendered) from a DataFrame that carries a join hint, the hint's node names a CTE: joins are outside
    # the Lean alphabet, so what later calls do to that node is no longer the model's to predict (the static table still applies)
    has_join_hint = any(e["op"] == "hint" and e["name"] in JOIN_HINT_NAMES for e in sc["events"])
    joined = False
    for ei, (ev, st) in enumerate(zip(sc["events"], impl["steps"])):
        if st["objs"]:
            fails.append({"kind": "changed", "text": f"event {ei} ({describe(ev)}) changed pre-existing DataFrame(s) {st['objs']}: {json.dumps(st.get('diff'))[:400]}"})
        if st["handles"]:
            fails.append({"kind": "handle", "text": f"event {ei} ({describe(ev)}) rewrote Column handle(s) {st['handles']}: {st.get('hdiff')}"})
        if (ev["op"] in LAZY_OPS or (ev["op"] == "action" and ev["which"] in LAZY_OBS)) and st["engine"] != 0 and not (ev["op"] == "extra" and ev["which"] in ("createOrReplaceTempView",)):
            fails.append({"kind": "eager", "text": f"event {ei} ({describe(ev)}) is a transformation but sent {st['engine']} statement(s) to the engine"})
        if in_model(ev):
            m = next(msteps)
            if st["err"] is None:
                if m["objs"] != st["objs_model"]:
                    mm.append(f"event {ei} ({describe(ev)}): model predicts changed objects {m['objs']}, implementation {st['objs_model']}")
                if m["hints"] != st["hints_model"] and not (joined and has_join_hint):
                    mm.append(f"event {ei} ({describe(ev)}): model predicts changed hint state of objects {m['hints']}, implementation {st['hints_model']}: {json.dumps(st.get('idiff') or st.get('diff'))[:300]}")
                if m["handles"] != st["handles"]:
                    mm.append(f"event {ei}: model predicts rewritten handles {m['handles']}, implementation {st['handles']}")
                if (m["engine"] == 0) != (st["engine"] == 0):
                    mm.append(f"event {ei} ({describe(ev)}): model engine traffic {m['engine']}, implementation {st['engine']}")
        if ev["op"] == "extra" and ev["which"] in ("join_name", "join_expr", "crossJoin"):
            joined = True
        # Gen.Writes against the running code: what the call wrote on its own receiver must be within what the table allows
        if writes is not None and st["err"] is None:
            w = st["wrote"].get(str(st["recv"]))
            for meth in event_methods(ev):
                allowed = writes["table"].get(meth)
                if allowed is None:
                    mm.append(f"event {ei}: member {meth} is not in Gen.Writes.receiverWrites")
                elif w == "own" and "self" not in allowed:
                    mm.append(f"event {ei} ({describe(ev)}): the call wrote its receiver's own state, Gen.Writes.receiverWrites allows {allowed} for {meth}")
                elif w == "hints" and "self.hints" not in allowed and "self" not in allowed:
                    mm.append(f"event {ei} ({describe(ev)}): the call re-pointed a hint node of its receiver, Gen.Writes.receiverWrites allows {allowed} for {meth}")
    for p in impl["problems"]:
        fails.append({"kind": p["kind"], "text": f"event {p['event']}: {p['what']}", "first": p.get("first"), "second": p.get("second")})
    if "final" in impl and len(impl["final"]) == len(model["final"]):
        for i, (a, b) in enumerate(zip(impl["final"], model["final"])):
            outside = any(not in_model(e) and e["op"] != "action" for e in sc["events"])
            for key in ("hints", "pending") + (() if outside else ("targets",)):
                if a[key] != b[key]:
                    mm.append(f"final state of df{i}: {key} is {a[key]} in the implementation, {b[key]} in the model")
            # (an empty table is built as a one-row frame filtered to nothing: its root is in the WHERE state, not INIT)
            if sc["rows"] and a["last"] != LEAN_OP.get(b["last"].split(".")[-1]):
                mm.append(f"final state of df{i}: last_op is {a['last']} in the implementation, {b['last']} in the model")
    elif "final" in impl:
        mm.append(f"the implementation made {len(impl['final'])} model objects, the model {len(model['final'])}")
    return fails, mm


def only_join_hint_targets(f: dict) -> bool:
    """is this failure a difference of generated SQL in nothing but what a join hint names?"""
    if f["kind"] not in ("probe", "twin", "repeat") or not isinstance(f.get("first"), str) or not isinstance(f.get("second"), str):
        return False
    a, b = f["first"], f["second"]
    return a != b and blur_join_hint_targets(a) == blur_join_hint_targets(b) and "/*+" in a


def describe(ev: dict) -> str:
    recv = f"extra[{ev['rx']} mod n]" if ev.get("rx") is not None else f"df{ev['r']}"
    if ev["op"] == "transform":
        return f"df{ev['r']}." + c01.show_step(ev["step"]) + (f" spelled {ev['step'].get('spell')}" if "spell" in ev["step"] else "") + (f" using handle {ev['hs']}" if ev["hs"] else "")
    if ev["op"] == "action":
        return f"{recv}.{ev['which']}()"
    if ev["op"] == "getItem":
        return f"df{ev['r']}[{ev['n']!r}] via {ev['via']}"
    if ev["op"] == "create":
        return f"createDataFrame(same rows, column names {ev['spell']}-cased)"
    if ev["op"] == "hint":
        return f"{recv}.{ev['m']}({ev['name'].lower() if ev['m'] == 'hint' else ev['n']})"
    if ev["op"] == "alias":
        return f"{recv}.alias({ev['name']!r})"
    return f"{recv}.{ev['which']}(df{ev['other']})"


def show_sc(sc: dict) -> str:
    return f"df0 = {list(sc['schema'])}{sc['rows']}; " + "; ".join(describe(e) for e in sc["events"])


_WRITES: t.Optional[dict] = None


def writes_table() -> t.Optional[dict]:
    """Gen.Writes' table, recomputed from the same tree (pure `ast`; None when the analysis does not understand the source)"""
    global _WRITES
    if _WRITES is None:
        try:
            sys.path.insert(0, os.path.join(vlib.VERIF, "tools"))
            import gen_c04

            _WRITES = gen_c04.writes_table(vlib.REPO)
        except Exception as e:  # reported by prove() as an untranslatable module
            vlib.log(f"C04: Gen.Writes table not available: {e}")
            _WRITES = {}
    return _WRITES or None


def evaluate(scs: t.List[dict], workers: int = 0) -> t.List[dict]:
    import time

    t0 = time.time()
    outs = vlib.run_driver("C04", [to_lean(i, sc) for i, sc in enumerate(scs)])
    t1 = time.time()
    impls = vlib.parallel_map(run_impl, scs, workers)
    if len(scs) > 20:
        vlib.log(f"C04: driver {t1 - t0:.1f}s, implementation {time.time() - t1:.1f}s for {len(scs)} scenarios")
    res = []
    for sc, o, impl in zip(scs, outs, impls):
        if "err" in o:
            raise RuntimeError(f"driver rejected a scenario: {o}")
        fails, mm = judge(sc, impl, o, writes_table())
        res.append({"case": sc, "impl": impl, "model": o, "fails": fails, "mismatch": mm})
    return res


# ------------------------------------------------------------------------------------------------
# shrinking: drop events (renumbering what later events refer to), then rows
# ------------------------------------------------------------------------------------------------


def drop_event(sc: dict, i: int) -> t.Optional[dict]:
    evs = sc["events"]
    ev = evs[i]
    k_model = sum(1 for e in evs[:i] if creates_model(e)) + 1 if creates_model(ev) else None  # index of the model object it creates
    k_handle = sum(1 for e in evs[:i] if e["op"] == "getItem") if ev["op"] == "getItem" else None
    out = []
    for j, e in enumerate(evs):
        if j == i:
            continue
        e = json.loads(json.dumps(e))
        if j > i:
            if k_model is not None:
                if e["r"] == k_model or e.get("other") == k_model:
                    return None  # something later is derived from it
                if e["r"] > k_model:
                    e["r"] -= 1
                if e.get("other", 0) > k_model:
                    e["other"] -= 1
            if k_handle is not None and e["op"] == "transform":
                if k_handle in e["hs"]:
                    return None
                e["hs"] = [h - 1 if h > k_handle else h for h in e["hs"]]
                if "handle" in e["step"] and e["step"]["handle"] > k_handle:
                    e["step"]["handle"] -= 1
        out.append(e)
    return dict(sc, events=out)


def shrink(sc: dict, pred: t.Callable[[dict], bool], rounds: int = 14) -> dict:
    """drop events that nothing later depends on, then rows, while `pred(result)` still holds"""
    best = sc
    for _ in range(rounds):
        cands = [c for c in (drop_event(best, i) for i in reversed(range(len(best["events"])))) if c is not None]
        if not cands:
            break
        res = evaluate(cands, workers=1)  # in-process: a process that has touched DuckDB must not fork pools
        nxt = next((r["case"] for r in res if pred(r)), None)
        if nxt is None:
            break
        best = nxt
    for _ in range(3):
        cands = [dict(best, rows=best["rows"][:i] + best["rows"][i + 1:]) for i in range(len(best["rows"]))]
        if not cands or len(best["rows"]) <= 1:
            break
        res = evaluate(cands, workers=1)
        nxt = next((r["case"] for r in res if pred(r)), None)
        if nxt is None:
            break
        best = nxt
    return best


# ------------------------------------------------------------------------------------------------
# exercising the generated decisions against the running code
# ------------------------------------------------------------------------------------------------


def gen_flags() -> t.Dict[str, str]:
    path = os.path.join(vlib.LEAN_DIR, "SqlframeModel", "Gen", "Purity.lean")
    flags: t.Dict[str, str] = {}
    if os.path.exists(path):
        for m in re.finditer(r"^def (\w+) : (?:Bool|Target|DisplayTarget) := \.?(\w+)", open(path, encoding="utf-8").read(), flags=re.M):
            flags[m.group(1)] = m.group(2)
    return flags


def exercise_gen(_: t.Any = None) -> t.List[str]:
    """each regenerated decision about hints / limit / copy, observed on the real objects"""
    from sqlglot import exp

    from sqlframe.duckdb import functions as F

    flags = gen_flags()
    bad: t.List[str] = []
    s = sess()
    base = s.createDataFrame([(1, 2), (3, 4), (5, 6)], ["x", "y"]).where(F.col("x") > 0)

    def tgt(on_self: bool) -> str:
        return "onSelf" if on_self else "onCopy"

    def check(name: str, observed: str) -> None:
        if name in flags and flags[name] != observed:
            bad.append(f"Gen.Purity.{name} = {flags[name]}, the running code shows {observed}")

    # _resolve_pending_hints on a DataFrame with one partition hint
    d = base.repartition(4)
    n0 = len(d.pending_hints)
    w = d._resolve_pending_hints()
    check("resolveReturns", tgt(w is d))
    check("resolveRemovesFrom", tgt(len(d.pending_hints) < n0))
    check("resolveAttachesTo", tgt(d.expression.args.get("hint") is not None))
    if w is not d:
        if len(w.pending_hints) >= n0 and len(d.pending_hints) >= n0:
            bad.append("_resolve_pending_hints removed the partition hint from neither the receiver nor the working copy")
    # _hint
    d = base.where(F.col("y") > 0)
    n0 = len(d.pending_hints)
    r = d._hint("rebalance", [])
    check("hintAppendsTo", tgt(len(d.pending_hints) > n0))
    # limit's body on a receiver that already carries a LIMIT (the decorator hands over the receiver itself)
    d = base.orderBy("x").limit(5)
    before = d.expression.sql()
    r = type(d).limit.__wrapped__(d, 2)
    check("limitResultOnCopy", str(r is not d).lower())
    check("limitBuilderCopies", str(d.expression.sql() == before).lower())
    # copy(): are the hint nodes shared?
    d = base.hint("broadcast")
    check("copySharesHintNodes", str(bool(d.pending_hints) and d.copy().pending_hints[0] is d.pending_hints[0]).lower())
    # alias(): does it re-point the receiver's own join hint?
    a = base.hint("broadcast")
    t0 = [x.alias_or_name for h in a.pending_hints if isinstance(h, exp.JoinHint) for x in h.expressions]
    a.alias("c04_exercise")
    t1 = [x.alias_or_name for h in a.pending_hints if isinstance(h, exp.JoinHint) for x in h.expressions]
    if "aliasRewritesHintNode" in flags and "copySharesHintNodes" in flags and "aliasRepointsHintsOf" in flags:
        predicted = (flags["aliasRewritesHintNode"] == "true" and flags["copySharesHintNodes"] == "true") or flags["aliasRepointsHintsOf"] == "onSelf"
        if predicted != (t0 != t1):
            bad.append(f"Gen.Purity predicts alias() {'re-points' if predicted else 'leaves'} the receiver's join hint, the running code {'re-points' if t0 != t1 else 'leaves'} it")
    return bad


# ------------------------------------------------------------------------------------------------
# the check
# ------------------------------------------------------------------------------------------------


KF_TEXT = ("a pending join hint's node is shared between a DataFrame and its copies; alias() / rendering a join re-points it in place, "
           "so a later join built from the same DataFrame names something else in its hint")


def tr(r: int, step: dict, namer: str = "none", names: t.Optional[list] = None) -> dict:
    return {"op": "transform", "r": r, "step": step, "namer": namer, "names": names or [], "hs": []}


WHERE_X = {"k": "where", "p": ("not", ("isNull", ("col", "x")))}
ORDER_ALL = {"k": "orderBy", "keys": [{"name": "x", "desc": True, "nullsFirst": False}, {"name": "y", "desc": False, "nullsFirst": True}, {"name": "s", "desc": False, "nullsFirst": True}]}


ROOT_SCHEMA = {"x": "int", "y": "int", "s": "str"}


def makers(rng: random.Random, thorough: bool = True) -> t.List[t.Tuple[str, t.List[dict], t.Optional[int], dict, dict]]:
    """(name, events that build the receiver, index among the extras if the receiver is outside the Lean alphabet, the receiver's
    schema and order state): one receiver per last-operation state and per kind of pending state"""
    S, N = dict(ROOT_SCHEMA), {"total": False}
    out: t.List[t.Tuple[str, t.List[dict], t.Optional[int], dict, dict]] = [("root", [], None, S, N)]
    # ten of the thirteen kinds leave the DataFrame in the SELECT state: the quick tier takes three of them (the seed decides)
    select_kinds = [k for k in c01.KINDS if k not in ("where", "orderBy", "limit")]
    kinds = c01.KINDS if thorough else ["where", "orderBy"] + rng.sample(select_kinds, 3)
    for kind in kinds:
        if kind == "limit":
            continue
        schemas, states = [dict(ROOT_SCHEMA)], [{"total": False}]
        ev = gen_transform(rng, kind, 0, schemas, states, [])
        if ev is not None:
            out.append((kind, [ev], None, schemas[-1], states[-1]))
    out.append(("orderBy+limit", [tr(0, ORDER_ALL), tr(1, {"k": "limit", "n": 4})], None, S, {"total": True}))
    out.append(("limit0", [tr(0, {"k": "limit", "n": 0})], None, S, N))
    for m, name, n in HINTS[:4]:
        out.append((f"{m}:{name}", [tr(0, WHERE_X), {"op": "hint", "r": 1, "m": m, "name": name, "n": n, "rx": None}], None, S, N))
    out.append(("select+repartition", [tr(0, {"k": "select", "items": [["x", ("col", "x")], ["y", ("col", "y")]], "spell": ["x", "y"]}, "select", [["x", "x"], ["y", "y"]]),
                                       {"op": "hint", "r": 1, "m": "repartition", "name": "REPARTITION", "n": 2, "rx": None}], None, {"x": "int", "y": "int"}, N))
    out.append(("alias", [tr(0, WHERE_X), {"op": "alias", "r": 1, "name": "t1", "rx": None}], None, S, N))
    for which in ("join_name", "union", "groupBy_agg", "crossJoin", "cache", "unionByName", "x_copy"):
        out.append((which, [tr(0, WHERE_X), {"op": "extra", "r": 1, "which": which, "other": 0, "rx": None}], 0, S, N))
    return out


CORE_ACTIONS = ("collect", "count", "show1", "head_default", "isEmpty", "toPandas", "columns", "sql", "schema")
CORE_EXTRA = ("join_name", "union", "groupBy_agg", "x_limit2", "x_copy", "cache", "select_none", "transform",
              "case_rename", "case_select", "case_alias", "case_toDF", "case_withColumn", "case_withColumns")


def follow_ups(rng: random.Random, recv: int, schema: dict, state: dict, rx: t.Optional[int]) -> t.List[t.Tuple[dict, bool]]:
    """every follow-up call of the public API on one receiver; the flag marks the ones the quick tier always runs"""
    fus: t.List[t.Tuple[dict, bool]] = []
    if rx is None:
        for kind in c01.KINDS:
            for j in range(2 if kind in ("limit", "select", "where") else 1):
                schemas, states = [dict(schema)] * (recv + 1), [dict(state)] * (recv + 1)
                ev = gen_transform(rng, kind, recv, schemas, states, [])
                if ev is not None:
                    fus.append((ev, j == 0))
        if state.get("total"):
            fus += [(tr(recv, {"k": "limit", "n": n}), True) for n in (1, 2, 7)]
        # a rename that changes only the letter case (model-level: the display-name decision is Gen.Purity.display_withColumnRenamed)
        c = next(iter(schema))
        fus.append((tr(recv, {"k": "withColumnRenamed", "a": c, "b": c, "spell": c.swapcase()}, "withColumnRenamed", [[c, c.swapcase()]]), True))
    for i, (m, name, n) in enumerate(HINTS):
        fus.append(({"op": "hint", "r": recv, "m": m, "name": name, "n": n, "rx": rx}, i < 4))
    fus.append(({"op": "alias", "r": recv, "name": "t1", "rx": rx}, True))
    for which in ACTIONS:
        fus.append(({"op": "action", "r": recv, "which": which, "rx": rx}, which in CORE_ACTIONS))
    for which in EXTRA:
        fus.append(({"op": "extra", "r": recv, "which": which, "other": 0, "rx": rx}, which in CORE_EXTRA))
    return fus


def build_scenarios(ctx: Ctx) -> t.List[dict]:
    scs: t.List[dict] = []
    cdir = os.path.join(vlib.VERIF, "corpus", ID)
    if os.path.isdir(cdir):
        for fn in sorted(os.listdir(cdir)):
            if fn.endswith(".json"):
                scs.append(dict(json.load(open(os.path.join(cdir, fn))), origin="corpus"))
    # every (receiver state x follow-up) pair: for each receiver (one per last-operation state of the Lean alphabet, per kind of
    # pending hint, aliased, and results outside the alphabet) every public follow-up, in chunks, each chunk followed by
    # observations of the receiver
    chunk = 10
    for name, mk, mrx, sch, st in makers(ctx.rng, ctx.thorough):
        base = gen_scenario(ctx.rng, 0)
        if name == "orderBy+limit":
            base["rows"] = [[i % 4, i, "a"] for i in range(6)]
        recv = sum(1 for e in mk if creates_model(e))
        # quick: the core follow-ups on every receiver, the others with probability 1/5 (the seed decides); thorough: all
        fus = [e for e, core in follow_ups(ctx.rng, recv, sch, st, mrx) if core or ctx.thorough or ctx.rng.random() < 0.2]
        ctx.rng.shuffle(fus)
        for i in range(0, len(fus), chunk):
            sc = dict(base, events=[json.loads(json.dumps(e, default=list)) for e in mk] + fus[i:i + chunk]
                      + [{"op": "action", "r": recv, "which": "sql", "rx": mrx}])
            sc["origin"] = f"state x follow-up: {name}"
            scs.append(sc)
    for _ in range(500 if ctx.thorough else 40):
        scs.append(gen_scenario(ctx.rng, ctx.rng.randint(3, 9)))
    # handles taken before a follow-up and used after it, on a WHERE-state receiver (body sees the receiver itself)
    for which in EXTRA[:: (1 if ctx.thorough else 4)] + ACTIONS[:: (1 if ctx.thorough else 4)]:
        sc = gen_scenario(ctx.rng, 0)
        sc["events"] = [
            tr(0, WHERE_X),
            {"op": "getItem", "r": 1, "n": "x", "via": "item"},
            ({"op": "extra", "r": 1, "which": which, "other": 0, "rx": None} if which in EXTRA else {"op": "action", "r": 1, "which": which, "rx": None}),
            tr(1, {"k": "select", "items": [["x", ("col", "x")]], "spell": ["X"]}, "select", [["x", "X"]]),
            {"op": "transform", "r": 1, "step": {"k": "where", "p": ("not", ("isNull", ("col", "x"))), "handle": 0}, "namer": "none", "names": [], "hs": [0]},
            {"op": "action", "r": 1, "which": "columns", "rx": None},
        ]
        scs.append(sc)
    # a receiver produced outside the Lean alphabet (join / union / …) or carrying hints / an alias, then used as the receiver of
    # every binary follow-up, then observed again
    firsts = [{"op": "alias", "r": 1, "name": "t1", "rx": None}, {"op": "hint", "r": 1, "m": "hint", "name": "BROADCAST", "n": None, "rx": None},
              {"op": "hint", "r": 1, "m": "repartition", "name": "REPARTITION", "n": 3, "rx": None}] + \
             [{"op": "extra", "r": 1, "which": w, "other": 1, "rx": None} for w in ("join_name", "union", "crossJoin", "cache")]
    for first in firsts:
        seconds = ["join_name", "join_expr", "crossJoin", "union", "unionByName", "intersect", "exceptAll"]
        for second in (seconds if ctx.thorough else ctx.rng.sample(seconds, 3)):
            sc = gen_scenario(ctx.rng, 0)
            in_m = first["op"] != "extra"
            sc["events"] = [
                tr(0, WHERE_X),
                dict(first),
                {"op": "extra", "r": 2 if in_m else 0, "which": second, "other": 1, "rx": None if in_m else 0},
                {"op": "extra", "r": 2 if in_m else 0, "which": second, "other": 0, "rx": None if in_m else 0},
                {"op": "action", "r": 1, "which": "sql", "rx": None},
            ]
            scs.append(sc)
    # an aliased DataFrame keeps resolving its alias after a sibling (or it itself again) takes the same alias name
    for other in (0, 1):
        for use in ("alias_use", "filter_str", "sort"):
            sc = gen_scenario(ctx.rng, 0)
            sc["events"] = [
                tr(0, WHERE_X),
                {"op": "alias", "r": 0, "name": "t1", "rx": None},
                {"op": "extra", "r": 2, "which": "alias_use", "other": 0, "rx": None},
                {"op": "extra", "r": 2, "which": use, "other": 0, "rx": None},
                {"op": "alias", "r": other, "name": "t1", "rx": None},
                {"op": "action", "r": 1, "which": "columns", "rx": None},
            ]
            scs.append(sc)
    for spell in ("upper", "title"):
        sc = gen_scenario(ctx.rng, 0)
        sc["events"] = [{"op": "action", "r": 0, "which": "columns", "rx": None}, {"op": "create", "r": 0, "spell": spell}, {"op": "action", "r": 0, "which": "collect", "rx": None}]
        scs.append(sc)
    return scs


def run(ctx: Ctx) -> None:
    idx = vlib.props_index()[ID]
    vlib.prove(ctx, MODULES, GEN, idx["theorems"], SOURCES)
    known = {e["id"]: e for e in vlib.known_findings(ID)}
    vlib.log(f"C04: proved in {ctx.elapsed():.1f}s")
    scs = build_scenarios(ctx)
    n_corpus = sum(1 for sc in scs if sc.get("origin") == "corpus")

    res = evaluate(scs)
    vlib.log(f"C04: {len(scs)} scenarios evaluated at {ctx.elapsed():.1f}s")
    try:
        ex_bad = exercise_gen()  # in-process, after the forked workers are done
    except Exception as e:  # the probes themselves are plain public / helper calls: a failure is a disagreement too
        ex_bad = [f"the probes of the generated decisions raised {type(e).__name__}: {str(e)[:200]}"]
    for b in ex_bad:
        ctx.broken.append("generated decision disagrees with the running code: " + b)
    mism = [r for r in res if r["mismatch"]]
    if mism:
        ctx.broken.append(f"correspondence stream (mutated-object sets / hint state / engine traffic of the implementation vs Impl/C04.lean, written state vs Gen.Writes): {len(mism)} of {len(res)} scenarios differ, e.g. {mism[0]['mismatch'][0]}")

    def other_fails(r: dict) -> t.List[dict]:
        return [f for f in r["fails"] if not only_join_hint_targets(f)]

    reported = 0
    # failures that are not (only) about what a join hint names: violations
    viol = [r for r in res if other_fails(r)]
    for r in viol[:3]:
        sc = shrink(r["case"], lambda x: bool(other_fails(x)))
        rr = evaluate([sc], workers=1)[0]
        vlib.report_violation(ctx, {"kind": "an existing object changed / a transformation reached the engine / a call is not repeatable", "scenario": show_sc(sc), "case": sc,
                                    "failures": [f["text"] for f in rr["fails"]], "details": rr["fails"][:4], "model_mismatch": rr["mismatch"], "broken": ctx.broken})
        reported += 1
    # failures in which two renderings differ in nothing but what a join hint names: the open finding H_hint_nodes_private, if the scenario
    # creates a join hint, every failure of it is of that kind, and model and generated tables predict what the implementation did
    kf_hits = 0
    ent = known.get("H_hint_nodes_private")
    for r in [r for r in res if r["fails"] and not other_fails(r)]:
        sc = r["case"]
        is_known = (ent is not None and any(e["op"] == "hint" and e["name"] in JOIN_HINT_NAMES for e in sc["events"]) and not r["mismatch"])
        if is_known:
            kf_hits += 1
            vlib.report_known(ctx, ent, KF_TEXT)
        elif reported < 6:
            sc = shrink(sc, lambda x: bool(x["fails"]))
            rr = evaluate([sc], workers=1)[0]
            vlib.report_violation(ctx, {"kind": "the same program gives two different statements", "scenario": show_sc(sc), "case": sc,
                                        "failures": [f["text"] for f in rr["fails"]], "details": rr["fails"][:4], "model_mismatch": rr["mismatch"], "broken": ctx.broken})
            reported += 1
    # every open known finding's recorded witness is replayed on the real code
    for ent in known.values():
        w = ent.get("witness", {}).get("case")
        if w:
            rr = evaluate([w], workers=1)[0]
            if rr["fails"] and all(only_join_hint_targets(f) for f in rr["fails"]):
                vlib.report_known(ctx, ent, KF_TEXT)
            elif rr["fails"]:
                vlib.report_violation(ctx, {"kind": "the recorded witness of a known finding now fails differently", "scenario": show_sc(w), "case": w, "failures": [f["text"] for f in rr["fails"]]})
                reported += 1
    if ctx.broken and not reported:
        vlib.report_violation(ctx, {"kind": "proof obligation or correspondence no longer checks; no failing input found", "broken": ctx.broken, "searched": {"scenarios": len(res)},
                                    "first_model_mismatch": ({"scenario": show_sc(mism[0]["case"]), "case": mism[0]["case"], "mismatch": mism[0]["mismatch"]} if mism else None)}, no_input=True)

    ev_hist: t.Dict[str, int] = {}
    n_events = 0
    raised = 0
    pairs = set()
    for r in res:
        last: t.Dict[int, str] = {}
        for ev, st in zip(r["case"]["events"], r["impl"].get("steps", [])):
            key = ev["op"] if ev["op"] in ("getItem", "create", "alias") else (ev["step"]["k"] if ev["op"] == "transform" else (ev["m"] + ":" + ev["name"] if ev["op"] == "hint" else ev["which"]))
            ev_hist[key] = ev_hist.get(key, 0) + 1
            n_events += 1
            raised += st.get("err") is not None
    for r in res:
        o = r["case"].get("origin")
        if o:
            for ev in r["case"]["events"]:
                pairs.add((o, describe(ev).split("(")[0].split(".")[-1]))
    ctx.cov.update(
        {
            "evaluations": n_events,
            "distinct_nontrivial": len({vlib.digest(r["case"]) for r in res if len(r["case"]["events"]) >= 2}),
            "rule": "scenarios = sequences of public calls (C01 transformations with re-spelled columns and truncating limits after a total order, actions with their "
            "implicit limits, hints, aliases, df[...] handles and their use, and the API outside the Lean alphabet) on any existing DataFrame; after EVERY call all "
            "pre-existing DataFrames (tree, display map, hint state, last_op; columns, sql, rows of every object whose state moved, and of all at the end) and handles are compared "
            "with their last snapshot; every new DataFrame is observed twice; every call is repeated at the end; every DataFrame is compared with a freshly built twin, itself and "
            "(receivers) through a join / select; statements "
            "counted at a proxy connection; evaluations = follow-up calls checked; non-trivial = distinct scenarios with >= 2 events",
            "scenarios": len(res),
            "corpus": n_corpus,
            "state_x_follow_up_pairs": len(pairs),
            "traces_validated_against_impl": sum(1 for r in res if not r["mismatch"]),
            "follow_ups_that_raised": raised,
            "twin_comparisons": sum(r["impl"].get("twins", 0) for r in res),
            "internal_only_state_changes": sum(len(st.get("internal", [])) for r in res for st in r["impl"].get("steps", [])),
            "known_finding_cores": kf_hits,
            "generated_decisions_exercised": sorted(gen_flags()),
            "event_histogram": ev_hist,
            "samples": [show_sc(r["case"])[:600] for r in res[:: max(1, len(res) // 3)][:3]],
        }
    )
    ctx.assumptions += [
        "sqlglot builder calls return fresh trees (copy=True); aliasing inside sqlglot trees is not modelled — only the harness' deep snapshots see it",
        "the static call graph is an over-approximation by attribute name (sound for 'cannot reach the engine')",
        "Gen.Writes (static alias analysis): callee tables for sqlglot / Python containers are stated in tools/c04_alias.py; a receiver-owned node stored into a fresh tree is not tracked",
        "object_to_dict (sqlglot.helper) copies each attribute with v.copy(): deep for sqlglot trees, shallow for lists (checked on the running objects: copySharesHintNodes)",
    ]


def replay(ctx: Ctx, rp: dict) -> None:
    sc = rp.get("case")
    if not sc:
        print("replay names a broken obligation, not an input:", rp.get("broken"))
        return
    r = evaluate([sc], workers=1)[0]
    print(json.dumps({"scenario": show_sc(sc), "failures": [f["text"] for f in r["fails"]], "details": r["fails"][:4], "model_mismatch": r["mismatch"]}, indent=1, default=str))
    if r["fails"]:
        vlib.report_violation(ctx, dict(rp, failures=[f["text"] for f in r["fails"]]))
