"""
C04 — DataFrames are immutable; transformations are pure and lazy.

proof : lean/SqlframeModel/Props/C04.lean (frame / history / handles / lazy, over Gen.Purity + Gen.Operations)
tie   : Gen.Purity regenerated from /repo (where display names are recorded, whether normalize works on
        copies, copy()/GroupedData, static call graph to the engine); correspondence stream = scenarios of
        public calls on the real objects with a *deep snapshot of every pre-existing DataFrame and Column
        handle* before and after each call, and a proxy connection counting statements, compared with the
        model's predicted set of mutated objects / engine traffic.
search: the same snapshots are the specification check (nothing that existed may change), also for the
        public API outside the Lean alphabet (joins, set operations, groupBy/agg, alias, hints, na.*, …).
"""
from __future__ import annotations

import contextlib
import io
import json
import os
import random
import sys
import typing as t
import warnings

import c01
import exprs as X
import vlib
from vlib import Ctx, bag, plain

ID = "C04"
LEVEL = "proof"
MODULES = ["SqlframeModel.Codec.C04", "SqlframeModel.Props.C04"]
GEN = ["Operations", "Methods", "Clauses", "Purity"]
SOURCES = ["SqlframeModel/Props/C04.lean", "SqlframeModel/Impl/C04.lean"]

ACTIONS = ["collect", "count", "show", "head", "first", "isEmpty", "toPandas", "toArrow", "columns", "sql", "schema", "sql_opt"]
EXTRA = ["join_name", "join_expr", "crossJoin", "union", "unionByName", "intersect", "exceptAll", "groupBy_agg", "groupBy_count", "agg", "alias",
         "hint", "repartition", "dropna", "replace", "unpivot", "toDF", "cube", "na_fill", "dropDuplicates", "select_star", "select_none",
         "withColumns", "cache", "transform", "createOrReplaceTempView", "sort", "filter_str", "selectExpr_like", "getattr", "alias_use", "alias_other"]


class CountingConn:
    """DB-API proxy counting statements sent to the engine"""

    def __init__(self, conn):
        object.__setattr__(self, "_c", conn)
        object.__setattr__(self, "n", 0)

    def execute(self, *a, **k):
        object.__setattr__(self, "n", self.n + 1)
        return self._c.execute(*a, **k)

    def sql(self, *a, **k):
        object.__setattr__(self, "n", self.n + 1)
        return self._c.sql(*a, **k)

    def cursor(self):
        return self

    def close(self):  # pandas closes the "cursor" it was handed; the session must stay usable
        return None

    def __getattr__(self, name):
        return getattr(self._c, name)


_S = None


def sess():
    global _S
    if _S is None:
        import duckdb
        from sqlframe.base.session import _BaseSession
        from sqlframe.duckdb import DuckDBSession

        _BaseSession._instance = None
        _S = DuckDBSession(conn=CountingConn(duckdb.connect(":memory:")))
    return _S


# ------------------------------------------------------------------------------------------------
# scenario generation: a list of events over object indices
# ------------------------------------------------------------------------------------------------


def gen_scenario(rng: random.Random, n_events: int) -> dict:
    schema = {"x": "int", "y": "int", "s": "str"}
    rows = X.gen_table(rng, schema)
    schemas = [dict(schema)]  # schema of each DataFrame object
    handles: t.List[t.Tuple[int, str]] = []  # (object the handle was taken from, column)
    lineage = [0]  # root ancestor... every object derives from object 0 here
    events = []
    for _ in range(n_events):
        r = rng.randrange(len(schemas))
        sch = dict(schemas[r])
        c = rng.random()
        if c < 0.45:
            kind = rng.choice(c01.KINDS)
            st: t.Dict[str, t.Any] = {"total": False}
            step = c01.gen_step(rng, kind, sch, st, False)
            if step is None:
                continue
            if step["k"] == "limit" and 0 < step["n"] < c01.BIG:
                step["n"] = c01.BIG
            names: t.List[t.List[str]] = []
            namer = "none"
            # occasionally respell a column so that a display-name update happens
            if step["k"] == "select":
                namer = "select"
                spelled = []
                for nm, e in step["items"]:
                    sp = nm.upper() if rng.random() < 0.5 else nm
                    spelled.append(sp)
                    names.append([nm, sp])
                step["spell"] = spelled
            elif step["k"] == "withColumn":
                namer = "withColumns"
                sp = step["n"].upper() if rng.random() < 0.5 else step["n"]
                step["spell"] = sp
                names.append([step["n"], sp])
            elif step["k"] == "withColumnRenamed":
                namer = "withColumnRenamed"
                sp = step["b"].upper() if rng.random() < 0.5 else step["b"]
                step["spell"] = sp
                names.append([step["b"], sp])
            hs = []
            if step["k"] == "where" and handles and rng.random() < 0.5:
                # use a user-held handle inside the predicate: handle.isNull() | handle.isNotNull()
                cand = [i for i, (_, col) in enumerate(handles) if col in schemas[r]]
                if cand:
                    hi = rng.choice(cand)
                    step = {"k": "where", "p": ("not", ("isNull", ("col", handles[hi][1]))), "handle": hi}
                    hs = [hi]
            events.append({"op": "transform", "r": r, "step": step, "namer": namer, "names": names, "hs": hs})
            schemas.append(sch)
        elif c < 0.65:
            events.append({"op": "action", "r": r, "which": rng.choice(ACTIONS)})
        elif c < 0.75:
            col = rng.choice(list(sch))
            events.append({"op": "getItem", "r": r, "n": col, "via": rng.choice(["item", "attr", "F.col"])})
            handles.append((r, col))
        elif c < 0.79:
            # a second DataFrame made directly from the session, same data, every column spelled differently
            events.append({"op": "create", "r": 0, "spell": rng.choice(["upper", "title"])})
        else:
            # `rx`: with some probability the receiver is an earlier result outside the Lean alphabet (alias, hint,
            # join, union, …) — those end in states where the operation wrapper does not start a new block
            events.append({"op": "extra", "r": r, "which": rng.choice(EXTRA), "other": rng.randrange(len(schemas)),
                           "rx": rng.randrange(64) if rng.random() < 0.4 else None})
    return {"schema": schema, "rows": rows, "events": events}


def to_lean(i: int, sc: dict) -> dict:
    calls = []
    for ev in sc["events"]:
        if ev["op"] == "transform":
            calls.append({"transform": {"r": ev["r"], "s": c01.step_to_lean(ev["step"]), "namer": ev["namer"], "names": ev["names"], "hs": ev["hs"]}})
        elif ev["op"] == "action" and ev["which"] not in LAZY_OBS:
            calls.append({"action": {"r": ev["r"], "k": 0}})
        elif ev["op"] == "getItem":
            calls.append({"getItem": {"r": ev["r"], "n": ev["n"]}})
    return {"case": i, "table": X.table_to_lean(list(sc["schema"]), sc["rows"]), "calls": calls}


# ------------------------------------------------------------------------------------------------
# the real implementation with deep snapshots
# ------------------------------------------------------------------------------------------------


def _rows(df) -> t.Any:
    try:
        return bag([[plain(v) for v in r] for r in df.collect()])
    except Exception as e:  # an invalid program built by an unmodelled follow-up: still compare what can be compared
        return f"uncollectable: {type(e).__name__}"


def snap_df(df, rows: bool = True) -> dict:
    with warnings.catch_warnings():
        warnings.simplefilter("ignore")
        return {
            "columns": list(df.columns),
            "_columns": list(df._columns),
            "expr": df.expression.sql(dialect="duckdb"),
            "display": dict(df.display_name_mapping),
            "hints": [h.sql() for h in df.pending_hints],
            "last_op": str(getattr(df, "last_op", None)),
            "sql": df.sql(optimize=False),
            # dropDuplicates(subset) keeps an arbitrary representative: its rows are not a function of the object
            "rows": _rows(df) if rows else "not compared (nondeterministic by definition)",
        }


def snap_handle(c) -> dict:
    return {"sql": c.expression.sql(), "meta": {k: str(v) for k, v in sorted((c.expression.meta or {}).items())}}


def do_transform(df, ev: dict, handles: list, F):
    s = ev["step"]
    k = s["k"]
    if "handle" in s:
        return df.where(handles[s["handle"]].isNotNull())
    if k == "select":
        return df.select(*[X.to_column(c01.tuple_(e), F).alias(sp) for (n, e), sp in zip(s["items"], s["spell"])])
    if k == "withColumn":
        return df.withColumn(s["spell"], X.to_column(c01.tuple_(s["e"]), F))
    if k == "withColumnRenamed":
        return df.withColumnRenamed(s["a"], s["spell"])
    return c01.apply_step(df, s, F)


def do_action(df, which: str):
    with warnings.catch_warnings():
        warnings.simplefilter("ignore")
        if which == "collect":
            return bag([[plain(v) for v in r] for r in df.collect()])
        if which == "count":
            return df.count()
        if which == "show":
            buf = io.StringIO()
            with contextlib.redirect_stdout(buf):
                df.show(3)
            return len(buf.getvalue().split("\n"))
        if which == "head":
            return len(df.head(2))
        if which == "first":
            return df.first() is None
        if which == "isEmpty":
            return df.isEmpty()
        if which == "toPandas":
            return list(df.toPandas().columns)
        if which == "toArrow":
            return df.toArrow().num_rows
        if which == "columns":
            return list(df.columns)
        if which == "sql":
            return df.sql(optimize=False)
        if which == "sql_opt":
            try:
                return df.sql()
            except Exception as e:  # sqlglot optimizer failures are C03's business
                return f"raised {type(e).__name__}"
        if which == "schema":
            return [f.name for f in df.schema.fields]
    raise ValueError(which)


def do_extra(df, other, which: str, F):
    cols = df.columns
    c0 = cols[0]
    if which == "join_name":
        common = [c for c in cols if c in other.columns]
        return df.join(other, on=common[:1] or None, how="left")
    if which == "join_expr":
        return df.join(other, on=df[c0] == other[other.columns[0]], how="inner")
    if which == "crossJoin":
        return df.crossJoin(other)
    if which in ("union", "intersect", "exceptAll"):
        if len(other.columns) != len(cols):
            other = df
        return getattr(df, which)(other)
    if which == "unionByName":
        return df.unionByName(other, allowMissingColumns=True)
    if which == "groupBy_agg":
        return df.groupBy(c0).agg(F.count("*").alias("N"), F.max(cols[-1]).alias("M"))
    if which == "groupBy_count":
        g = df.groupBy(F.col(c0))
        a = g.count()
        b = g.count()
        return a if a.columns == b.columns else None
    if which == "agg":
        return df.agg(F.count(c0).alias("CNT"))
    if which == "alias":
        return df.alias("t1")
    if which == "alias_other":  # a sibling takes the same alias name
        return other.alias("t1")
    if which == "alias_use":  # a reference qualified by the alias name, resolved through the session's registry
        return df.select(F.col("t1." + c0))
    if which == "hint":
        return df.hint("broadcast")
    if which == "repartition":
        return df.repartition(3)
    if which == "dropna":
        return df.dropna(how="any", subset=[c0])
    if which == "replace":
        return df.replace(1, 9, subset=[c0])
    if which == "unpivot":
        return df.unpivot(c0, None, "var", "val") if len(cols) > 1 else df
    if which == "toDF":
        return df.toDF(*[f"C{i}" for i in range(len(cols))])
    if which == "cube":
        return df.cube(c0).count()
    if which == "na_fill":
        return df.na.fill(0)
    if which == "dropDuplicates":
        return df.dropDuplicates([c0])
    if which == "select_star":
        return df.select("*")
    if which == "select_none":
        return df.select()
    if which == "withColumns":
        return df.withColumns({"NEW": F.lit(1), c0: F.col(c0)})
    if which == "cache":
        return df.cache()
    if which == "transform":
        return df.transform(lambda d: d.limit(5))
    if which == "createOrReplaceTempView":
        df.createOrReplaceTempView("c04_view")
        return None
    if which == "sort":
        return df.sort(F.col(c0).desc())
    if which == "filter_str":
        return df.filter(f"{c0} IS NOT NULL")
    if which == "selectExpr_like":
        return df.select(F.col(c0).alias("A"), F.col(c0).alias("B"))
    if which == "getattr":
        return getattr(df, c0)
    raise ValueError(which)


def run_impl(sc: dict) -> dict:
    from sqlframe.base.dataframe import BaseDataFrame
    from sqlframe.duckdb import functions as F

    s = sess()
    conn = s._conn
    out: t.Dict[str, t.Any] = {"steps": [], "problems": []}
    try:
        dfs = [X.make_df(s, sc["schema"], sc["rows"])]
        handles: t.List[t.Any] = []
        extras: t.List[t.Any] = []  # results of calls outside the Lean alphabet: watched, not numbered by the model
        extras_det: t.List[bool] = []
        probes: t.List[t.Tuple[int, t.Callable[[], t.Any], t.Any, bool]] = []  # (event, the call again, its first outcome, rows compared)

        def outcome(call: t.Callable[[], t.Any], det: bool, first: t.Any = None) -> t.Any:
            try:
                d = first if first is not None else call()
                if not isinstance(d, BaseDataFrame):
                    return "no DataFrame"
                sn = snap_df(d, det)
                return {"columns": sn["columns"], "rows": sn["rows"]}
            except Exception as e:  # noqa
                return f"raised {type(e).__name__}"

        for ei, ev in enumerate(sc["events"]):
            before = [snap_df(d) for d in dfs] + [snap_df(d, det) for d, det in zip(extras, extras_det)]
            n_model = len(dfs)
            watched = dfs + extras
            hbefore = [snap_handle(h) for h in handles]
            n0 = conn.n
            info: t.Dict[str, t.Any] = {"op": ev["op"]}
            err = None
            try:
                if ev["op"] == "transform":
                    new = do_transform(dfs[ev["r"]], ev, handles, F)
                    info["engine"] = conn.n - n0
                    # purity: the same call on the same receiver builds the same DataFrame again
                    again = do_transform(dfs[ev["r"]], ev, handles, F)
                    det = ev["step"]["k"] != "dropDuplicates"
                    s1, s2 = snap_df(new, det), snap_df(again, det)
                    for key in ("columns", "sql", "rows"):
                        if s1[key] != s2[key]:
                            out["problems"].append({"event": ei, "what": f"repeating the transformation on the same receiver built a different DataFrame ({key})", "first": str(s1[key])[:300], "second": str(s2[key])[:300]})
                            break
                    dfs.append(new)
                    probes.append((ei, (lambda r=dfs[ev["r"]], ev=ev: do_transform(r, ev, handles, F)), {"columns": s1["columns"], "rows": s1["rows"]}, det))
                elif ev["op"] == "action":
                    a1 = do_action(dfs[ev["r"]], ev["which"])
                    info["engine"] = conn.n - n0
                    a2 = do_action(dfs[ev["r"]], ev["which"])
                    if a1 != a2:
                        out["problems"].append({"event": ei, "what": f"repeating {ev['which']} gave a different answer", "first": str(a1)[:200], "second": str(a2)[:200]})
                elif ev["op"] == "getItem":
                    d = dfs[ev["r"]]
                    h = d[ev["n"]] if ev["via"] == "item" else (getattr(d, ev["n"]) if ev["via"] == "attr" else F.col(ev["n"]))
                    info["engine"] = conn.n - n0
                    handles.append(h)
                elif ev["op"] == "create":
                    f = str.upper if ev["spell"] == "upper" else str.title
                    new = X.make_df(s, {f(k): v for k, v in sc["schema"].items()}, sc["rows"])
                    info["engine"] = conn.n - n0
                    extras.append(new)
                    extras_det.append(True)
                else:
                    recv = dfs[ev["r"]]
                    if ev.get("rx") is not None and extras:
                        recv = extras[ev["rx"] % len(extras)]
                    try:
                        new = do_extra(recv, dfs[ev["other"]], ev["which"], F)
                    except Exception as e0:
                        if ev["which"] != "createOrReplaceTempView":
                            probes.append((ei, (lambda r=recv, o=dfs[ev["other"]], w=ev["which"]: do_extra(r, o, w, F)), f"raised {type(e0).__name__}", True))
                        raise
                    info["engine"] = conn.n - n0
                    if ev["which"] not in ("createOrReplaceTempView", "getattr", "groupBy_count") and isinstance(new, BaseDataFrame):
                        det_x = ev["which"] != "dropDuplicates"
                        probes.append((ei, (lambda r=recv, o=dfs[ev["other"]], w=ev["which"]: do_extra(r, o, w, F)), outcome(lambda: new, det_x, new), det_x))
                    if isinstance(new, BaseDataFrame) and new is not recv:
                        # keep it alive and watched, but the model does not number it
                        extras.append(new)
                        extras_det.append(ev["which"] != "dropDuplicates")
            except Exception as e:  # a follow-up that raises must still leave everything else intact
                err = f"{type(e).__name__}: {str(e)[:160]}"
                info["engine"] = conn.n - n0
            info["err"] = err
            n_prev = len(before)
            after = [snap_df(d) for d in watched[:n_model]] + [snap_df(d, det) for d, det in zip(watched[n_model:], extras_det)]
            hafter = [snap_handle(h) for h in handles[: len(hbefore)]]
            OBS = ("columns", "sql", "rows", "last_op")  # what a DataFrame reports, and the state its next operation starts from
            info["objs"] = [i for i in range(n_prev) if any(before[i][k] != after[i][k] for k in OBS)]
            info["internal"] = [i for i in range(n_prev) if before[i] != after[i] and i not in info["objs"]]
            info["objs_model"] = [i for i in info["objs"] if i < n_model]
            info["handles"] = [i for i in range(len(hbefore)) if hbefore[i] != hafter[i]]
            if info["objs"]:
                i = info["objs"][0]
                info["diff"] = {k: [before[i][k], after[i][k]] for k in before[i] if before[i][k] != after[i][k]}
            if info["handles"]:
                i = info["handles"][0]
                info["hdiff"] = [hbefore[i], hafter[i]]
            out["steps"].append(info)
        # purity over time: every call, made again on the same receiver after everything else happened, builds the same DataFrame
        for ei, call, first, det in probes:
            again = outcome(call, det)
            if again != first:
                out["problems"].append({"event": ei, "what": "the same call on the same receiver gives a different result after the later events of the scenario", "first": str(first)[:300], "second": str(again)[:300]})
        out["final"] = [{"names": list(d.columns), "rows": _rows(d)} for d in dfs]
    except Exception as e:  # noqa
        out["err"] = f"{type(e).__name__}: {str(e)[:300]}"
    return out


LAZY_OPS = ("transform", "getItem", "extra", "create")
LAZY_OBS = ("columns", "sql", "sql_opt")  # read-only observations that must not reach the engine either


def judge(sc: dict, impl: dict, model: dict) -> t.Tuple[t.List[str], t.List[str]]:
    fails: t.List[str] = []
    mm: t.List[str] = []
    if "err" in impl:
        return [f"scenario raised outside a follow-up: {impl['err']}"], ["error"]
    msteps = iter(model["steps"])
    for ei, (ev, st) in enumerate(zip(sc["events"], impl["steps"])):
        if st["objs"]:
            fails.append(f"event {ei} ({describe(ev)}) changed pre-existing DataFrame(s) {st['objs']}: {json.dumps(st.get('diff'))[:300]}")
        if st["handles"]:
            fails.append(f"event {ei} ({describe(ev)}) rewrote Column handle(s) {st['handles']}: {st.get('hdiff')}")
        if (ev["op"] in LAZY_OPS or (ev["op"] == "action" and ev["which"] in LAZY_OBS)) and st["engine"] != 0 and not (ev["op"] == "extra" and ev["which"] in ("createOrReplaceTempView",)):
            fails.append(f"event {ei} ({describe(ev)}) is a transformation but sent {st['engine']} statement(s) to the engine")
        if ev["op"] not in ("extra", "create") and not (ev["op"] == "action" and ev["which"] in LAZY_OBS):
            m = next(msteps)
            if st["err"] is None:
                if m["objs"] != st["objs_model"]:
                    mm.append(f"event {ei}: model predicts mutated objects {m['objs']}, implementation {st['objs_model']}")
                if m["handles"] != st["handles"]:
                    mm.append(f"event {ei}: model predicts rewritten handles {m['handles']}, implementation {st['handles']}")
                if (m["engine"] == 0) != (st["engine"] == 0):
                    mm.append(f"event {ei}: model engine traffic {m['engine']}, implementation {st['engine']}")
    for p in impl["problems"]:
        fails.append(f"event {p['event']}: {p['what']}")
    return fails, mm


def describe(ev: dict) -> str:
    if ev["op"] == "transform":
        return f"df{ev['r']}." + c01.show_step(ev["step"]) + (f" spelled {ev['step'].get('spell')}" if "spell" in ev["step"] else "") + (f" using handle {ev['hs']}" if ev["hs"] else "")
    if ev["op"] == "action":
        return f"df{ev['r']}.{ev['which']}()"
    if ev["op"] == "getItem":
        return f"df{ev['r']}[{ev['n']!r}] via {ev['via']}"
    if ev["op"] == "create":
        return f"createDataFrame(same rows, column names {ev['spell']}-cased)"
    return (f"extra[{ev['rx']} mod n]" if ev.get("rx") is not None else f"df{ev['r']}") + f".{ev['which']}(df{ev['other']})"


def show_sc(sc: dict) -> str:
    return f"df0 = {list(sc['schema'])}{sc['rows']}; " + "; ".join(describe(e) for e in sc["events"])


def evaluate(scs: t.List[dict], workers: int = 0) -> t.List[dict]:
    outs = vlib.run_driver("C04", [to_lean(i, sc) for i, sc in enumerate(scs)])
    impls = vlib.parallel_map(run_impl, scs, workers)
    res = []
    for sc, o, impl in zip(scs, outs, impls):
        if "err" in o:
            raise RuntimeError(f"driver rejected a scenario: {o}")
        fails, mm = judge(sc, impl, o)
        res.append({"case": sc, "impl": impl, "model": o, "fails": fails, "mismatch": mm})
    return res


def shrink(sc: dict, rounds: int = 10) -> dict:
    """drop events that nothing later depends on while the scenario still fails"""
    best = sc
    for _ in range(rounds):
        cands = []
        evs = best["events"]
        for i in range(len(evs)):
            # removing a transform/getItem shifts indices: only remove events that create nothing,
            # or the last creating event
            ev = evs[i]
            creates = ev["op"] in ("transform", "getItem")
            if creates and any(later_uses(evs[j], ev, i, evs) for j in range(i + 1, len(evs))):
                continue
            if creates:
                continue  # keep numbering simple: creators stay
            cands.append(dict(best, events=evs[:i] + evs[i + 1 :]))
        if len(evs) > 1:
            cands.append(dict(best, events=evs[:-1]))
        if not cands:
            break
        res = evaluate(cands, workers=1)
        nxt = next((r["case"] for r in res if r["fails"]), None)
        if nxt is None:
            break
        best = nxt
    return best


def later_uses(later: dict, ev: dict, i: int, evs: list) -> bool:
    return True


def run(ctx: Ctx) -> None:
    idx = vlib.props_index()[ID]
    vlib.prove(ctx, MODULES, GEN, idx["theorems"], SOURCES)
    known = {e["id"]: e for e in vlib.known_findings(ID)}

    scs: t.List[dict] = []
    cdir = os.path.join(vlib.VERIF, "corpus", ID)
    if os.path.isdir(cdir):
        for fn in sorted(os.listdir(cdir)):
            if fn.endswith(".json"):
                scs.append(json.load(open(os.path.join(cdir, fn))))
    # every (last-operation state x follow-up) pair: a one-step prefix of each kind, then each follow-up
    for kind in [None] + c01.KINDS:
        for fu in range(3):
            sc = gen_scenario(ctx.rng, 0)
            sch = dict(sc["schema"])
            if kind:
                st = c01.gen_step(ctx.rng, kind, sch, {"total": False}, False)
                if st is None or (st["k"] == "limit" and 0 < st["n"] < c01.BIG):
                    continue
                names, namer = [], "none"
                if st["k"] == "select":
                    st["spell"] = [n for n, _ in st["items"]]
                    names, namer = [[n, n] for n, _ in st["items"]], "select"
                elif st["k"] == "withColumn":
                    st["spell"], names, namer = st["n"], [[st["n"], st["n"]]], "withColumns"
                elif st["k"] == "withColumnRenamed":
                    st["spell"], names, namer = st["b"], [[st["b"], st["b"]]], "withColumnRenamed"
                sc["events"].append({"op": "transform", "r": 0, "step": st, "namer": namer, "names": names, "hs": []})
            base = gen_scenario(ctx.rng, 6 if not ctx.thorough else 10)
            # graft random follow-ups that only address objects that exist
            nobj = 1 + len([e for e in sc["events"] if e["op"] == "transform"])
            for ev in base["events"]:
                ev = dict(ev)
                ev["r"] = ev["r"] % nobj
                if "other" in ev:
                    ev["other"] = ev["other"] % nobj
                if ev["op"] == "transform":
                    # recompute against the receiver's schema: regenerate the step
                    continue
                if ev["op"] == "getItem":
                    continue
                sc["events"].append(ev)
            scs.append(sc)
    for _ in range(600 if ctx.thorough else 60):
        scs.append(gen_scenario(ctx.rng, ctx.rng.randint(3, 9)))
    # every EXTRA follow-up and every action at least once on a WHERE-state receiver (body sees the receiver itself)
    for which in EXTRA + ACTIONS:
        sc = gen_scenario(ctx.rng, 0)
        sc["events"] = [
            {"op": "transform", "r": 0, "step": {"k": "where", "p": ("not", ("isNull", ("col", "x")))}, "namer": "none", "names": [], "hs": []},
            {"op": "getItem", "r": 1, "n": "x", "via": "item"},
            ({"op": "extra", "r": 1, "which": which, "other": 0} if which in EXTRA else {"op": "action", "r": 1, "which": which}),
            {"op": "transform", "r": 1, "step": {"k": "select", "items": [["x", ("col", "x")]], "spell": ["X"]}, "namer": "select", "names": [["x", "X"]], "hs": []},
            {"op": "transform", "r": 1, "step": {"k": "where", "p": ("not", ("isNull", ("col", "x"))), "handle": 0}, "namer": "none", "names": [], "hs": [0]},
            {"op": "action", "r": 1, "which": "columns"},
        ]
        scs.append(sc)

    # a receiver produced outside the Lean alphabet (alias / hint / join / union / …), then used as the receiver of every
    # binary follow-up, then observed again
    for first in ("alias", "hint", "join_name", "union", "crossJoin", "repartition", "cache"):
        for second in ("join_name", "join_expr", "crossJoin", "union", "unionByName", "intersect", "exceptAll"):
            sc = gen_scenario(ctx.rng, 0)
            sc["events"] = [
                {"op": "transform", "r": 0, "step": {"k": "where", "p": ("not", ("isNull", ("col", "x")))}, "namer": "none", "names": [], "hs": []},
                {"op": "extra", "r": 0, "which": first, "other": 1, "rx": None},
                {"op": "extra", "r": 0, "which": second, "other": 1, "rx": 0},
                {"op": "extra", "r": 0, "which": second, "other": 0, "rx": 0},
                {"op": "action", "r": 1, "which": "sql"},
            ]
            scs.append(sc)
    # an aliased DataFrame keeps resolving its alias after a sibling (or it itself again) takes the same alias name
    for other in (0, 1):
        for use in ("alias_use", "filter_str", "sort"):
            sc = gen_scenario(ctx.rng, 0)
            sc["events"] = [
                {"op": "transform", "r": 0, "step": {"k": "where", "p": ("not", ("isNull", ("col", "x")))}, "namer": "none", "names": [], "hs": []},
                {"op": "extra", "r": 0, "which": "alias", "other": 0, "rx": None},
                {"op": "extra", "r": 0, "which": "alias_use", "other": 0, "rx": 0},
                {"op": "extra", "r": 0, "which": use, "other": 0, "rx": 0},
                {"op": "extra", "r": 1, "which": "alias_other", "other": other, "rx": None},
                {"op": "action", "r": 1, "which": "columns"},
            ]
            scs.append(sc)
    for spell in ("upper", "title"):
        sc = gen_scenario(ctx.rng, 0)
        sc["events"] = [{"op": "action", "r": 0, "which": "columns"}, {"op": "create", "r": 0, "spell": spell}, {"op": "action", "r": 0, "which": "collect"}]
        scs.append(sc)

    res = evaluate(scs)
    mism = [r for r in res if r["mismatch"]]
    if mism:
        ctx.broken.append(f"correspondence stream (mutated-object sets / engine traffic of the implementation vs Impl/C04.lean): {len(mism)} of {len(res)} scenarios differ, e.g. {mism[0]['mismatch'][0]}")
    viol = [r for r in res if r["fails"]]
    reported = 0
    for r in viol[:3]:
        sc = shrink(r["case"])
        rr = evaluate([sc], workers=1)[0]
        vlib.report_violation(ctx, {"kind": "an existing object changed / a transformation reached the engine / an action is not repeatable", "scenario": show_sc(sc), "case": sc, "failures": rr["fails"], "model_mismatch": rr["mismatch"], "broken": ctx.broken})
        reported += 1
    if ctx.broken and not reported:
        vlib.report_violation(ctx, {"kind": "proof obligation or correspondence no longer checks; no failing input found", "broken": ctx.broken, "searched": {"scenarios": len(res)},
                                    "first_model_mismatch": ({"scenario": show_sc(mism[0]["case"]), "case": mism[0]["case"], "mismatch": mism[0]["mismatch"]} if mism else None)}, no_input=True)

    ev_hist: t.Dict[str, int] = {}
    n_events = 0
    raised = 0
    for r in res:
        for ev, st in zip(r["case"]["events"], r["impl"].get("steps", [])):
            key = ev["op"] if ev["op"] in ("getItem", "create") else (ev["step"]["k"] if ev["op"] == "transform" else ev["which"])
            ev_hist[key] = ev_hist.get(key, 0) + 1
            n_events += 1
            raised += st.get("err") is not None
    ctx.cov.update(
        {
            "evaluations": n_events,
            "distinct_nontrivial": len({vlib.digest(r["case"]) for r in res if len(r["case"]["events"]) >= 2}),
            "rule": "scenarios = sequences of public calls (C01 transformations with re-spelled columns, actions, df[...] handles and their use, and the API outside the Lean alphabet) on any "
            "existing DataFrame; after EVERY call all pre-existing DataFrames (columns, tree, display map, hints, sql, rows) and handles are compared with their snapshot; statements counted at a proxy connection; "
            "evaluations = follow-up calls checked; non-trivial = distinct scenarios with >= 2 events",
            "scenarios": len(res),
            "traces_validated_against_impl": sum(1 for r in res if not r["mismatch"]),
            "follow_ups_that_raised": raised,
            "internal_only_state_changes": sum(len(st.get("internal", [])) for r in res for st in r["impl"].get("steps", [])),
            "event_histogram": ev_hist,
            "samples": [show_sc(r["case"])[:600] for r in res[:: max(1, len(res) // 3)][:3]],
        }
    )
    ctx.assumptions += [
        "sqlglot builder calls return fresh trees (copy=True); aliasing inside sqlglot trees is not modelled — only the harness' deep snapshots see it",
        "the static call graph is an over-approximation by attribute name (sound for 'cannot reach the engine')",
    ]


def replay(ctx: Ctx, rp: dict) -> None:
    sc = rp.get("case")
    if not sc:
        print("replay names a broken obligation, not an input:", rp.get("broken"))
        return
    r = evaluate([sc], workers=1)[0]
    print(json.dumps({"scenario": show_sc(sc), "failures": r["fails"], "model_mismatch": r["mismatch"]}, indent=1))
    if r["fails"]:
        vlib.report_violation(ctx, dict(rp, failures=r["fails"]))
