"""
C17 — functions compute Spark's values on DuckDB (and on Spark itself).

What this technique decides, and claims: sqlframe's OWN emulations — function_alternatives.py and the
index/argument arithmetic inside functions.py / column.py.
proof      : lean/SqlframeModel/Props/C17.lean  (emul_f = sparkSpec_f on the stated domain, over unbounded ints
             and lists; the factorial table; C17_dispatch by `decide` over the generated dispatch table)
tie        : Gen/Emulations.lean regenerated from /repo on every run (tools/gen_c17.py, Python ast), and
   stream A : the real alternative's expression / DuckDB SQL text  vs  the shape the model assumes
   stream B : DuckDB 1.2.2 primitives (xs[i], LIST_SLICE, ARRAY_POSITION, GENERATE_SERIES, ROUND, SUBSTRING, FACTORIAL)
              vs their assumed meaning `duck…` on generated inputs
   stream C : sparkSpec_f  vs  values recorded from live PySpark 3.5.9 (tools/oracle/spark_values.json);
              thorough tier: a live JVM on fresh (seeded) inputs, falling back to the recording
   stream D : every COLUMN PROGRAM (let-bindings that reuse kept columns: F.when / .when / .otherwise / operators)
              on shared objects  vs  on fresh objects  vs  the heap model  vs  PySpark's immutable meaning
   stream E : purity probes: every public Column method on 11 receiver shapes (receiver and earlier derived columns
              must render the same SQL afterwards); every exported function leaves its Column arguments alone
search     : sqlframe on DuckDB (real code)  vs  emul_f (model)  vs  Spark's value, on the recorded cases (every
             emulation of the dispatch table, every optional-argument form, thresholds at / next to the distance,
             every arrangement of empty and non-empty format segments, shared-prefix programs) and on seeded random
             cases; failing column programs are shrunk (steps, rows)
NOT decided: the values of functions passed through to the engine / to sqlglot's function mapping
             ("native").  They are compared with recorded Spark values; the disagreements of the UNCHANGED tree are
             unclaimed observations (c17_native_observations.json) — never proved, never violations.  Engine and
             sqlglot being pinned, any OTHER disagreement of a pass-through function is a change of sqlframe's and is
             reported with its concrete input.
"""
from __future__ import annotations

import collections
import datetime
import fractions
import json
import logging
import os
import re
import subprocess
import sys
import tempfile
import typing as t

import vlib
from vlib import Ctx, log

HERE = os.path.dirname(os.path.abspath(__file__))
sys.path.insert(0, HERE)

import c17_cases as K  # noqa: E402

ID = "C17"
LEVEL = "proof"
MODULES = ["SqlframeModel.Props.C17"]
GEN = ["Emulations", "EmulCompose"]
SOURCES = ["SqlframeModel/Props/C17.lean", "SqlframeModel/Impl/C17.lean", "SqlframeModel/Impl/C17Soundex.lean", "SqlframeModel/Impl/C17Compose.lean", "SqlframeModel/Lemmas/C17Compose.lean"]
ORACLE = os.path.join(vlib.VERIF, "tools", "oracle", "spark_values.json")

# ------------------------------------------------------------------------------------------------
# case -> driver request
# ------------------------------------------------------------------------------------------------


def _arg(a: dict) -> t.Any:
    v = a.get("c", a.get("p", a.get("l")))
    return v


def to_req(c: dict) -> t.Optional[dict]:
    """driver request for a modelled emulation case, None when the case has no model (value-only)"""
    if any("e" in a or "r" in a for a in c["args"]):
        return None  # compositions and aggregations are compared by value only
    fn, args = c["fn"], [_arg(a) for a in c["args"]]
    if fn == "prog":
        if any(st["op"] in ("isNull", "cast") for st in c["prog"]):
            # boolean-valued step / a step that copies the tree it is applied to (sqlglot's exp.cast): compared by
            # value only (shared vs fresh objects, recorded Spark)
            return None
        steps = []
        for st in c["prog"]:
            d = {"op": st["op"]}
            if st.get("on") is not None:
                d["on"] = st["on"]
            if "cond" in st:
                d["cmp"], d["k"] = st["cond"]
            if "k" in st:
                d["k"] = st["k"]
            if "val" in st:
                d["v"] = st["val"]
            steps.append(d)
        return {"op": "prog", "prog": steps, "rows": c["rows"]}
    if c.get("tag") == "null-in" and fn not in ("array_position", "levenshtein", "nanvl"):
        return None
    if fn == "levenshtein":
        if not all(a is None or (isinstance(a, str) and a.isascii()) for a in args[:2]):
            return None
        r = {"op": "levenshtein", "str": args[0], "rep": args[1]}
        if len(args) > 2:
            r["k"] = args[2]
        return r
    if fn == "format_string":
        cols = []
        for a in c["args"][1:]:
            v = _arg(a)
            if not isinstance(v, (str, int, float)):
                return None  # only scalar columns have a text the model can splice
            cols.append(v if isinstance(v, str) else ("true" if v is True else "false" if v is False else repr(v)))
        return {"op": "format_string", "str": args[0], "strs": cols}
    if fn == "nanvl":
        def enc(v):
            return None if v is None else ("nan" if v != v else repr(float(v)))
        return {"op": "nanvl", "ostrs": [enc(args[0]), enc(args[1])]}
    if fn == "dayofweek":
        d = args[0]["date"] if isinstance(args[0], dict) else args[0]
        try:
            return {"op": "dayofweek", "d": datetime.date.fromisoformat(d).toordinal()}
        except Exception:  # noqa
            return None
    if fn == "soundex":
        # the model's correspondence with util.soundex is claimed for ASCII strings (no NFKD, ASCII upper-casing)
        return {"op": "soundex", "str": args[0]} if isinstance(args[0], str) and args[0].isascii() else None
    if fn == "factorial":
        return {"op": "factorial", "n": args[0]}
    if fn in ("element_at", "try_element_at", "getItem"):
        return {"op": fn, "xs": args[0], "k": args[1]}
    if fn == "slice":
        return {"op": "slice", "xs": args[0], "s": args[1], "l": args[2]}
    if fn == "array_position":
        r = {"op": "array_position", "v": args[1]}
        if args[0] is not None:
            r["xs"] = args[0]
        return r
    if fn == "sequence":
        r = {"op": "sequence", "a": args[0], "b": args[1]}
        if len(args) > 2:
            r["step"] = args[2]
        return r
    if fn == "rint":
        fr = fractions.Fraction(args[0])
        return {"op": "rint", "n": fr.numerator, "d": fr.denominator}
    if fn == "overlay":
        r = {"op": "overlay", "str": args[0], "rep": args[1], "pos": args[2]}
        if len(args) > 3:
            r["len"] = args[3]
        return r
    if fn in ("date_add", "date_sub"):
        return {"op": fn, "d": datetime.date.fromisoformat(args[0]["date"]).toordinal(), "n": args[1]}
    if fn in ("array_min", "array_max"):
        return {"op": fn, "xs": sorted(args[0])}
    return None


RAISES = {"raises": True}  # the model's answer when the call itself fails (format_string_with_pipes: IndexError / ValueError)


def impl_is(r: dict, v: t.Any, unordered: bool) -> bool:
    """the implementation's outcome r = {"value"} | {"error"} is the (model / expected) value v"""
    if v == RAISES:
        return "error" in r and str(r["error"]).startswith("build:")
    return "value" in r and K.same_value(r["value"], v, unordered)


def model_value(c: dict, o: dict, key: str) -> t.Any:
    """driver output -> the canonical value form of c17_cases.canon"""
    v = o[key]
    if c["fn"] == "format_string":
        return RAISES if v is None else v
    if c["fn"] == "nanvl":
        return None if v is None else {"f": "nan" if v == "nan" else float(v)}
    if c["fn"] in ("date_add", "date_sub"):
        return {"date": datetime.date.fromordinal(v).isoformat()} if v is not None else None
    if c["fn"] == "rint":
        return {"f": float(v)}
    return v


# ------------------------------------------------------------------------------------------------
# the real implementation
# ------------------------------------------------------------------------------------------------

_S = None


def session():
    global _S
    if _S is None:
        logging.disable(logging.WARNING)
        _S = vlib.fresh_duckdb_session()
    return _S


def run_impl(cases: t.List[dict]) -> t.List[dict]:
    s = session()
    from sqlframe.duckdb import functions as F

    return K.evaluate(F, lambda rows, schema: s.createDataFrame(rows, schema), cases)


def duck_sql(q: str) -> t.Any:
    import duckdb

    con = getattr(duck_sql, "_con", None)
    if con is None:
        con = duck_sql._con = duckdb.connect(":memory:")  # type: ignore
    return con.execute(q).fetchone()[0]


# ------------------------------------------------------------------------------------------------
# stream B: engine primitives vs their assumed meaning
# ------------------------------------------------------------------------------------------------


def stream_b(ctx: Ctx, n: int) -> t.Tuple[int, t.List[str]]:
    rng = ctx.rng
    reqs, sqls = [], []

    def lst(xs):
        return "[" + ", ".join(map(str, xs)) + "]::INT[]"

    for _ in range(n):
        xs = [rng.randint(-9, 9) for _ in range(rng.randint(0, 6))]
        i = rng.randint(-8, 8)
        reqs.append({"op": "duck_index", "xs": xs, "k": i})
        sqls.append(f"SELECT ({lst(xs)})[{i}]")
        b, e = rng.randint(-8, 8), rng.randint(-8, 9)
        reqs.append({"op": "duck_list_slice", "xs": xs, "a": b, "b": e})
        sqls.append(f"SELECT list_slice({lst(xs)}, {b}, {e})")
        v = rng.choice(xs + [77]) if xs else 77
        reqs.append({"op": "duck_list_position", "xs": xs, "v": v})
        sqls.append(f"SELECT array_position({lst(xs)}, {v})")
        a, bb, st = rng.randint(-9, 9), rng.randint(-9, 9), rng.choice([-3, -2, -1, 1, 2, 3])
        reqs.append({"op": "duck_generate_series", "a": a, "b": bb, "step": st})
        sqls.append(f"SELECT generate_series({a}, {bb}, {st})")
        num, den = rng.randint(-60, 60), rng.choice([1, 2, 4, 8, 5, 10])
        fr = fractions.Fraction(num, den)
        reqs.append({"op": "duck_round0", "n": fr.numerator, "d": fr.denominator})
        sqls.append(f"SELECT CAST(round(CAST({num} AS DOUBLE) / {den}, 0) AS BIGINT)")
        s = "".join(rng.choice("abcdef") for _ in range(rng.randint(0, 8)))
        st_, ln = rng.randint(1, 10), rng.randint(0, 10)
        reqs.append({"op": "duck_substring", "str": s, "pos": st_, "len": ln})
        sqls.append(f"SELECT substring('{s}', {st_}, {ln})")
        k = rng.randint(0, 20)
        reqs.append({"op": "duck_factorial", "n": k})
        sqls.append(f"SELECT CAST(factorial({k}) AS HUGEINT)")
        a = "".join(rng.choice("abcd") for _ in range(rng.randint(0, 7)))
        b = K.random_edit(rng, a) if rng.random() < 0.6 else "".join(rng.choice("abcd") for _ in range(rng.randint(0, 7)))
        reqs.append({"op": "duck_levenshtein", "str": a, "rep": b})
        sqls.append(f"SELECT levenshtein('{a}', '{b}')")
        d = datetime.date(1990, 1, 1) + datetime.timedelta(days=rng.randint(0, 20000))
        reqs.append({"op": "duck_dayofweek", "d": d.toordinal()})
        sqls.append(f"SELECT dayofweek(DATE '{d.isoformat()}')")
    outs = vlib.run_driver(ID, [dict(r, case=i) for i, r in enumerate(reqs)])
    bad = []
    for r, q, o in zip(reqs, sqls, outs):
        try:
            got = duck_sql(q)
        except Exception as e:  # noqa
            got = f"error: {type(e).__name__}: {str(e)[:80]}"
        want = o.get("prim")
        if isinstance(got, tuple):
            got = list(got)
        if got != want:
            bad.append(f"{q} -> DuckDB {got!r}, model {r['op']} {want!r}")
    return len(reqs), bad


# ------------------------------------------------------------------------------------------------
# stream A: the real alternative's expression vs the model's shape; the dispatch table vs the running code
# ------------------------------------------------------------------------------------------------


def _sym(e: t.Any) -> str:
    from sqlglot import exp

    if isinstance(e, exp.Column):
        return f"<{e.name}>"
    if isinstance(e, exp.Literal):
        return str(e.this) if not e.is_string else f"<{e.this}>"
    if isinstance(e, exp.Boolean):
        return "true" if e.this else "false"
    return e.sql()


def stream_a(ctx: Ctx) -> t.Tuple[int, t.List[str]]:
    session()
    from sqlglot import exp

    from sqlframe.duckdb import functions as F

    bad: t.List[str] = []
    n = 0
    reqs = [{"op": "shape_locate", "pos": 3}, {"op": "shape_locate"}, {"op": "shape_instr"}, {"op": "shape_lpad", "len": 7}, {"op": "shape_rpad", "len": 7}, {"op": "dispatch"}]
    outs = vlib.run_driver(ID, [dict(r, case=i) for i, r in enumerate(reqs)])

    def strpos(e: exp.Expression) -> str:
        node = e.find(exp.StrPosition)
        s = f"StrPosition(this={_sym(node.this)}, substr={_sym(node.args['substr'])}"
        return s + (f", position=<pos>)" if node.args.get("position") is not None else ")")

    def pad(e: exp.Expression) -> str:
        node = e.find(exp.Pad)
        return f"Pad(this={_sym(node.this)}, expression={_sym(node.expression)}, fill_pattern={_sym(node.args['fill_pattern'])}, is_left={'true' if node.args.get('is_left') else 'false'})"

    real = [
        strpos(F.locate("substr", "str", 3).expression),
        strpos(F.locate("substr", "str").expression),
        strpos(F.instr("col", "substr").expression),
        pad(F.lpad("col", 7, "pad").expression),
        pad(F.rpad("col", 7, "pad").expression),
    ]
    for r, o, got in zip(reqs, outs, real):
        n += 1
        if o.get("shape") != got:
            bad.append(f"{r['op']}: real expression {got} vs model {o.get('shape')}")

    # util.soundex itself (the function the DuckDB session registers) vs the Lean transcription, on generated ASCII names
    from sqlframe.base.util import soundex as real_soundex

    names = list(K.SOUNDEX_NAMES) + [K.random_name(ctx.rng) for _ in range(600 if ctx.thorough else 150)]
    names = [x for x in names if x.isascii()]
    so = vlib.run_driver(ID, [{"case": i, "op": "soundex", "str": x} for i, x in enumerate(names)])
    for x, o in zip(names, so):
        n += 1
        got = real_soundex(x)
        if got != o.get("emul"):
            bad.append(f"util.soundex({x!r}) = {got!r} vs the Lean transcription {o.get('emul')!r}")

    # DuckDB SQL text of each modelled emulation vs the text the generated constants imply
    consts = gen_constants()

    def plus(base: str, k: int) -> str:
        return base if k == 0 else f"{base} {'+' if k > 0 else '-'} {abs(k)}"

    def sql(c: t.Any) -> str:
        return c.expression.unalias().sql(dialect="duckdb")

    k_el = 4 + consts["elementAtShift"] + 1
    expect = [
        ("slice(xs, 2, 3)", sql(F.slice("xs", 2, 3)), "LIST_SLICE(xs, 2, (2 + 3))" if consts["sliceEndOffset"] == 0 else "LIST_SLICE(xs, 2, (" + plus("(2 + 3)", consts["sliceEndOffset"]) + "))"),
        ("element_at(xs, 4)", sql(F.element_at("xs", 4)), f"xs[{k_el}]" if consts["elementAtShift"] == -1 else None),
        ("col(xs).getItem(2)", sql(F.col("xs").getItem(2)), f"xs[{2 + consts['getItemShift'] + consts['elementAtShift'] + 1}]" if consts["elementAtShift"] == -1 and consts["getItemShift"] == 1 else None),
        ("sequence(a, b)", sql(F.sequence("a", "b")), "GENERATE_SERIES(a, b, " + {"1": "1", "if a ≤ b then 1 else -1": "CASE WHEN a <= b THEN 1 ELSE -1 END"}.get(consts.get("sequenceDefaultStep_body", "?"), "?") + ")"),
        ("rint(x)", sql(F.rint("x")), f"{consts.get('rintDuckFunction', '?')}(x, {consts['rintScale']})"),
        ("factorial(n)", sql(F.factorial("n")), "FACTORIAL(CAST(n AS INT))"),
        ("array_position(xs, 3)", sql(F.array_position("xs", 3)), (f"CASE WHEN NOT xs IS NULL THEN COALESCE(ARRAY_POSITION(xs, 3), {consts['arrayPositionDefault']}) END" if consts.get("arrayPositionGuardsNull") else f"COALESCE(ARRAY_POSITION(xs, 3), {consts['arrayPositionDefault']})")),
        ("expm1(x)", sql(F.expm1("x")), "(" + plus("EXP(x)", consts["expm1Addend"]) + ")"),
        ("overlay(s, r, 3, 2)", sql(F.overlay("s", "r", 3, 2)), None),
        ("array_min(xs)", sql(F.array_min("xs")), f"ARRAY_SORT(xs)[{consts['arrayMinIndex']}]"),
        ("array_max(xs)", sql(F.array_max("xs")), f"ARRAY_SORT(xs)[{consts['arrayMaxIndex']}]"),
    ]
    for what, got, want in expect:
        if want is None:
            continue
        n += 1
        if got != want:
            bad.append(f"{what}: real DuckDB SQL {got!r} vs the model's shape {want!r}")
    got = sql(F.overlay("s", "r", 3, 2))
    a, b, cst = consts["overlayHeadLen"]
    a2, b2, c2 = consts["overlayTailStart"]
    if (a, b, a2, b2) == (1, 0, 1, 1):
        want = f"CONCAT(SUBSTRING(s, {consts['overlayHeadStart']}, ({plus('3', cst)})), r, SUBSTRING(s, ({plus('3 + 2', c2)}), LENGTH(s)))"
        n += 1
        if got != want:
            bad.append(f"overlay(s, r, 3, 2): real DuckDB SQL {got!r} vs the model's shape {want!r}")

    n3, bad3 = stream_a_compose(ctx, consts)
    n += n3
    bad += bad3

    # the dispatch table vs the running code: which alternative does each DuckDB function really call?
    disp = outs[-1]
    n2, bad2 = check_dispatch(disp["rows"])
    if disp.get("unaccounted"):
        bad.append(f"dispatch rows not accounted for by the model: {disp['unaccounted'][:8]}")
    return n + n2, bad + bad2


def _dpipe_operands(e: t.Any) -> t.List[t.Tuple[str, str]]:
    from sqlglot import exp

    if isinstance(e, exp.DPipe):
        return _dpipe_operands(e.this) + _dpipe_operands(e.expression)
    if isinstance(e, exp.Literal):
        return [("seg", str(e.this))]
    if isinstance(e, exp.Column):
        return [("arg", e.name)]
    return [("other", e.sql())]


def stream_a_compose(ctx: Ctx, consts: t.Dict[str, t.Any]) -> t.Tuple[int, t.List[str]]:
    """each definition of Gen/EmulCompose.lean against the object the running code builds"""
    from sqlglot import exp

    from sqlframe.duckdb import functions as F

    bad: t.List[str] = []
    n = 0
    # levenshtein's CASE
    e = F.levenshtein("a", "b", 3).expression.unalias()
    n += 1
    try:
        assert isinstance(e, exp.Case) and len(e.args["ifs"]) == 1
        w = e.args["ifs"][0]
        cond = w.this

        def operand(x: t.Any) -> str:
            return "distance" if isinstance(x, exp.Levenshtein) else ("threshold" if isinstance(x, exp.Literal) and str(x.this) == "3" else x.sql())

        real = {"levThresholdCmp": type(cond).__name__.upper(), "levThresholdLeft": operand(cond.this), "levThresholdRight": operand(cond.expression), "levThresholdThen": operand(w.args["true"]), "levThresholdElse": int(e.args["default"].sql())}
        gen = {k: consts.get(k) for k in real}
        if real != gen:
            bad.append(f"levenshtein(a, b, 3): the running code builds {real}, Gen.EmulCompose says {gen}")
    except Exception as ex:  # noqa
        bad.append(f"levenshtein(a, b, 3): the running code builds {e.sql()!r}, which is not the CASE Gen.EmulCompose describes ({type(ex).__name__})")
    if F.levenshtein("a", "b").expression.unalias().sql(dialect="duckdb") != "LEVENSHTEIN(a, b)":
        bad.append("levenshtein(a, b) without a threshold is no longer the bare engine function")
    # format_string_with_pipes: operand sequence of the real `||` chain vs the model's split + pieces
    rng = ctx.rng
    fmts = ["%s", "%s%s", "a%sb%dc", "%d%s", "k=%s%s%d;", "%%s%s", "x%%d%s%s", "%s%", "%"]
    for _ in range(60 if ctx.thorough else 25):
        k = rng.randint(1, 4)
        fmts.append("".join(rng.choice(["", "", "a", "k=", " ", "%%", "%", "-"]) + rng.choice(["%s", "%d"]) for _ in range(k)) + rng.choice(["", "", ";", "%"]))
    splits = vlib.run_driver(ID, [{"case": i, "op": "split_fmt", "str": f} for i, f in enumerate(fmts)])
    pieces = {k: consts.get(k) for k in ("fmtInit", "fmtLast", "fmtMid")}
    for f, o in zip(fmts, splits):
        values = o.get("prim")
        ncols = len(values) - consts.get("fmtArityOffset", 1)
        if ncols < 1 or None in pieces.values():
            continue
        n += 1
        cols = [f"c{i}" for i in range(ncols)]
        try:
            real_ops = _dpipe_operands(F.format_string(f, *cols).expression.unalias())
        except Exception as ex:  # noqa
            bad.append(f"format_string({f!r}, {ncols} columns): the model splits into {values} and expects a splice, the running code raises {type(ex).__name__}")
            continue

        def emit(ps: t.List[str], i: int) -> t.List[t.Tuple[str, str]]:
            return [("seg", values[i]) if p == "seg" else ("arg", cols[i]) for p in ps]

        want = emit(pieces["fmtInit"], 0)
        for i in range(1, len(values)):
            want += emit(pieces["fmtLast"] if i == ncols else pieces["fmtMid"], i)
        # `x || ''` is x: empty text operands carry no value and are not compared
        if [o for o in real_ops if o != ("seg", "")] != [o for o in want if o != ("seg", "")]:
            bad.append(f"format_string({f!r}, {', '.join(cols)}): the running code joins {real_ops}, the model {want}")
    # Column.when / Column.otherwise: copy discipline observed on live objects
    x = F.col("x")
    for meth, flag, call in (("when", "whenCopiesReceiver", lambda b: b.when(x < 0, -1)), ("otherwise", "otherwiseCopiesReceiver", lambda b: b.otherwise(0))):
        base = F.when(x > 0, 1)
        before = base.expression.sql()
        d = call(base)
        live = (d.expression is not base.expression) and base.expression.sql() == before and not any(node is base.expression for node in d.expression.walk())
        n += 1
        if live != consts.get(flag):
            bad.append(f"Column.{meth}: on live objects the receiver is {'copied' if live else 'written / handed back'}, Gen.EmulCompose.{flag} = {consts.get(flag)}")
    n += 1
    if not isinstance(F.col("x").when(x > 0, 1).expression.unalias(), exp.Case):
        bad.append("Column.when on a non-CASE receiver does not start a fresh CASE")
    # nanvl / dayofweek shapes
    n += 2
    neg = "NOT " if consts.get("nanvlNegated") else ""
    nm = {"col1": "a", "col2": "b"}
    want = f"CASE WHEN {neg}ISNAN({nm.get(consts.get('nanvlTested'))}) THEN {nm.get(consts.get('nanvlThen'))} ELSE {nm.get(consts.get('nanvlElse'))} END"
    got = F.nanvl("a", "b").expression.unalias().sql(dialect="duckdb")
    if got.replace("NOT (ISNAN(a))", "NOT ISNAN(a)") != want:
        bad.append(f"nanvl(a, b): real DuckDB SQL {got!r} vs the model's shape {want!r}")
    got = F.dayofweek("d").expression.unalias().sql(dialect="duckdb")
    k = consts.get("dayofweekDuckAddend")
    if not (got.startswith("(DAYOFWEEK(") and got.endswith(f" + {k})")):
        bad.append(f"dayofweek(d): real DuckDB SQL {got!r} is not (DAYOFWEEK(…) + {k})")
    return n, bad


def gen_constants() -> t.Dict[str, t.Any]:
    """the generated constants: the text tools/gen_c17.py produces for vlib.REPO (the same text the theorems were
    compiled against in `prove`; regenerated in-process so that a concurrent check of another property, which
    rewrites Gen/ from its own repo, cannot interfere)"""
    out: t.Dict[str, t.Any] = {}
    try:
        sys.path.insert(0, os.path.join(vlib.VERIF, "tools"))
        import gen_c17  # type: ignore

        src = gen_c17.gen_emulations(vlib.REPO)
    except Exception:  # noqa
        return out
    try:
        src2 = gen_c17.gen_compose(vlib.REPO)
    except Exception:  # noqa
        # untranslatable now: the constants the model RUNS on are the baseline translation's
        try:
            src2 = open(os.path.join(vlib.VERIF, "lean", "GenBaseline", "EmulCompose.lean")).read()
        except Exception:  # noqa
            src2 = ""
    for m in re.finditer(r'^def (\w+) : String := "([^"]*)"$', src2, flags=re.M):
        out[m.group(1)] = m.group(2)
    for m in re.finditer(r"^def (\w+) : (?:Int|Nat) := (-?\d+)$", src2, flags=re.M):
        out[m.group(1)] = int(m.group(2))
    for m in re.finditer(r"^def (\w+) : Bool := (\w+)$", src2, flags=re.M):
        out[m.group(1)] = m.group(2) == "true"
    for m in re.finditer(r"^def (\w+) : List FmtPiece := \[(.*)\]$", src2, flags=re.M):
        out[m.group(1)] = [x.strip().split(".")[-1] for x in m.group(2).split(",") if x.strip()]
    m = re.search(r"^def columnSelfWriters : List String := \[(.*)\]$", src2, flags=re.M)
    if m:
        out["columnSelfWriters"] = [x.strip().strip('"') for x in m.group(1).split(",") if x.strip()]
    for m in re.finditer(r"^def (\w+) : Int := (-?\d+)$", src, flags=re.M):
        out[m.group(1)] = int(m.group(2))
    m = re.search(r"^def sequenceDefaultStep \(a b : Int\) : Int := (.+)$", src, flags=re.M)
    if m:
        out["sequenceDefaultStep_body"] = m.group(1).strip()
    m = re.search(r'^def rintDuckFunction : String := "(\w+)"$', src, flags=re.M)
    if m:
        out["rintDuckFunction"] = m.group(1)
    m = re.search(r"^def arrayPositionGuardsNull : Bool := (\w+)$", src, flags=re.M)
    if m:
        out["arrayPositionGuardsNull"] = m.group(1) == "true"
    for m in re.finditer(r"^def (\w+) : Int × Int × Int := \((-?\d+), (-?\d+), (-?\d+)\)$", src, flags=re.M):
        out[m.group(1)] = (int(m.group(2)), int(m.group(3)), int(m.group(4)))
    return out


def check_dispatch(rows: t.List[t.Any]) -> t.Tuple[int, t.List[str]]:
    """call every DuckDB function with typed dummies and see which alternative its own body calls"""
    import inspect

    import c16_trace as T

    T.install_stubs(vlib.REPO)
    session()
    import sqlframe.base.function_alternatives as FA
    from sqlframe.base.column import Column
    from sqlframe.duckdb import functions as F

    table = {r[0]: r[1][1] for r in rows}
    called: t.List[t.Tuple[str, str]] = []
    originals = {}
    for name, fn in list(vars(FA).items()):
        if inspect.isfunction(fn) and fn.__module__ == FA.__name__:
            originals[name] = fn

            def mk(name=name, fn=fn):
                def wrapper(*a, **k):
                    caller = sys._getframe(1).f_code.co_name
                    called.append((caller, name))
                    return fn(*a, **k)

                return wrapper

            setattr(FA, name, mk())
    bad: t.List[str] = []
    n = 0
    try:
        for fname, f in sorted(T.exported("duckdb").items()):
            try:
                sig = inspect.signature(f)
            except (TypeError, ValueError):
                continue
            del called[:]
            ok = False
            for variant in ("min", "full"):
                try:
                    params = [p for p in sig.parameters.values()]
                    tgt = params[0] if params else None
                    if tgt is None:
                        f()
                    else:
                        sub = 0
                        args, kwargs = T.build_call(F, fname, sig, tgt, sub, T.dummy_for(F, fname, tgt, 0), variant)
                        cols_in = [a for a in list(args) + list(kwargs.values()) if isinstance(a, Column)]
                        before = [a.expression.sql() for a in cols_in]
                        f(*args, **kwargs)
                        after = [a.expression.sql() for a in cols_in]
                        if before != after:
                            bad.append(f"purity: {fname}({variant}) wrote into a Column argument: {before} -> {after}")
                    ok = True
                except Exception:  # noqa
                    continue
            if not ok:
                continue
            n += 1
            direct = {alt for caller, alt in called if caller == fname}
            want = table.get(fname)
            if want in (None, "inline", "unsupported"):
                if want is None and direct:
                    bad.append(f"dispatch: {fname} on duckdb calls {sorted(direct)} but the generated table has no row")
            elif want not in direct:
                bad.append(f"dispatch: {fname} on duckdb calls {sorted(direct) or 'no alternative'} but the generated table says {want}")
    finally:
        for name, fn in originals.items():
            setattr(FA, name, fn)
    return n, bad


# ------------------------------------------------------------------------------------------------
# stream D: columns are values — programs with SHARED column objects vs the same programs on fresh objects;
# stream E: no Column method / function writes into the columns it is given (purity probes)
# ------------------------------------------------------------------------------------------------


def run_impl_fresh(progs: t.List[dict]) -> t.List[dict]:
    s = session()
    from sqlframe.duckdb import functions as F

    return [K.evaluate_prog(F, lambda rows, schema: s.createDataFrame(rows, schema), c, fresh=True) for c in progs]


def prog_reference(progs: t.List[dict]) -> t.List[t.Any]:
    """what PySpark's immutable columns make of each program: the Lean specification where the program is inside
    the model, else the same program built from fresh objects"""
    reqs = [to_req(c) for c in progs]
    outs: t.Dict[int, t.Any] = {}
    live = [(i, r) for i, r in enumerate(reqs) if r is not None]
    if live:
        try:
            for (i, _), o in zip(live, vlib.run_driver(ID, [dict(r, case=i) for i, r in live])):
                if "spec" in o:
                    outs[i] = o["spec"]
        except Exception:  # noqa
            pass
    rest = [i for i in range(len(progs)) if i not in outs]
    for i, r in zip(rest, run_impl_fresh([progs[i] for i in rest])):
        outs[i] = r.get("value", {"error": r.get("error")})
    return [outs[i] for i in range(len(progs))]


def _reindex(prog: t.List[dict], drop: int) -> t.Optional[t.List[dict]]:
    """the program without step `drop`; steps that referred to it now refer to what IT referred to (or vanish)"""
    out: t.List[dict] = []
    for j, st in enumerate(prog):
        if j == drop:
            continue
        st = dict(st)
        on = st.get("on")
        if on is not None:
            if on == drop:
                if prog[drop].get("on") is None:
                    return None
                on = prog[drop]["on"]
            st["on"] = on - 1 if on > drop else on
        out.append(st)
    return out if out and K.prog_valid(out) else None


def shrink_prog(c: dict) -> dict:
    """greedy: drop steps, then rows, while the shared-object program still differs from its reference"""

    def failing(cands: t.List[dict]) -> t.Optional[dict]:
        if not cands:
            return None
        got = run_impl(cands)
        ref = prog_reference(cands)
        for cand, g, r in zip(cands, got, ref):
            if not impl_is(g, r, False):
                return cand
        return None

    cur = c
    for _ in range(40):
        cands = []
        for j in range(len(cur["prog"]) - 1, -1, -1):
            p2 = _reindex(cur["prog"], j)
            if p2 is not None:
                cands.append(dict(cur, prog=p2))
        nxt = failing(cands)
        if nxt is None:
            break
        cur = nxt
    for _ in range(20):
        cands = [dict(cur, rows=cur["rows"][:j] + cur["rows"][j + 1 :]) for j in range(len(cur["rows"])) if len(cur["rows"]) > 1]
        nxt = failing(cands)
        if nxt is None:
            break
        cur = nxt
    return cur


def stream_d(ctx: Ctx, progs: t.List[dict], shared: t.List[dict]) -> t.Tuple[int, t.List[t.Tuple[dict, t.Any, t.Any]]]:
    """every program once more on FRESH objects (each binding rebuilt from scratch): PySpark's columns are immutable,
    so the two runs must agree binding by binding"""
    fresh = run_impl_fresh(progs)
    bad = []
    for c, a, b in zip(progs, shared, fresh):
        if "value" in b and not impl_is(a, b["value"], False):
            bad.append((c, a.get("value", {"error": a.get("error")}), b["value"]))
    return len(progs), bad


def _receivers(F: t.Any) -> t.List[t.Tuple[str, t.Callable[[], t.Any]]]:
    from sqlframe.base.window import Window

    x = lambda: F.col("x")  # noqa: E731
    return [
        ("col('x')", x),
        ("when(x > 0, 1)", lambda: F.when(x() > 0, 1)),
        ("when(x > 0, 1).when(x < 0, -1)", lambda: F.when(x() > 0, 1).when(x() < 0, -1)),
        ("when(x > 0, 1).otherwise(0)", lambda: F.when(x() > 0, 1).otherwise(0)),
        ("(x + 1)", lambda: x() + 1),
        ("abs(x)", lambda: F.abs(x())),
        ("x.alias('a')", lambda: x().alias("a")),
        ("x.cast('bigint')", lambda: x().cast("bigint")),
        ("lit(5)", lambda: F.lit(5)),
        ("sum(x).over(w)", lambda: F.sum(x()).over(Window.partitionBy("g").orderBy("x"))),
        ("coalesce(x, lit(0))", lambda: F.coalesce(x(), F.lit(0))),
    ]


def _method_args(F: t.Any, name: str) -> t.Optional[t.Tuple[tuple, dict]]:
    from sqlframe.base.window import Window

    one = {
        "when": (F.col("y") < 0, -1), "otherwise": (0,), "alias": ("n",), "cast": ("bigint",), "eqNullSafe": (1,), "startswith": ("a",),
        "endswith": ("a",), "rlike": ("a",), "like": ("a%",), "ilike": ("a%",), "substr": (1, 2), "isin": (1, 2), "between": (1, 3),
        "over": (Window.partitionBy("g").orderBy("y"),), "getItem": (0,), "getField": ("f",), "set_table_name": ("t",),
        "__pow__": (2,), "__rpow__": (2,), "name": ("n",), "astype": ("bigint",), "bitwiseAND": (1,), "bitwiseOR": (1,), "bitwiseXOR": (1,),
        "contains": ("a",), "withField": ("f", F.lit(1)), "dropFields": ("f",), "binary_op": None, "inverse_binary_op": None, "unary_op": None,
        "sql": (), "copy": (),
    }
    if name in one:
        return None if one[name] is None else (tuple(one[name]), {})
    return None


def stream_e(ctx: Ctx) -> t.Tuple[int, t.List[dict], t.Dict[str, t.Any]]:
    """call every public method of Column on receivers of several shapes and see whether the receiver (or a column
    derived from it earlier) still renders the same SQL; likewise the Column arguments of every exported function"""
    import inspect

    session()
    from sqlframe.base.column import Column
    from sqlframe.duckdb import functions as F

    n = 0
    bad: t.List[dict] = []
    writers: t.Set[str] = set()
    names = []
    for name, member in inspect.getmembers(Column):
        if not callable(member) or isinstance(inspect.getattr_static(Column, name), (classmethod, staticmethod, property)):
            continue
        if name.startswith("_") and not (name.startswith("__") and name.endswith("__")):
            continue
        if name in ("__init__", "__new__", "__repr__", "__hash__", "__getattr__", "__call__", "__class__", "__init_subclass__", "__subclasshook__", "__getattribute__", "__setattr__", "__delattr__", "__dir__", "__format__", "__reduce__", "__reduce_ex__", "__sizeof__", "__str__", "__getstate__", "__bool__", "__iter__"):
            continue
        names.append(name)
    skipped: t.List[str] = []
    for name in names:
        for rname, mk in _receivers(F):
            recv = mk()
            earlier = [(-recv), recv.alias("e")] if rname != "sum(x).over(w)" else [recv.alias("e")]
            before = [recv.expression.sql()] + [e.expression.sql() for e in earlier]
            try:
                m = getattr(recv, name)
                am = _method_args(F, name)
                if am is not None:
                    args, kwargs = am
                else:
                    sig = inspect.signature(m)
                    req = [p for p in sig.parameters.values() if p.default is inspect.Parameter.empty and p.kind in (p.POSITIONAL_ONLY, p.POSITIONAL_OR_KEYWORD)]
                    args, kwargs = tuple(1 for _ in req), {}
                res = m(*args, **kwargs)
            except Exception:  # noqa
                if rname == "col('x')":
                    skipped.append(name)
                continue
            n += 1
            after = [recv.expression.sql()] + [e.expression.sql() for e in earlier]
            aliased = isinstance(res, Column) and res.expression is recv.expression and name not in ("set_table_name",)
            if before != after:
                writers.add(name)
                bad.append({"method": name, "receiver": rname, "args": repr(args), "receiver_sql_before": before[0], "receiver_sql_after": after[0], "earlier_derived_before": before[1:], "earlier_derived_after": after[1:]})
            elif aliased and name in ("when", "otherwise"):
                bad.append({"method": name, "receiver": rname, "args": repr(args), "result_is_receivers_own_expression_object": True})
    info = {"column_methods_probed": len(names), "column_methods_not_callable_with_dummies": sorted(set(skipped)), "methods_that_wrote_into_the_receiver": sorted(writers)}
    return n, bad, info


ORDER_UNSTABLE = {"array_distinct", "array_union", "array_intersect", "array_except", "collect_set", "map_keys", "map_values", "map_entries"}
PURITY_API_EXEMPT = {"set_table_name"}  # sqlframe-internal, not part of PySpark's Column API (copy=False is its documented default)


# ------------------------------------------------------------------------------------------------
# live Spark (thorough tier)
# ------------------------------------------------------------------------------------------------


def live_spark(cases: t.List[dict], startup_timeout: int = 60) -> t.Optional[t.List[dict]]:
    """values from a live PySpark JVM for `cases`, or None when the JVM does not come up in time"""
    with tempfile.TemporaryDirectory() as d:
        fin, fout = os.path.join(d, "cases.json"), os.path.join(d, "out.json")
        json.dump(cases, open(fin, "w"))
        env = dict(os.environ, PYSPARK_PYTHON="/venv/bin/python")
        try:
            p = subprocess.run(
                ["/venv/bin/python", os.path.join(vlib.VERIF, "tools", "oracle", "mk_spark_values.py"), "--cases", fin, "--out", fout],
                capture_output=True, text=True, timeout=startup_timeout + 240, env=env,
            )
        except subprocess.TimeoutExpired:
            return None
        if p.returncode != 0 or not os.path.exists(fout):
            log("live Spark failed: " + (p.stderr or "")[-300:])
            return None
        return json.load(open(fout))


# ------------------------------------------------------------------------------------------------


def coverage_audit(cases: t.List[dict], disp_rows: t.Dict[str, str]) -> t.Dict[str, t.Any]:
    """which exported DuckDB functions no case calls at all, and which are never called with an optional parameter"""
    import inspect

    import c16_trace as T

    T.install_stubs(vlib.REPO)
    arities: t.Dict[str, t.Set[int]] = {}

    def walk(args: t.List[dict]) -> None:
        for a in args:
            if "e" in a:
                arities.setdefault(a["e"]["fn"], set()).add(len(a["e"]["args"]))
                walk(a["e"]["args"])

    for c in cases:
        arities.setdefault(c["fn"], set()).add(len(c["args"]) + len(c.get("xargs", [])))
        walk(c["args"])
        for k in ("pre", "post"):
            if c.get(k):
                arities.setdefault(c[k], set()).add(1)
    no_case, no_optional = [], []
    for f, fn in sorted(T.exported("duckdb").items()):
        if disp_rows.get(f) == "unsupported":
            continue
        try:
            ps = [p for p in inspect.signature(fn).parameters.values() if p.kind in (p.POSITIONAL_ONLY, p.POSITIONAL_OR_KEYWORD)]
        except (TypeError, ValueError):
            continue
        req = len([p for p in ps if p.default is inspect.Parameter.empty])
        opt = [p.name for p in ps if p.default is not inspect.Parameter.empty]
        if f not in arities:
            no_case.append(f)
        elif opt and max(arities[f]) <= req:
            no_optional.append(f"{f}({', '.join(opt)})")
    return {
        "emulations_of_the_dispatch_table_without_a_case": [f for f in no_case if disp_rows.get(f)],
        "pass_through_functions_without_a_case": [f for f in no_case if not disp_rows.get(f)],
        "functions_whose_optional_parameters_no_case_passes": no_optional,
    }


def _safe(f: t.Callable[[], t.Any]) -> t.Any:
    try:
        return f()
    except Exception as e:  # noqa
        return f"not computed: {type(e).__name__}: {str(e)[:120]}"


def local_known() -> t.Dict[str, dict]:
    known = {e["id"]: e for e in vlib.known_findings(ID)}
    path = os.path.join(HERE, "c17.known.json")
    if os.path.exists(path):
        for e in json.load(open(path)).get("findings", []):
            if e.get("property") == ID and e.get("status") == "open":
                known.setdefault(e["id"], e)
    return known


def show_case(c: dict) -> str:
    def a(x):
        if "c" in x:
            return f"col<{x['t']}>({x['c']!r})"
        if "l" in x:
            return f"lit({x['l']!r})"
        if "e" in x:
            return f"{x['e']['fn']}(" + ", ".join(a(y) for y in x["e"]["args"]) + ")"
        if "r" in x:
            return f"column<{x['t']}> of one group with rows {x['r']!r}"
        return repr(x["p"])

    if c["args"] and "r" in c["args"][0]:
        inner = f"{c['pre']}(v)" if c.get("pre") else "v"
        s = f"{c['fn']}({', '.join([inner] + [repr(x) for x in c.get('xargs', [])])})"
        if c.get("post"):
            s = f"{c['post']}({s})"
        return f"groupBy(g).agg({s})  where v = {a(c['args'][0])}"

    if c["fn"] == "getItem":
        return f"{a(c['args'][0])}.getItem({a(c['args'][1])})"
    if c["fn"] == "prog":
        return show_prog(c["prog"]) + f"   over rows x = {c['rows']!r}"
    return f"{c['fn']}(" + ", ".join(a(x) for x in c["args"]) + ")"


def show_prog(prog: t.List[dict]) -> str:
    out = ["x = col('x')"]
    for j, st in enumerate(prog):
        cond = f"x {st['cond'][0]} {st['cond'][1]}" if "cond" in st else ""
        b = f"b{st['on']}" if st.get("on") is not None else ""
        rhs = {
            "start": f"when({cond}, lit({st.get('val')}))", "when": f"{b}.when({cond}, lit({st.get('val')}))", "otherwise": f"{b}.otherwise(lit({st.get('val')}))",
            "neg": f"-{b}", "add": f"{b} + {st.get('k')}", "mul": f"{b} * {st.get('k')}", "abs": f"abs({b})", "alias": f"{b}.alias({st.get('name')!r})",
            "cast": f"{b}.cast('bigint')", "coalesce": f"coalesce({b}, lit({st.get('k')}))", "isNull": f"{b}.isNull()",
        }.get(st["op"], st["op"])
        out.append(f"b{j} = {rhs}")
    return "; ".join(out) + f"; select(b0 … b{len(prog) - 1})"


def run(ctx: Ctx) -> None:
    idx = vlib.props_index()[ID]
    vlib.prove(ctx, MODULES, GEN, idx["theorems"], SOURCES)
    known = local_known()
    log(f"C17: proved, {ctx.elapsed():.1f}s; broken={ctx.broken}")

    rec = json.load(open(ORACLE))
    fixed = K.all_cases()
    rec_by_id = {c["id"]: c for c in rec["cases"]}
    def _key(c: dict) -> str:
        return json.dumps([c["fn"], c["args"], c.get("pre"), c.get("post")], sort_keys=True)

    _key = K.case_key
    stale = [c["id"] for c in fixed if c["id"] not in rec_by_id or _key(rec_by_id[c["id"]]) != _key(c)]
    if stale:
        ctx.broken.append(f"tools/oracle/spark_values.json is stale for {len(stale)} cases (re-record it): {stale[:3]}")
    n_rand = 2200 if ctx.thorough else 420
    rand = K.random_emulation_cases(ctx.rng, n_rand)

    # Spark values: recorded for the fixed cases; for the random ones the JVM (thorough) or none
    spark_fixed = [rec_by_id.get(c["id"], {}).get("spark", {"error": "not recorded"}) for c in fixed]
    spark_rand: t.Optional[t.List[dict]] = None
    jvm = "not started (quick tier: recorded values only)"
    if ctx.thorough:
        spark_rand = live_spark(rand)
        jvm = "live PySpark JVM evaluated the seeded cases" if spark_rand is not None else "JVM did not come up: recorded values only"
    cases = fixed + rand
    spark = spark_fixed + (spark_rand if spark_rand is not None else [None] * len(rand))

    impl = run_impl(cases)
    log(f"C17: implementation ran {len(cases)} cases, {ctx.elapsed():.1f}s")

    # dispatch classification of every function from the generated table
    disp_rows: t.Dict[str, str] = {}
    try:
        d = vlib.run_driver(ID, [{"case": 0, "op": "dispatch"}])[0]
        disp_rows = {r[0]: r[1][1] for r in d["rows"]}
    except Exception as e:  # noqa
        ctx.broken.append(f"driver C17 failed: {str(e)[:200]}")

    reqs = [(i, to_req(c)) for i, c in enumerate(cases)]
    reqs = [(i, r) for i, r in reqs if r is not None]
    model: t.Dict[int, dict] = {}
    try:
        outs = vlib.run_driver(ID, [dict(r, case=i) for i, r in reqs])
        for (i, _), o in zip(reqs, outs):
            if "err" in o:
                raise RuntimeError(str(o))
            if not o.get("unmodelled"):
                model[i] = o
    except Exception as e:  # noqa
        ctx.broken.append(f"driver C17 failed: {str(e)[:200]}")

    spec_bad, model_bad, failing, native_obs = [], [], [], []
    emul_unmodelled_fail = []
    groups = collections.Counter()
    nontrivial = set()
    n_spec_checked = 0
    for i, c in enumerate(cases):
        r, sp, m = impl[i], spark[i], model.get(i)
        groups[c["group"]] += 1
        own = c["group"].startswith("emul") or disp_rows.get(c["fn"]) not in (None, "unsupported")
        iv = r.get("value") if "value" in r else {"error": r.get("error")}
        if "value" in r and r["value"] not in (None, [], 0, ""):
            nontrivial.add(json.dumps([c["fn"], c["args"]], sort_keys=True, default=str))
        spv = sp.get("value") if (sp is not None and "value" in sp) else None
        has_spark = sp is not None and "value" in sp
        if m is not None:
            ev, sv = model_value(c, m, "emul"), model_value(c, m, "spec")
            in_domain = not (c["fn"] == "factorial" and not (0 <= _arg(c["args"][0]) <= 20))
            if has_spark and sv != RAISES:  # RAISES on the spec side = a format the specification's formatter does not model
                n_spec_checked += 1
                if not K.same_value(sv, spv, c["unordered"]):
                    spec_bad.append((c, sv, spv))
            if in_domain and not impl_is(r, ev, c["unordered"]):
                model_bad.append((c, ev, iv))
            ref = spv if has_spark else sv
            if ref == RAISES:
                continue  # a format outside the specification's formatter and without a recorded Spark value: no reference
            if in_domain and not impl_is(r, ref, c["unordered"]):
                failing.append((c, iv, ref, m, ev))
        elif has_spark:
            agree = "value" in r and K.same_value(r["value"], spv, c["unordered"])
            if not agree:
                (emul_unmodelled_fail if own else native_obs).append((c, iv, spv))

    if spec_bad:
        c, sv, spv = spec_bad[0]
        ctx.broken.append(f"stream C (sparkSpec_f vs PySpark): {len(spec_bad)} cases differ; first: {show_case(c)} spec={sv!r} PySpark={spv!r}")
    if model_bad:
        c, ev, iv = model_bad[0]
        ctx.broken.append(f"implementation vs emul_f (Impl/C17.lean): {len(model_bad)} cases differ; first: {show_case(c)} model={ev!r} sqlframe-on-DuckDB={iv!r}")

    nb, bad_b = stream_b(ctx, 400 if ctx.thorough else 60)
    if bad_b:
        ctx.broken.append(f"stream B (DuckDB primitives vs assumed meaning): {len(bad_b)} of {nb} differ; first: {bad_b[0]}")
    na, bad_a = 0, []
    try:
        na, bad_a = stream_a(ctx)
    except Exception as e:  # noqa
        bad_a = [f"stream A crashed: {type(e).__name__}: {str(e)[:200]}"]
    if bad_a:
        ctx.broken.append(f"stream A (real expression / SQL / dispatch vs the model's shape): {len(bad_a)} differ; first: {bad_a[0]}")
    prog_idx = [i for i, c in enumerate(cases) if c["fn"] == "prog"]
    nd, bad_d = 0, []
    ne, bad_e, info_e = 0, [], {}
    try:
        nd, bad_d = stream_d(ctx, [cases[i] for i in prog_idx], [impl[i] for i in prog_idx])
    except Exception as e:  # noqa
        ctx.broken.append(f"stream D crashed: {type(e).__name__}: {str(e)[:200]}")
    try:
        ne, bad_e, info_e = stream_e(ctx)
        writers = set(info_e.get("methods_that_wrote_into_the_receiver", []))
        gen_writers = set(gen_constants().get("columnSelfWriters", []))
        if not writers <= gen_writers:
            ctx.broken.append(f"stream E: Column methods {sorted(writers - gen_writers)} write into their receiver on live objects but Gen.EmulCompose.columnSelfWriters = {sorted(gen_writers)}")
    except Exception as e:  # noqa
        ctx.broken.append(f"stream E crashed: {type(e).__name__}: {str(e)[:200]}")
    log(f"C17: streams done, {ctx.elapsed():.1f}s; broken={ctx.broken}")

    # classify failing inputs of modelled emulations
    new_viol = []
    hits: t.Dict[str, int] = collections.Counter()
    for c, iv, ref, m, ev in failing:
        predicted = (ev == RAISES and isinstance(iv, dict) and str(iv.get("error", "")).startswith("build:")) or (
            not (isinstance(iv, dict) and "error" in iv) and K.same_value(ev, iv, c["unordered"])
        )
        if predicted and m["scope"] and all(h in known for h in m["scope"]):
            for h in m["scope"]:
                hits[h] += 1
        else:
            new_viol.append((c, iv, ref, m.get("scope"), ev))
    # programs whose shared-object run differs from the fresh-object run (and that the loop above did not already list)
    listed = {id(x[0]) for x in new_viol}
    for c, shared_v, fresh_v in bad_d:
        if id(c) not in listed:
            new_viol.append((c, shared_v, fresh_v, None, None))
    # failing inputs of unmodelled emulations (sqlframe's own composition, compared by value only)
    for c, iv, spv in emul_unmodelled_fail:
        # a known finding of an unmodelled emulation names the EXACT failing cases (function, arguments, pre, post):
        # any other failing input of the same function is a new violation
        ck = json.dumps([c["fn"], c["args"], c.get("pre"), c.get("post")] + ([c["xargs"]] if "xargs" in c else []), sort_keys=True)
        ks = [h for h, e in known.items() if ck in {json.dumps(k, sort_keys=True) for k in e.get("known_cases", [])}]
        if ks:
            for h in ks:
                hits[h] += 1
        else:
            new_viol.append((c, iv, spv, None, None))
    # the BigQuery factorial CASE table (cannot be executed here): generated table vs n!, and the table vs the real SQL text
    try:
        outs_f = vlib.run_driver(ID, [{"case": n, "op": "factorial_case", "n": n} for n in range(0, 21)])
        import c16_trace as T

        T.install_stubs(vlib.REPO)
        T.make_session("bigquery")
        bq_sql = T.functions_module("bigquery").factorial("x").expression.sql(dialect="bigquery")
        global _S
        _S = None  # the session class is a process-wide singleton: the DuckDB session is rebuilt on next use
        for n, o in enumerate(outs_f):
            if o["emul"] is not None and f"x = {n} THEN {o['emul']}" not in bq_sql:
                ctx.broken.append(f"Gen.Emul.factorialTable row {n} -> {o['emul']} is not in the real BigQuery SQL of factorial(x)")
            if n >= 1 and o["emul"] != o["spec"]:
                new_viol.append(({"fn": "factorial", "args": [{"c": n, "t": "int"}], "group": "emul:factorial(bigquery CASE table)", "unordered": False}, {"bigquery_case_table_value": o["emul"], "sql_fragment": f"WHEN x = {n} THEN {o['emul']}"}, o["spec"], None, o["emul"]))
        ctx.cov["bigquery_factorial_table"] = {"rows_checked_against_real_sql": sum(1 for o in outs_f if o["emul"] is not None), "row_0": "absent: factorial(0) is NULL on BigQuery where Spark returns 1 (outside C17's DuckDB scope; theorem C17_factorial_table_zero)" if outs_f[0]["emul"] is None else "present"}
    except Exception as e:  # noqa
        ctx.broken.append(f"BigQuery factorial table check failed: {type(e).__name__}: {str(e)[:160]}")

    # pass-through functions: their values are the engine's / sqlglot's and are not claimed — but the engine and sqlglot are
    # pinned, so a recorded case that agreed with Spark on the unchanged tree and no longer does has been changed by
    # sqlframe (argument order, optional-argument handling, a wrapper in the default body): a concrete failing input.
    # The observations of the unchanged tree are listed in c17_native_observations.json (C17_RECORD_NATIVE_OBS=1 rewrites it).
    obs_path = os.path.join(HERE, "c17_native_observations.json")
    if os.environ.get("C17_RECORD_NATIVE_OBS") == "1":
        json.dump({"_doc": "recorded cases of pass-through (engine-native) functions on which sqlframe on DuckDB 1.2.2 does not return PySpark 3.5.9's value on the unchanged tree: unclaimed observations (root cause in the engine / sqlglot), listed so that any OTHER disagreement of a pass-through function is reported as new",
                   "observations": [{"key": K.case_key(c), "call": show_case(c), "sqlframe_on_duckdb": iv, "spark": spv} for c, iv, spv in native_obs]}, open(obs_path, "w"), indent=1, default=str)
    listed_obs = set()
    if os.path.exists(obs_path):
        listed_obs = {o["key"] for o in json.load(open(obs_path)).get("observations", [])}
    n_new_native = 0
    for c, iv, spv in native_obs:
        if K.case_key(c) in listed_obs:
            continue
        if c["fn"] in ORDER_UNSTABLE and isinstance(iv, list) and K.same_value(iv, spv, True):
            continue  # the engine leaves the element order open: only a different SET of elements counts here
        n_new_native += 1
        new_viol.append((dict(c, group="native:changed"), iv, spv, None, None))
    ctx.cov["native_cases_that_newly_disagree"] = n_new_native

    # failing-input search after a broken obligation: the value mismatches of the argument-order functions
    # (normally native, unclaimed) are now candidates — a swapped argument shows up here
    if ctx.broken:
        already = {id(x[0]) for x in new_viol} | {K.case_key(x[0]) for x in new_viol}
        for c, iv, spv in native_obs:
            if c["group"].startswith("argorder") and K.case_key(c) not in already:
                new_viol.append((c, iv, spv, None, None))
    for h in sorted(hits):
        vlib.report_known(ctx, known[h], f"{known[h]['summary']} [{hits[h]} failing cases in this run]")

    # replay recorded witnesses
    for h, e in known.items():
        w = e.get("witness")
        if w and "fn" in w:
            r = run_impl([w])[0]
            if not ("value" in r and K.same_value(r["value"], e.get("spark_value"), False)):
                vlib.report_known(ctx, e, f"{e['summary']} [{hits.get(h, 0)} failing cases in this run]")

    reported = 0
    seen_fn = set()
    for b in bad_e:
        if b["method"] in PURITY_API_EXEMPT or b["method"] in seen_fn or reported >= 5:
            continue
        seen_fn.add(b["method"])
        vlib.report_violation(ctx, {"kind": "a Column method writes into the column it is called on (PySpark columns are immutable): the receiver, or a column derived from it earlier, renders different SQL afterwards", "purity_probe": b, "broken": ctx.broken})
        reported += 1
    seen_fn = set()
    for c, iv, ref, scope, ev in sorted(new_viol, key=lambda x: len(json.dumps([x[0]["args"], x[0].get("prog")], default=str))):
        if c["fn"] in seen_fn or reported >= 5:
            continue
        seen_fn.add(c["fn"])
        if c["fn"] == "prog":
            try:
                c = shrink_prog(c)
                iv = run_impl([c])[0]
                iv = iv.get("value", {"error": iv.get("error")})
                ref = prog_reference([c])[0]
                mo = vlib.run_driver(ID, [dict(to_req(c), case=0)])[0] if to_req(c) else {}
                ev = mo.get("emul")
            except Exception as e:  # noqa
                log(f"C17: shrinking failed: {e}")
        vlib.report_violation(
            ctx,
            {
                "kind": "a column kept in a variable and used more than once does not mean what PySpark's immutable column means (every binding is evaluated after all were built)" if c["fn"] == "prog" else "the BigQuery factorial CASE table has a row that is not n!" if "bigquery" in c["group"] else ("sqlframe on DuckDB does not hand back the Python value PySpark returns (conversion of engine values to Rows)" if c["group"] == "emul:rowconv" else "a pass-through function no longer returns the recorded Spark value (it did on the unchanged tree; engine and sqlglot are pinned)" if c["group"] == "native:changed" else "sqlframe on DuckDB does not return Spark's value for an emulated function"),
                "call": show_case(c),
                "case": {k: c[k] for k in ("fn", "args", "group", "unordered", "pre", "post", "xargs", "prog", "rows", "tag") if k in c},
                "sqlframe_on_duckdb": iv,
                "spark": ref,
                "model_emul": ev,
                "violated_scope_hypotheses": scope,
                "broken": ctx.broken,
            },
        )
        reported += 1
    if ctx.broken and not reported:
        vlib.report_violation(
            ctx,
            {"kind": "proof obligation or correspondence no longer checks; no failing input found", "broken": ctx.broken, "searched": {"cases": len(cases)}},
            no_input=True,
        )

    # evidence ---------------------------------------------------------------------------------------
    fn_status: t.Dict[str, str] = {}
    try:
        import c16_trace as T

        T.install_stubs(vlib.REPO)
        for fname in sorted(T.exported("duckdb")):
            row = disp_rows.get(fname)
            if fname in MODELLED:
                fn_status[fname] = "emulation (proved)" + (f" under {OPEN_HYPOTHESES[fname]} (open finding)" if fname in OPEN_HYPOTHESES and OPEN_HYPOTHESES[fname] in known else "")
            elif row not in (None, "unsupported"):
                fn_status[fname] = "emulation (unmodelled: compared by value only)"
            else:
                fn_status[fname] = "native (unclaimed)"
    except Exception:  # noqa
        pass
    obs = collections.defaultdict(list)
    for c, iv, spv in native_obs:
        obs[c["fn"]].append({"call": show_case(c), "sqlframe_on_duckdb": iv, "spark": spv})
    ctx.cov.update(
        {
            "evaluations": len(cases) + nb + na + nd + ne,
            "distinct_nontrivial": len(nontrivial),
            "rule": "fixed case set recorded from live PySpark (emulated functions over index/length/step grids + a broad sample of native functions) plus seeded random cases of the modelled emulations; "
            "non-trivial = distinct (function, arguments) for which sqlframe on DuckDB returns a value other than NULL / [] / 0 / ''",
            "cases_by_group": dict(groups),
            "spec_vs_pyspark_checked": n_spec_checked,
            "spec_vs_pyspark_differ": len(spec_bad),
            "traces_validated_against_impl": len(model) - len(model_bad),
            "impl_vs_model_differ": len(model_bad),
            "impl_vs_spark_failing_modelled": len(failing),
            "impl_vs_spark_failing_unmodelled_emulations": len(emul_unmodelled_fail),
            "coverage_audit": _safe(lambda: coverage_audit(cases, disp_rows)),
            "stream_b_primitive_checks": nb,
            "stream_d_programs_shared_vs_fresh": nd,
            "stream_d_differ": len(bad_d),
            "stream_e_purity_probes": ne,
            "stream_e": info_e,
            "stream_a_shape_checks": na,
            "jvm": jvm,
            "function_status": fn_status,
            "function_status_counts": dict(collections.Counter(fn_status.values())),
            "native_unclaimed_observations": {k: v[:3] for k, v in sorted(obs.items())},
            "native_unclaimed_observation_count": len(native_obs),
            "samples": [{"call": show_case(c), "sqlframe_on_duckdb": impl[i].get("value", impl[i].get("error")), "spark": (spark[i] or {}).get("value") if spark[i] else None, "model": model.get(i)} for i, c in list(enumerate(cases))[:: max(1, len(cases) // 6)][:6]],
        }
    )
    ctx.assumptions += [
        "DuckDB 1.2.2 primitives mean what Impl/C17.lean `duck…` says (validated on generated inputs by stream B on every run)",
        "sqlglot renders a Spark-dialect Bracket index k for DuckDB as k + 1 and passes anonymous functions through unchanged (validated by stream A's SQL texts)",
        "Spark's values are those recorded from live PySpark 3.5.9 (local[1], UTC, ANSI off) in tools/oracle/spark_values.json" + ("; thorough tier: " + jvm if ctx.thorough else ""),
        "the values of engine-native pass-through functions are NOT decided by this technique: see function_status (native/unclaimed) and native_unclaimed_observations; a recorded native case outside tools/props/c17_native_observations.json (the disagreements of the unchanged tree) that disagrees with Spark is reported as a violation",
        "DuckDB LEVENSHTEIN / DAYOFWEEK mean what duckLevenshtein / duckDayOfWeek say (stream B); `||` renders integer and text columns the way %d / %s do for the in-domain values used",
        "sqlglot trees: a node handed to a new parent is shared, not copied (HExpr.un refers to the receiver's CASE object); exp.cast copies (programs with cast / isNull are compared by value only)",
        "the 'on Spark itself' clause is not exercised: sqlframe's SparkSession engine passes functions through to the same JVM (no emulation branch is taken for `_is_spark`, see Gen.Emul.dispatch)",
    ]


OPEN_HYPOTHESES = {"slice": "H_sliceNegativeStart", "sequence": "H_sequenceDefaultStep", "rint": "H_rintTies", "array_position": "H_arrayPositionNullArray",
                   "format_string": "H_formatPlainPlaceholders", "levenshtein": "H_levenshteinNullInput", "nanvl": "H_nanvlNullInput", "soundex": "H_soundexFirstLetter"}
MODELLED = {"soundex", "factorial", "element_at", "try_element_at", "slice", "array_position", "sequence", "rint", "log1p", "expm1", "overlay", "date_add", "date_sub", "array_min", "array_max", "locate", "instr", "lpad", "rpad", "substring",
            "levenshtein", "format_string", "nanvl", "dayofweek"}


def replay(ctx: Ctx, rp: dict) -> None:
    c = rp.get("case")
    if rp.get("purity_probe"):
        b = rp["purity_probe"]
        n, bad, _ = stream_e(ctx)
        again = [x for x in bad if x["method"] == b["method"] and x["receiver"] == b["receiver"]]
        print(json.dumps({"probe": {k: b.get(k) for k in ("method", "receiver", "args")}, "still_writes_into_the_receiver": bool(again), "now": again[:1]}, indent=1, default=str))
        if again:
            vlib.report_violation(ctx, dict(rp, purity_probe=again[0]))
        return
    if c and c.get("fn") == "prog":
        r = run_impl([c])[0]
        fresh = run_impl_fresh([c])[0]
        ref = prog_reference([c])[0]
        print(json.dumps({"program": show_case(c), "sqlframe_on_duckdb_shared_objects": r, "sqlframe_on_duckdb_fresh_objects": fresh, "pyspark_meaning": ref, "recorded_spark": rp.get("spark")}, indent=1, default=str))
        if not impl_is(r, ref, False) or (rp.get("spark") is not None and not impl_is(r, rp.get("spark"), False)):
            vlib.report_violation(ctx, dict(rp, sqlframe_on_duckdb=r))
        return
    if not c:
        print("replay names a broken obligation, not an input:", rp.get("broken"))
        return
    if "bigquery" in c.get("group", ""):
        import c16_trace as T

        T.install_stubs(vlib.REPO)
        T.make_session("bigquery")
        sql = T.functions_module("bigquery").factorial("x").expression.sql(dialect="bigquery")
        frag = (rp.get("sqlframe_on_duckdb") or {}).get("sql_fragment", "")
        print(json.dumps({"call": show_case(c), "bigquery_sql_has_fragment": frag in sql, "fragment": frag, "expected": rp.get("spark")}, indent=1))
        if frag and frag in sql:
            vlib.report_violation(ctx, rp)
        return
    r = run_impl([c])[0]
    print(json.dumps({"call": show_case(c), "sqlframe_on_duckdb": r, "spark": rp.get("spark")}, indent=1, default=str))
    if not impl_is(r, rp.get("spark"), c.get("unordered", False)):
        vlib.report_violation(ctx, dict(rp, sqlframe_on_duckdb=r))
