"""
C10 — column names: case-insensitive lookup, case-preserving output, safe quoting; the four views agree.

proof   : lean/SqlframeModel/Props/C10.lean over the regenerated Gen/Names.lean (tools/gen_c10.py)
tie     : every generated program is run on the REAL sqlframe + DuckDB; df.columns, Row fields of collect(),
          df.schema names and toPandas() columns are compared with the four views of the Lean model, which is
          evaluated with the REAL name functions (sqlglot's normalisation, the display-map key, the engine's
          typed-column name) passed as finite tables; the laws the proofs assume about them are checked on the
          same tables; the quoted identifiers of the executed statement are lexed by the Lean scanner
search  : the same stream compares the four views with PySpark's spelling rule (Lean `specRun`)
"""
from __future__ import annotations

import json
import os
import random
import typing as t
import warnings

import vlib
from vlib import Ctx, log

ID = "C10"
LEVEL = "proof"
MODULES = ["SqlframeModel.Codec.C09", "SqlframeModel.Codec.C10", "SqlframeModel.Props.C10"]
GEN = ["Names"]
SOURCES = [
    "SqlframeModel/Props/C10.lean",
    "SqlframeModel/Lemmas/C10.lean",
    "SqlframeModel/Lemmas/C10Steps.lean",
    "SqlframeModel/Lemmas/C09Lex.lean",
    "SqlframeModel/Impl/C10Names.lean",
    "SqlframeModel/Impl/C09Lex.lean",
]

_S: t.Dict[str, t.Any] = {}


def S() -> t.Dict[str, t.Any]:
    if not _S:
        warnings.filterwarnings("ignore")
        sess = vlib.fresh_duckdb_session()
        from sqlframe.duckdb import functions as F

        _S.update(sess=sess, F=F, log=[])
        orig = sess._execute

        def _exec(sql: str) -> None:
            _S["log"].append(sql)
            return orig(sql)

        sess._execute = _exec  # type: ignore
    return _S


# ------------------------------------------------------------------------------------------------
# the real name functions
# ------------------------------------------------------------------------------------------------


def low(s: str) -> str:
    """normalised text of a name: what `Column.alias` / `col()` do (parse_identifier + normalize_identifiers)"""
    from sqlglot import exp
    from sqlglot.optimizer.normalize_identifiers import normalize_identifiers

    d = S()["sess"].input_dialect
    e = normalize_identifiers(exp.parse_identifier(s, dialect=d), dialect=d)
    return e.name


def key(txt: str, raw: bool = False) -> str:
    """display-map key of an identifier text: `quote_preserving_alias_or_name`"""
    from sqlglot import exp

    from sqlframe.base.util import quote_preserving_alias_or_name

    if raw:  # toDF: exp.alias_(col, new_col)
        return quote_preserving_alias_or_name(exp.alias_(exp.column("x"), txt))
    F = S()["F"]
    try:
        return F.col("x").alias(txt).alias_or_name  # the key `alias()` / withColumn / withColumnRenamed write
    except Exception:  # noqa
        return F.col(txt).alias_or_name


def back(name: str) -> str:
    """what `_BaseSession._collect` makes of an engine result-column name (same calls as the real code)"""
    from sqlglot import exp

    from sqlframe.base.util import normalize_string

    sess = S()["sess"]
    col_id = exp.parse_identifier(name, dialect=sess.execution_dialect)
    col_id._meta = {"case_sensitive": True, **(col_id._meta or {})}
    return normalize_string(col_id, from_dialect="execution", to_dialect="output", to_string_literal=True)


def reserved(name: str) -> bool:
    """does the name's own text fail to parse as an ordering term (sqlglot's lexical fact)?"""
    import sqlglot
    from sqlglot import exp

    st = S()
    d = st["sess"].input_dialect
    try:
        txt = st["F"].col(name).expression.sql(dialect=d)
        sqlglot.parse_one(f"{txt} ", dialect=d, into=exp.Ordered)
        return False
    except Exception:  # noqa
        return True


# ------------------------------------------------------------------------------------------------
# generators
# ------------------------------------------------------------------------------------------------

RESERVED = ["select", "order", "from", "table", "group", "by", "where", "join", "case", "end", "in", "as", "on", "all", "distinct", "limit", "values", "union", "having", "with"]
PLAIN = ["Kx", "v", "Abc", "userId", "TOTAL", "mIxEd", "x_1", "Z"]
SPACED = ["a b", "New Name", "Big Name X", "x y z", "Per Cent"]  # keyword phrases ("Group By"): witness + corpus only
DIGIT = ["1x", "2Fast", "9_z", "4th"]
UNI = ["Ünï", "café", "Ñandú", "Имя", "λx", "名前", "Éa"]
QUOTEY = ['a"b', 'say "hi"', "it's", "per%cent", "back\\slash", "paren(x)", "q?", "a-b", "a+b", "hash#1", 'x""y', '"']


def gen_name(rng: random.Random, used: t.Set[str], pool: t.Optional[t.List[str]] = None) -> str:
    for _ in range(50):
        p = pool or rng.choice([PLAIN, PLAIN, RESERVED, SPACED, DIGIT, UNI])
        n = rng.choice(p)
        if rng.random() < 0.3:
            n = rng.choice([n.upper(), n.lower(), n.title(), n.swapcase()])
        if low(n) not in used and n.strip() == n and len(low(n)) == len(n):
            return n
        pool = None
    raise RuntimeError("name pool exhausted")


def variant(rng: random.Random, n: str) -> str:
    for _ in range(10):
        v = rng.choice([n, n, n.upper(), n.lower(), n.swapcase(), "".join(c.upper() if rng.random() < 0.5 else c.lower() for c in n)])
        if len(v) == len(n) and low(v) == low(n):
            return v
    return n


STEP_KINDS = ["select", "withColumn", "withColumnRenamed", "where", "orderBy", "limit", "distinct", "drop", "fillna", "dropDuplicates", "toDF", "groupAgg", "join", "unionByName", "unionByNameMissing"]
IN_SCOPE_KINDS = ["select", "withColumn", "withColumnRenamed", "where", "orderBy", "limit", "distinct", "unionByName"]


def spec_step(sp: t.List[str], s: dict) -> t.List[str]:
    """PySpark's spelling rule (mirror of Lean `specStep`, used by the generator only)"""
    k = s["k"]
    if k == "select":
        return [it["s"] for it in s["items"]]
    if k == "withColumn":
        if low(s["n"]) in [low(x) for x in sp]:
            return [s["n"] if low(x) == low(s["n"]) else x for x in sp]
        return sp + [s["n"]]
    if k == "withColumnRenamed":
        return [s["b"] if low(x) == low(s["a"]) else x for x in sp]
    if k == "drop":
        return [x for x in sp if low(x) != low(s["a"])]
    if k == "toDF":
        return list(s["ns"])
    if k == "groupAgg":
        return list(s["keys"]) + [a["alias"] for a in s["aggs"]]
    if k == "unionByName":
        lows = {low(x) for x in sp}
        return sp + ([x for x in s["right"] if low(x) not in lows] if s["allow"] else [])
    if k == "join":
        return [x for x in sp if low(x) == low(s["key"])] + [x for x in sp if low(x) != low(s["key"])] + [x for x in s["right"] if low(x) != low(s["key"])]
    return sp


def gen_step(rng: random.Random, kind: str, sp: t.List[str], allnames: t.Set[str], quotey: bool, had_join: bool = False) -> t.Optional[dict]:
    used = {low(x) for x in sp} | allnames
    if kind == "select":
        n = rng.randint(1, min(3, len(sp) + 1))
        items, seen = [], set()
        for _ in range(n):
            r = rng.random()
            if r < 0.65:
                c = rng.choice(sp)
                if low(c) in seen:
                    continue
                items.append({"kind": rng.choice(["name", "col"]), "s": variant(rng, c)})
                seen.add(low(c))
            else:
                nm = gen_name(rng, used | seen, QUOTEY if quotey and rng.random() < 0.5 else None)
                items.append({"kind": "alias", "s": nm, "of": variant(rng, rng.choice(sp))})
                seen.add(low(nm))
        if not items:
            return None
        return {"k": "select", "items": items}
    if kind == "withColumn":
        if rng.random() < 0.4:
            nm = variant(rng, rng.choice(sp))
        else:
            nm = gen_name(rng, used)
        return {"k": "withColumn", "n": nm, "ref": variant(rng, rng.choice(sp))}
    if kind == "withColumnRenamed":
        a = rng.choice(sp)
        b = variant(rng, a) if rng.random() < 0.2 else gen_name(rng, used, QUOTEY if quotey and rng.random() < 0.5 else None)
        return {"k": "withColumnRenamed", "a": variant(rng, a), "b": b}
    if kind == "where":
        return {"k": "where", "ref": variant(rng, rng.choice(sp))}
    if kind == "orderBy":
        ref = variant(rng, rng.choice(sp))
        how = rng.choice(["name", "col", "desc", "expr"])
        if how == "expr" and reserved(ref):
            how = "desc"  # the rendered text of an expression over a reserved word does not parse either
        if had_join and reserved(ref):
            # after a join the column may be rendered table-qualified (then its text parses): depends on the wrap rule
            how = "desc"
        return {"k": "orderBy", "ref": ref, "how": how}
    if kind in ("limit", "distinct"):
        return {"k": kind}
    if kind == "drop":
        if len(sp) < 2:
            return None
        return {"k": "drop", "a": variant(rng, rng.choice(sp))}
    if kind in ("fillna", "dropDuplicates"):
        # fillna re-aliases the filled column with its quote-preserving text: only plain keys are generated
        plain = [c for c in sp if key(low(c)) == low(c)]
        if not plain:
            return None
        return {"k": kind, "ref": variant(rng, rng.choice(plain))}
    if kind == "toDF":
        ns, seen = [], set(allnames)
        for _ in sp:
            nm = gen_name(rng, seen | {low(x) for x in sp})
            ns.append(nm)
            seen.add(low(nm))
        return {"k": "toDF", "ns": ns}
    if kind == "groupAgg":
        keys = [variant(rng, c) for c in rng.sample(sp, rng.randint(1, min(2, len(sp))))]
        rest = [c for c in sp if low(c) not in {low(k) for k in keys}] or sp
        aggs, seen = [], {low(k) for k in keys}
        for _ in range(rng.randint(1, 2)):
            nm = variant(rng, rng.choice(sp)) if rng.random() < 0.15 else gen_name(rng, used | seen)
            if low(nm) in seen:
                continue
            aggs.append({"ref": variant(rng, rng.choice(rest)), "alias": nm})
            seen.add(low(nm))
        if not aggs:
            return None
        return {"k": "groupAgg", "keys": keys, "aggs": aggs}
    if kind in ("unionByName", "unionByNameMissing"):
        allow = kind == "unionByNameMissing"
        if allow and any(key(low(c)) != low(c) for c in sp):
            return None  # the re-select by normalised strings treats names that need quoting differently again
        if allow:
            shared = rng.sample(sp, rng.randint(1, len(sp)))
            right, seen = [variant(rng, c) for c in shared], set(used)
            for _ in range(rng.randint(0, 2)):
                nm = gen_name(rng, seen, rng.choice([PLAIN, RESERVED, UNI]))
                if key(low(nm)) != low(nm):
                    continue
                right.append(nm)
                seen.add(low(nm))
        else:
            right = [variant(rng, c) for c in sp]
        rng.shuffle(right)
        return {"k": "unionByName", "right": right, "allow": allow}
    if kind == "join":
        kcol = rng.choice(sp)
        right = [variant(rng, kcol)]
        seen = set(used)
        for _ in range(rng.randint(1, 2)):
            nm = gen_name(rng, seen)
            right.append(nm)
            seen.add(low(nm))
        return {"k": "join", "key": variant(rng, kcol), "right": right}
    raise ValueError(kind)


def gen_case(rng: random.Random, kinds: t.Sequence[str], quotey: bool = False) -> t.Optional[dict]:
    used: t.Set[str] = set()
    names = []
    for _ in range(rng.randint(2, 3)):
        n = gen_name(rng, used)
        names.append(n)
        used.add(low(n))
    sp = list(names)
    allnames = set(used)
    steps = []
    kinds = list(kinds)
    for last_only in ("toDF", "unionByNameMissing"):
        if last_only in kinds[:-1]:
            # toDF (and the re-select of unionByName(allowMissingColumns=True)) leave aliases with their own quoting
            # flags in the select list; what later steps make of them depends on the CTE-wrap rule (C01's):
            # generated as the last step only
            kinds = [k for k in kinds if k != last_only] + [last_only]
    if "toDF" in kinds and "unionByNameMissing" in kinds:
        kinds = [k for k in kinds if k != "toDF"]
    for i, k in enumerate(kinds):
        s = gen_step(rng, k, sp, allnames, quotey and i == len(kinds) - 1, had_join="join" in kinds[:i])
        if s is None:
            return None
        steps.append(s)
        sp = spec_step(sp, s)
        allnames |= {low(x) for x in sp}
        if not sp:
            return None
    return {"create": names, "steps": steps}


# ------------------------------------------------------------------------------------------------
# the real implementation
# ------------------------------------------------------------------------------------------------


def apply_step(df: t.Any, s: dict) -> t.Any:
    st = S()
    F, sess = st["F"], st["sess"]
    k = s["k"]
    if k == "select":
        cols = []
        for it in s["items"]:
            if it["kind"] == "name":
                cols.append(it["s"])
            elif it["kind"] == "col":
                cols.append(F.col(it["s"]))
            else:
                cols.append((F.col(it["of"]) + 0).alias(it["s"]))
        return df.select(*cols)
    if k == "withColumn":
        return df.withColumn(s["n"], F.col(s["ref"]) + 1)
    if k == "withColumnRenamed":
        return df.withColumnRenamed(s["a"], s["b"])
    if k == "where":
        return df.where(F.col(s["ref"]).isNotNull() | F.col(s["ref"]).isNull())
    if k == "orderBy":
        if s["how"] == "name":
            return df.orderBy(s["ref"])
        if s["how"] == "col":
            return df.orderBy(F.col(s["ref"]))
        if s["how"] == "expr":
            return df.orderBy(F.col(s["ref"]) + 1)
        return df.orderBy(F.col(s["ref"]).desc())
    if k == "limit":
        return df.limit(5)
    if k == "distinct":
        return df.distinct()
    if k == "drop":
        return df.drop(s["a"])
    if k == "fillna":
        return df.fillna(0, subset=[s["ref"]])
    if k == "dropDuplicates":
        return df.dropDuplicates([s["ref"]])
    if k == "toDF":
        return df.toDF(*s["ns"])
    if k == "groupAgg":
        return df.groupBy(*s["keys"]).agg(*[F.max(F.col(a["ref"])).alias(a["alias"]) for a in s["aggs"]])
    if k == "unionByName":
        other = sess.createDataFrame([tuple(2 for _ in s["right"])], list(s["right"]))
        return df.unionByName(other, allowMissingColumns=s["allow"])
    if k == "join":
        other = sess.createDataFrame([tuple(1 for _ in s["right"])], list(s["right"]))
        return df.join(other, s["key"], "left")
    raise ValueError(k)


def run_impl(c: dict) -> dict:
    st = S()
    sess = st["sess"]
    out: t.Dict[str, t.Any] = {}
    st["log"].clear()
    i = -1
    try:
        df = sess.createDataFrame([tuple(1 for _ in c["create"])], list(c["create"]))
        for i, s in enumerate(c["steps"]):
            df = apply_step(df, s)
        i = len(c["steps"])
        out["columns"] = list(df.columns)
        out["raw"] = list(df._columns)
        rows = df.collect()
        out["sql"] = st["log"][-1]
        out["fields"] = list(rows[0].__fields__) if rows else None
        out["pandas"] = [str(x) for x in df.toPandas().columns]
        out["typed"] = [x.name for x in df._typed_columns]
        out["schema"] = [f.name for f in df.schema]
    except Exception as e:  # noqa
        out["err"] = f"{type(e).__name__}: {str(e)[:160]}"
        out["at"] = i
    return out


# ------------------------------------------------------------------------------------------------
# the Lean side
# ------------------------------------------------------------------------------------------------


def to_lean_step(s: dict) -> t.Any:
    k = s["k"]
    if k == "select":
        return {"select": {"items": [{("alias" if it["kind"] == "alias" else it["kind"]): ({"n": it["s"]} if it["kind"] == "alias" else {"s": it["s"]})} for it in s["items"]]}}
    if k == "withColumn":
        return {"withColumn": {"n": s["n"]}}
    if k == "withColumnRenamed":
        return {"withColumnRenamed": {"a": s["a"], "b": s["b"]}}
    if k in ("where", "orderBy", "limit", "distinct"):
        return "keep"
    if k == "drop":
        return {"drop": {"a": s["a"]}}
    if k in ("fillna", "dropDuplicates"):
        return {"reselect": {"method": k}}
    if k == "toDF":
        return {"toDF": {"ns": s["ns"]}}
    if k == "groupAgg":
        return {"groupAgg": {"keys": s["keys"], "aliases": [a["alias"] for a in s["aggs"]]}}
    if k == "unionByName":
        return {"unionByName": {"right": s["right"], "allowMissing": s["allow"]}}
    if k == "join":
        return {"joinUsing": {"k": s["key"], "right": s["right"]}}
    raise ValueError(k)


def case_strings(c: dict) -> t.List[str]:
    out = list(c["create"])
    for s in c["steps"]:
        for v in s.values():
            if isinstance(v, str):
                out.append(v)
            elif isinstance(v, list):
                for x in v:
                    if isinstance(x, str):
                        out.append(x)
                    elif isinstance(x, dict):
                        out += [y for kk, y in x.items() if isinstance(y, str) and kk not in ("kind",)]
    return [x for x in dict.fromkeys(out) if x not in STEP_KINDS]


MAX_SQL = 30000


def lean_req(i: int, c: dict, impl: dict) -> dict:
    strs = case_strings(c)
    lows = {s: low(s) for s in strs}
    texts = list(dict.fromkeys(list(lows.values()) + strs))
    keys = {}
    for tname in texts:
        try:
            keys[tname] = key(tname)
        except Exception:  # noqa
            keys[tname] = tname
    # raw aliases put into the expression by toDF are keyed as `exp.alias_` writes them
    for s in c["steps"]:
        if s["k"] == "toDF":
            for n in s["ns"]:
                if n != low(n):
                    keys[n] = key(n, raw=True)
    typed: t.Dict[str, str] = {}
    if "typed" in impl and "raw" in impl and len(impl["typed"]) == len(impl["raw"]):
        for r, ty in zip(impl["raw"], impl["typed"]):
            typed[low(r)] = ty
    sql = impl.get("sql") or ""
    return {
        "case": i,
        "low": [[s, l] for s, l in lows.items()] + [[l, low(l)] for l in dict.fromkeys(lows.values()) if l not in lows],
        "key": [[a, b] for a, b in keys.items()],
        "typed": [[a, b] for a, b in typed.items()],
        "back": [[a, _back_or_self(a)] for a in dict.fromkeys(strs + list(lows.values()))],
        "create": c["create"],
        "steps": [to_lean_step(s) for s in c["steps"]],
        "idents": [[ord(ch) for ch in s] for s in strs],
        "sql": [ord(ch) for ch in sql] if len(sql) <= MAX_SQL else [],
        "reserved": [reserved(s["ref"]) for s in c["steps"] if s["k"] == "orderBy" and s["how"] in ("name", "col")],
        "folds": order_by_spellings(c),
    }


def order_by_spellings(c: dict) -> t.List[t.Any]:
    """(is the key the bare column?, current spelling, normalised name) of every column an orderBy refers to"""
    out = []
    sp = list(c["create"])
    for s in c["steps"]:
        if s["k"] == "orderBy":
            cur = next((x for x in sp if low(x) == low(s["ref"])), None)
            if cur is not None:
                out.append([s["how"] != "expr", [[ord(ch) for ch in cur], [ord(ch) for ch in low(cur)]]])
        sp = spec_step(sp, s)
    return out


def _back_or_self(a: str) -> str:
    try:
        return back(a)
    except Exception:  # noqa
        return a


VIEWS = ["columns", "fields", "pandas", "schema"]


def judge(c: dict, impl: dict, L: dict) -> dict:
    scope = list(L["scope"])
    model_notes: t.List[str] = []
    spec_notes: t.List[str] = []
    structural: t.List[str] = []
    ob_err = any(not x["ok"] for x in L["orderBy"])
    if any(not x["h"] for x in L["orderBy"]):
        scope.append("H_orderByReserved")
    if not L["laws"]["idem"]:
        model_notes.append("law violated: low is not idempotent on this case's names")
    if not L["laws"]["keyInj"]:
        model_notes.append("law violated: the display-map key is not injective on this case's normalised names")
    if not all(L["idOk"]):
        model_notes.append("Lean: quoteIdent / lex round trip fails on one of the names")
    if not L["wf"]:
        model_notes.append("generator produced an ill-formed program (StepWF false)")
    for s in c["steps"]:
        for r in [s.get("ref"), s.get("a"), s.get("key")] + list(s.get("keys", [])):
            pass
    fold_bad = any(not x for x in L["folds"])
    if fold_bad:
        scope.append("H_asciiFold")
    if L["raises"]:
        scope = sorted(set(scope))
        if "err" not in impl or "does not exist in any of the tables" not in impl["err"]:
            model_notes.append(f"model: a using-join on a key that needs quoting raises; implementation: {impl.get('err', 'no error')}")
        spec_notes.append(f"raises {impl.get('err')}")
    elif ob_err:
        if "err" not in impl or "parse" not in impl["err"].lower():
            model_notes.append(f"model: orderBy on a reserved word raises; implementation: {impl.get('err', 'no error')}")
        spec_notes.append(f"raises {impl.get('err')}")
    elif "err" in impl and fold_bad and "BinderException" in impl["err"] and "not found in FROM clause" in impl["err"]:
        # the ordered-by item carries a display alias the engine's ASCII-only folding does not match; whether the
        # reference stands in that same SELECT block is C01's wrap rule — both outcomes are consistent with the model
        spec_notes.append(f"raises {impl['err']}")
    elif "err" in impl:
        model_notes.append(f"model: no error; implementation: {impl['err']} at step {impl.get('at')}")
        spec_notes.append(f"raises {impl['err']}")
    else:
        for v in VIEWS:
            if v == "fields" and impl.get(v) is None:
                continue  # no row came back: no Row to look at
            if impl.get(v) is not None and [_low_or_self(x) for x in impl[v]] != [_low_or_self(x) for x in L["spec"]]:
                # not a matter of spelling: a reference did not find its column / a column is missing or doubled.
                # No spelling hypothesis explains that.
                structural.append(f"{v} = {impl[v]}: not PySpark's columns {L['spec']} even ignoring letter case and quoting")
            if impl.get(v) != L[v]:
                model_notes.append(f"{v}: implementation {impl.get(v)} vs model {L[v]}")
            if impl.get(v) != L["spec"]:
                spec_notes.append(f"{v} = {impl.get(v)}, PySpark's spelling rule gives {L['spec']}")
        # the quoted identifiers of the executed statement, read by the Lean scanner: the result aliases must be there
        if impl.get("sql") and len(impl["sql"]) <= MAX_SQL:
            ids = {"".join(chr(x) for x in s) for s in L["sqlIds"]}
            for nm in impl.get("pandas") or []:
                if nm not in ids:
                    model_notes.append(f"result column {nm!r} is not a quoted-identifier token of the executed statement (Lean lex)")
            if L["unterminated"]:
                model_notes.append("Lean lex reports an unterminated token in a statement DuckDB executed")
    return {"scope": sorted(set(scope)), "model_notes": model_notes, "spec_notes": spec_notes + structural, "structural": structural}


def _low_or_self(x: str) -> str:
    try:
        return low(x)
    except Exception:  # noqa
        return x.lower()


def evaluate(cases: t.List[dict]) -> t.List[dict]:
    impls = [run_impl(c) for c in cases]
    outs = vlib.run_driver("C10", [lean_req(i, c, impl) for i, (c, impl) in enumerate(zip(cases, impls))])
    res = []
    for c, impl, L in zip(cases, impls, outs):
        if "err" in L:
            raise RuntimeError(f"driver rejected a case: {L}")
        res.append({"case": c, "impl": impl, "lean": L, **judge(c, impl, L)})
    return res


def law_check(cases: t.List[dict]) -> t.List[str]:
    """the law C10_lookup relies on: letter-case variants normalise alike (on every name of the stream)"""
    bad = []
    seen = set()
    for c in cases:
        for s in case_strings(c):
            if s in seen:
                continue
            seen.add(s)
            for v in (s.upper(), s.lower(), s.swapcase()):
                if len(v) == len(s) and low(v) != low(s):
                    bad.append(f"low({v!r}) = {low(v)!r} != low({s!r}) = {low(s)!r}")
            if low(low(s)) != low(s):
                bad.append(f"low not idempotent on {s!r}")
    return bad


# ------------------------------------------------------------------------------------------------
# reporting
# ------------------------------------------------------------------------------------------------


def show_step(s: dict) -> str:
    k = s["k"]
    if k == "select":
        parts = []
        for it in s["items"]:
            parts.append(repr(it["s"]) if it["kind"] == "name" else (f"col({it['s']!r})" if it["kind"] == "col" else f"(col({it['of']!r}) + 0).alias({it['s']!r})"))
        return "select(" + ", ".join(parts) + ")"
    if k == "withColumn":
        return f"withColumn({s['n']!r}, col({s['ref']!r}) + 1)"
    if k == "withColumnRenamed":
        return f"withColumnRenamed({s['a']!r}, {s['b']!r})"
    if k == "where":
        return f"where(col({s['ref']!r}).isNotNull() | col({s['ref']!r}).isNull())"
    if k == "orderBy":
        return "orderBy(" + (repr(s["ref"]) if s["how"] == "name" else f"col({s['ref']!r})" + (".desc()" if s["how"] == "desc" else (" + 1" if s["how"] == "expr" else ""))) + ")"
    if k == "limit":
        return "limit(5)"
    if k == "distinct":
        return "distinct()"
    if k == "drop":
        return f"drop({s['a']!r})"
    if k == "fillna":
        return f"fillna(0, subset=[{s['ref']!r}])"
    if k == "dropDuplicates":
        return f"dropDuplicates([{s['ref']!r}])"
    if k == "toDF":
        return "toDF(" + ", ".join(map(repr, s["ns"])) + ")"
    if k == "groupAgg":
        return "groupBy(" + ", ".join(map(repr, s["keys"])) + ").agg(" + ", ".join(f"max(col({a['ref']!r})).alias({a['alias']!r})" for a in s["aggs"]) + ")"
    if k == "unionByName":
        return f"unionByName(createDataFrame([...], {s['right']!r}), allowMissingColumns={s['allow']})"
    if k == "join":
        return f"join(createDataFrame([...], {s['right']!r}), {s['key']!r}, 'left')"
    return str(s)


def show_case(c: dict) -> str:
    return f"createDataFrame([(1, …)], {c['create']!r})" + "".join("." + show_step(s) for s in c["steps"])


def public_impl(impl: dict) -> dict:
    return {k: v for k, v in impl.items() if k in ("columns", "fields", "pandas", "schema", "err", "at")}


def valid(c: dict) -> bool:
    """every reference resolves and result names stay distinct (what PySpark requires)"""
    try:
        sp = list(c["create"])
        if len({low(x) for x in sp}) != len(sp):
            return False
        for s in c["steps"]:
            lows = {low(x) for x in sp}
            refs = [s.get("ref"), s.get("a"), s.get("key")] + list(s.get("keys", [])) + [a["ref"] for a in s.get("aggs", [])]
            if s["k"] == "select":
                refs += [it.get("of") if it["kind"] == "alias" else it["s"] for it in s["items"]]
            if any(r is not None and low(r) not in lows for r in refs):
                return False
            if s["k"] == "toDF" and len(s["ns"]) != len(sp):
                return False
            if s["k"] == "unionByName":
                rl = [low(x) for x in s["right"]]
                if len(set(rl)) != len(rl) or (not s["allow"] and set(rl) != lows):
                    return False
            if s["k"] == "withColumnRenamed" and low(s["b"]) in lows and low(s["b"]) != low(s["a"]):
                return False
            if s["k"] == "drop" and len(sp) < 2:
                return False
            sp = spec_step(sp, s)
            if not sp or len({low(x) for x in sp}) != len(sp):
                return False
        return True
    except Exception:  # noqa
        return False


def shrink(c: dict, failing: t.Callable[[dict], bool], budget: int = 40) -> dict:
    best = c
    improved = True
    while improved and budget > 0:
        improved = False
        cands = [dict(best, steps=best["steps"][:i] + best["steps"][i + 1 :]) for i in range(len(best["steps"]))]
        for cand in [x for x in cands if valid(x)]:
            budget -= 1
            try:
                r = evaluate([cand])[0]
            except Exception:  # noqa
                continue
            if failing(r):
                best, improved = cand, True
                break
    return best


# ------------------------------------------------------------------------------------------------
# the check
# ------------------------------------------------------------------------------------------------


def known_entries() -> t.Dict[str, dict]:
    known = {e["id"]: e for e in vlib.known_findings(ID)}
    p = os.path.join(vlib.VERIF, "tools", "props", "c10.known.json")
    if os.path.exists(p):
        for e in json.load(open(p)).get("findings", []):
            if e.get("property") == ID and e.get("status") == "open":
                known[e["id"]] = e  # a proposed (newer) entry replaces the merged one: witnesses are kept current here
    return known


def cases_for(ctx: Ctx) -> t.List[dict]:
    rng = ctx.rng
    cases: t.List[dict] = []
    d = os.path.join(vlib.VERIF, "corpus", ID)
    if os.path.isdir(d):
        for fn in sorted(os.listdir(d)):
            if fn.endswith(".json"):
                c = json.load(open(os.path.join(d, fn)))
                c["origin"] = "corpus:" + fn
                cases.append(c)

    def add(kinds: t.Sequence[str], origin: str, quotey: bool = False) -> None:
        for _ in range(8):
            c = gen_case(rng, kinds, quotey)
            if c and valid(c):
                c["origin"] = origin
                cases.append(c)
                return

    # every naming operation x every name class, then followed by one C01 step
    for k in STEP_KINDS:
        for _ in range(4 if ctx.thorough else 2):
            add([k], "single")
            add([k, rng.choice(["where", "orderBy", "limit", "distinct"])], "single+C01")
    for k1 in IN_SCOPE_KINDS:
        for k2 in IN_SCOPE_KINDS:
            add([k1, k2], "pairs-in-scope")
    n = 2500 if ctx.thorough else 170
    for _ in range(n):
        L = rng.randint(2, 6)
        pool = IN_SCOPE_KINDS if rng.random() < 0.6 else STEP_KINDS
        add([rng.choice(pool) for _ in range(L)], "random", quotey=rng.random() < 0.3)
    return cases


def adjacent_observations() -> t.List[dict]:
    st = S()
    sess, F = st["sess"], st["F"]
    obs = []

    def rec(what: str, f: t.Callable[[], t.Any], note: str) -> None:
        try:
            r = repr(f())[:200]
        except Exception as e:  # noqa
            r = f"raises {type(e).__name__}: {str(e)[:100]}"
        obs.append({"input": what, "observed": r, "note": note})

    rec("createDataFrame([(1, 2)], ['x.y', 'v']).collect()", lambda: sess.createDataFrame([(1, 2)], ["x.y", "v"]).collect(), "a dot in a name is read as table.column; PySpark keeps the name 'x.y' (dots are not among the property's name classes)")
    rec("createDataFrame([(1, 2)], ['a\"b', 'v'])", lambda: sess.createDataFrame([(1, 2)], ['a"b', "v"]).columns, "quote characters in a createDataFrame / withColumn name raise TokenError (alias() and withColumnRenamed() accept them); not among the property's name classes")
    rec("df.select(col('v').alias('semi;colon')) / .alias('dash--dash') / .alias('$dollar')", lambda: [sess.createDataFrame([(1, 2)], ["k", "v"]).select(F.col("v").alias(n)).collect()[0].__fields__ for n in ("semi;colon", "dash--dash")], "an alias name is parsed as SQL text: ';' and '--' cut it ('semi', 'dash'), '/*' loses the display entry, '$' is rejected by the engine; symbols are not among the property's name classes (the generator uses quote, %, \\, (), ?, -, +, # only)")
    rec("createDataFrame([(1, 2)], ['3D', 'null']) / ['007', 'true']", lambda: [sess.createDataFrame([(1, 2)], ["3D", "v"]).columns, sess.createDataFrame([(1, 2)], ["007", "v"]).schema.fieldNames()], "names that are Spark literals (3D, 1L, 007, null, true) are read as literals by col(): case lost / not droppable / AttributeError; excluded from the generator")
    rec("createDataFrame([(1, 2)], ['Kx', 'v']).select(col('kx') + 1, 'v').columns", lambda: sess.createDataFrame([(1, 2)], ["Kx", "v"]).select(F.col("kx") + 1, "v").columns, "an unaliased expression is missing from df.columns (collect() calls it '(kx + 1)'); unaliased expressions are not naming operations of the property")
    rec("createDataFrame([(1, 2)], ['k', 'v']).groupBy('k').agg(sum('v')).schema", lambda: sess.createDataFrame([(1, 2)], ["k", "v"]).groupBy("k").agg(F.sum("v").alias("s")).schema, "df.schema raises NotImplementedError when a column has DuckDB type HUGEINT (sum of BIGINT): a type, not a name, problem; the stream aggregates with max")
    rec("w = df.where(...); w.select(col('K')); w.columns", lambda: (lambda w: (w.select(F.col("KX")), w.columns)[1])(sess.createDataFrame([(1, 2)], ["Kx", "v"]).where(F.col("v") > 0)), "receiver's display map after select on a derived frame (C04's concern; fixed upstream of this check if ['Kx', 'v'])")
    return obs


def spec_only_stream(ctx: Ctx) -> None:
    cases = cases_for(ctx)
    bad = []
    for c in cases:
        impl = run_impl(c)
        if "err" in impl:
            continue  # whether an error is excused by a named hypothesis cannot be decided without the model
        sp = list(c["create"])
        for st in c["steps"]:
            sp = spec_step(sp, st)
        want = [_low_or_self(x) for x in sp]
        notes = [f"{v} = {impl[v]}: not PySpark's columns {sp} even ignoring letter case and quoting" for v in VIEWS if impl.get(v) is not None and [_low_or_self(x) for x in impl[v]] != want]
        if notes:
            bad.append((c, impl, sp, notes))
    bad.sort(key=lambda x: len(json.dumps(x[0])))
    for c, impl, sp, notes in bad[:3]:
        vlib.report_violation(
            ctx,
            {"kind": "a reference does not find its column / the views do not show PySpark's columns (specification side only: the regenerated model is unavailable)",
             "program": show_case(c), "case": c, "implementation": public_impl(impl), "specification": sp, "differs_from_specification": notes[:4], "broken": ctx.broken},
        )
    if not bad:
        vlib.report_violation(ctx, {"kind": "the regenerated model is unavailable: a construct the proofs hinge on left the translated shape", "broken": ctx.broken, "searched": {"cases": len(cases)}}, no_input=True)
    ctx.cov.update({"evaluations": len(cases), "distinct_nontrivial": len({vlib.digest({k: v for k, v in c.items() if k != "origin"}) for c in cases}),
                    "rule": "specification-side stream only (Gen.Names could not be regenerated): the four views vs PySpark's columns up to letter case and quoting",
                    "samples": [show_case(c) for c in cases[:3]], "traces_validated_against_impl": 0, "spec_only_failures": len(bad)})


def run(ctx: Ctx) -> None:
    idx = vlib.props_index()[ID]
    vlib.prove(ctx, MODULES, GEN, idx["theorems"], SOURCES)
    known = known_entries()
    if any("untranslatable" in b or "bad import" in b for b in ctx.broken):
        # the source left the translator's sub-language: there is no current model (the compiled driver would be
        # the one of an older tree).  Fall back to the specification side alone: the four views against PySpark's
        # columns IGNORING letter case and quoting — the part of the property no spelling hypothesis can excuse.
        spec_only_stream(ctx)
        return

    cases = cases_for(ctx)
    res = evaluate(cases)
    laws_bad = law_check(cases)
    if laws_bad:
        ctx.broken.append(f"assumed law of the name normalisation fails: {laws_bad[0]} ({len(laws_bad)} in all)")

    model_mismatch = [r for r in res if r["model_notes"]]
    spec_mismatch = [r for r in res if r["spec_notes"]]
    new_viol = []
    # a KNOWN-FINDING line is printed for a hypothesis only when a failure is attributable to it: it is the
    # only violated hypothesis of some failing case, its recorded witness fails (below), or a failing case's
    # violated hypotheses include none that is attributable on its own
    explained = [r for r in spec_mismatch if r["scope"] and all(h in known for h in r["scope"]) and not r["model_notes"] and not r["structural"]]
    alone = {r["scope"][0] for r in explained if len(r["scope"]) == 1}
    for r in spec_mismatch:
        if r in explained:
            hs = [h for h in r["scope"] if h in alone] or r["scope"]
            for h in hs:
                vlib.report_known(ctx, known[h], known[h]["summary"])
        else:
            new_viol.append(r)

    for h, e in known.items():
        w = e.get("witness")
        if isinstance(w, dict) and "create" in w:
            r = evaluate([w])[0]
            if r["spec_notes"]:
                vlib.report_known(ctx, e, e["summary"])
            else:
                log(f"known finding {h}: the recorded witness no longer fails")

    if model_mismatch:
        r0 = model_mismatch[0]
        ctx.broken.append(f"correspondence stream (implementation vs Lean model): {len(model_mismatch)} of {len(res)} cases differ, e.g. {show_case(r0['case'])}: {r0['model_notes'][0]}")

    reported = 0
    for r in new_viol[:3]:
        def failing(rr: dict) -> bool:
            return bool(rr["spec_notes"]) and not (rr["scope"] and all(h in known for h in rr["scope"]) and not rr["model_notes"] and not rr["structural"])

        c = shrink(r["case"], failing)
        rr = evaluate([c])[0]
        vlib.report_violation(
            ctx,
            {
                "kind": "a column-name view differs from PySpark's spelling rule / the views disagree",
                "program": show_case(c),
                "case": c,
                "implementation": public_impl(rr["impl"]),
                "specification": rr["lean"]["spec"],
                "model": {v: rr["lean"][v] for v in VIEWS},
                "differs_from_specification": rr["spec_notes"][:5],
                "differs_from_model": rr["model_notes"][:5],
                "violated_scope_hypotheses": rr["scope"],
                "broken": ctx.broken,
            },
        )
        reported += 1
    if ctx.broken and not reported:
        r0 = model_mismatch[0] if model_mismatch else None
        vlib.report_violation(
            ctx,
            {
                "kind": "proof obligation or correspondence no longer checks; no failing input found",
                "broken": ctx.broken,
                "searched": {"cases": len(res)},
                "first_model_mismatch": ({"program": show_case(r0["case"]), "case": r0["case"], "implementation": public_impl(r0["impl"]), "model": {v: r0["lean"][v] for v in VIEWS}, "notes": r0["model_notes"][:5]} if r0 else None),
            },
            no_input=True,
        )

    kinds_hist: t.Dict[str, int] = {}
    lens: t.Dict[str, int] = {}
    nontriv = set()
    nameclass: t.Dict[str, int] = {"mixed-case": 0, "reserved": 0, "spaced": 0, "leading-digit": 0, "non-ascii": 0, "quote-or-symbol": 0}
    for r in res:
        c = r["case"]
        for s in c["steps"]:
            kinds_hist[s["k"]] = kinds_hist.get(s["k"], 0) + 1
        lens[str(len(c["steps"]))] = lens.get(str(len(c["steps"])), 0) + 1
        strs = case_strings(c)
        for s in strs:
            if s.lower() in RESERVED:
                nameclass["reserved"] += 1
            if any(ch.isspace() for ch in s):
                nameclass["spaced"] += 1
            if s[:1].isdigit():
                nameclass["leading-digit"] += 1
            if any(ord(ch) > 127 for ch in s):
                nameclass["non-ascii"] += 1
            if s != s.lower():
                nameclass["mixed-case"] += 1
            if any(ch in "\"'`;-/*%\\()?$+#" for ch in s):
                nameclass["quote-or-symbol"] += 1
        if "err" not in r["impl"] and any(s != low(s) or key(low(s)) != low(s) or s.lower() in RESERVED for s in strs):
            nontriv.add(vlib.digest({k: v for k, v in c.items() if k != "origin"}))
    ctx.cov.update(
        {
            "evaluations": len(res),
            "distinct_nontrivial": len(nontriv),
            "rule": "corpus; every naming operation (select by name / col() / alias, withColumn, withColumnRenamed, toDF, drop, fillna, dropDuplicates, groupBy.agg aliases, "
            "join keys) alone and followed by a C01 step; every ordered pair of in-scope operations; random chains of 2..6 operations; names drawn from mixed-case, "
            "reserved-word, spaced, leading-digit, non-ASCII (and, as alias / rename targets, quote / symbol) pools; every reference in a random letter-case variant. "
            "non-trivial = distinct program that ran and mentions a name that is not its own normal form, needs quoting, or is a reserved word",
            "traces_validated_against_impl": len(res) - len(model_mismatch),
            "impl_vs_spec_agree": len(res) - len(spec_mismatch),
            "out_of_scope_cases": sum(1 for r in res if r["scope"]),
            "implementation_errors": sum(1 for r in res if "err" in r["impl"]),
            "op_kind_histogram": kinds_hist,
            "length_histogram": lens,
            "name_class_mentions": nameclass,
            "samples": [{"program": show_case(r["case"]), "result": public_impl(r["impl"]), "spec": r["lean"]["spec"], "scope": r["scope"]} for r in res[:: max(1, len(res) // 5)][:5]],
            "adjacent_observations": adjacent_observations(),
        }
    )
    ctx.assumptions += [
        "the laws of sqlglot's identifier normalisation used by the proofs (low idempotent; display-map key injective on normalised names; letter-case variants normalise alike) — checked on every name of every run",
        "the Lean views are evaluated with the real name functions passed as tables (normalised text via parse_identifier+normalize_identifiers, key via quote_preserving_alias_or_name, typed name via the engine's own column listing)",
        "DuckDB's scanner treats \"…\" identifiers as Impl/C09Lex.lean says — validated: every result column name is found as a quoted-identifier token when the Lean scanner reads the executed statement",
        "PySpark's spelling rule (select/withColumn/withColumnRenamed/toDF/groupBy/agg alias/join using: the user's spelling at the last naming or selecting site; where/orderBy/limit/distinct/drop/fillna/dropDuplicates keep spellings) was confirmed on live PySpark 3.5.9 during construction",
        "names with dots, with quote characters at createDataFrame/withColumn, leading/trailing blanks (C09 H_trimmedNames) and names whose case mapping changes their length are outside the generator",
    ]


def replay(ctx: Ctx, rp: dict) -> None:
    c = rp.get("case")
    if not c:
        print("replay names a broken obligation, not an input:", rp.get("broken"))
        return
    if "specification side only" in rp.get("kind", ""):
        impl = run_impl(c)
        sp = list(c["create"])
        for st in c["steps"]:
            sp = spec_step(sp, st)
        want = [_low_or_self(x) for x in sp]
        notes = [f"{v} = {impl.get(v)}" for v in VIEWS if impl.get(v) is not None and [_low_or_self(x) for x in impl[v]] != want] or ([impl["err"]] if "err" in impl else [])
        print(json.dumps({"program": show_case(c), "implementation": public_impl(impl), "specification": sp, "differs": notes}, indent=1, default=str))
        if notes:
            vlib.report_violation(ctx, dict(rp, implementation=public_impl(impl)))
        return
    r = evaluate([c])[0]
    print(json.dumps({"program": show_case(c), "implementation": public_impl(r["impl"]), "specification": r["lean"]["spec"], "model": {v: r["lean"][v] for v in VIEWS}, "differs_from_specification": r["spec_notes"], "scope": r["scope"]}, indent=1, default=str))
    if r["spec_notes"]:
        vlib.report_violation(ctx, dict(rp, implementation=public_impl(r["impl"]), differs_from_specification=r["spec_notes"]))
