"""
C05 — Column expressions denote the tree the user wrote under SQL three-valued logic.

proof      : lean/SqlframeModel/Props/C05.lean  (C05_meaning, C05_print_parse, C05_wellParen_partial, C05_partial, …)
             over the regenerated Gen.ColumnOps (tools/gen_c05.py)
tie        : three comparisons per generated expression (real sqlframe Column + DuckDB  vs  Lean driver):
               A  structure   sexp(col.expression)                    ==  build theCfg e
               B  engine      DuckDB(sqlframe's text)                 ==  DuckDB(fully parenthesised engineTree (build e))
                              (or: the model predicts a syntax error / a missing function and DuckDB raises exactly that)
               S  meaning     df.select(expr).collect()               ==  denote e   on every row of the value pool
search     : S is the property itself; a failing S is a KNOWN-FINDING only when A and B hold (the model predicts
             the implementation's output) and every violated hypothesis reported by the driver is listed.
"""
from __future__ import annotations

import itertools
import json
import os
import random
import sys
import typing as t

import vlib
from vlib import Ctx, log, lval, plain

ID = "C05"
LEVEL = "proof"
MODULES = ["SqlframeModel.Codec.C05", "SqlframeModel.Props.C05"]
GEN = ["ColumnOps"]
SOURCES = [
    "SqlframeModel/Props/C05.lean",
    "SqlframeModel/Lemmas/C05Meaning.lean",
    "SqlframeModel/Lemmas/C05Parse.lean",
    "SqlframeModel/Lemmas/C05Scope.lean",
    "SqlframeModel/Lemmas/C05Build.lean",
    "SqlframeModel/Lemmas/C05Fns.lean",
    "SqlframeModel/Impl/C05Column.lean",
    "SqlframeModel/Impl/C05Engine.lean",
]

# the value pool of the property's quantifier
COLS: t.Dict[str, str] = {"x": "int", "y": "int", "s": "str", "u": "str", "p": "bool", "q": "bool"}
POOL: t.Dict[str, t.List[t.Any]] = {"int": [None, 0, -1, 2], "str": [None, "", "a"], "bool": [None, True, False]}
INT_LITS = [0, 1, 2, -1, 3]
STR_LITS = ["", "a", "b", "ab"]
LIKE_PATS = ["a", "a%", "%a", "%", "_", "", "_b"]
RLIKE_PATS = ["a", "b", "ab"]
ARITH = ["add", "sub", "mul", "mod"]
CMP = ["eq", "ne", "lt", "le", "gt", "ge"]
ALIASES = ["r", "w", "z"]

# ------------------------------------------------------------------------------------------------
# expression trees: exactly the JSON the Lean codec reads ({"ctor": {fields}} / "noElse"), plus
# private "_…" decorations (how a literal operand is written in Python) that are stripped before sending
# ------------------------------------------------------------------------------------------------


def N(ctor: str, **fields: t.Any) -> dict:
    return {ctor: fields}


def ctor(e: t.Any) -> str:
    if isinstance(e, str):
        return e
    return next(k for k in e if not k.startswith("_"))


def fields(e: t.Any) -> dict:
    return {} if isinstance(e, str) else e[ctor(e)]


def strip(e: t.Any) -> t.Any:
    """tree -> the driver's JSON (python values -> Lean `Val` encoding, decorations removed)"""
    if isinstance(e, str):
        return e
    c = ctor(e)
    out = {}
    for k, v in e[c].items():
        if k in ("a", "b", "c", "lo", "hi", "st", "len", "rest", "d") or (k == "v" and c == "when"):
            out[k] = strip(v)
        elif k == "v":
            out[k] = lval(v)
        elif k == "vs":
            out[k] = [lval(x) for x in v]
        else:
            out[k] = v
    return {c: out}


CHILD_KEYS = ("a", "b", "c", "lo", "hi", "st", "len", "rest", "d")


def children(e: t.Any) -> t.List[t.Tuple[str, t.Any]]:
    if isinstance(e, str):
        return []
    c = ctor(e)
    out = []
    for k, v in e[c].items():
        if k in CHILD_KEYS or (k == "v" and c == "when"):
            out.append((k, v))
    return out


def size(e: t.Any) -> int:
    return 1 + sum(size(ch) for _, ch in children(e))


def depth(e: t.Any) -> int:
    return 1 + max([depth(ch) for _, ch in children(e)] or [0])


def cols_of(e: t.Any) -> t.List[str]:
    if ctor(e) == "col":
        return [fields(e)["n"]]
    out: t.List[str] = []
    for _, ch in children(e):
        for c in cols_of(ch):
            if c not in out:
                out.append(c)
    return out


def kinds_of(e: t.Any, acc: t.Dict[str, int]) -> None:
    c = ctor(e)
    f = fields(e)
    k = c + (":" + f["op"] if "op" in f else "") + (":" + f["f"] if "f" in f else "")
    acc[k] = acc.get(k, 0) + 1
    for _, ch in children(e):
        kinds_of(ch, acc)


def type_of(e: t.Any) -> str:
    c = ctor(e)
    f = fields(e)
    if c == "col":
        return COLS[f["n"]]
    if c == "lit":
        v = f["v"]
        return e.get("_ty") or ("bool" if isinstance(v, bool) else "int" if isinstance(v, int) else "str" if isinstance(v, str) else "int")
    if c in ("arith", "arithL", "neg"):
        return "int"
    if c in ("cmp", "cmpL", "logic", "logicL", "not", "isNull", "isNotNull", "eqNullSafe", "isin", "between", "like", "strFn"):
        return "bool"
    if c == "substr":
        return "str"
    if c == "cast":
        return "str" if f["ty"] == "string" else "int"
    if c == "alias":
        return type_of(f["a"])
    if c == "when":
        return type_of(f["v"])
    if c == "otherwise":
        return type_of(f["d"])
    return "int"


# ------------------------------------------------------------------------------------------------
# python source text of a tree (for humans and replays)
# ------------------------------------------------------------------------------------------------

PY_OP = {"add": "+", "sub": "-", "mul": "*", "mod": "%", "eq": "==", "ne": "!=", "lt": "<", "le": "<=", "gt": ">", "ge": ">=", "and": "&", "or": "|"}


def show(e: t.Any) -> str:
    c = ctor(e)
    f = fields(e)

    def operand(x: t.Any) -> str:
        if ctor(x) == "lit" and x.get("_raw"):
            return repr(fields(x)["v"])
        return show(x)

    if c == "col":
        return f"col({f['n']!r})"
    if c == "lit":
        return f"lit({f['v']!r})"
    if c in ("arith", "cmp", "logic"):
        return f"({show(f['a'])} {PY_OP[f['op']]} {operand(f['b'])})"
    if c in ("arithL", "cmpL", "logicL"):
        return f"({f['v']!r} {PY_OP[f['op']]} {show(f['b'])})"
    if c == "neg":
        return f"(-{show(f['a'])})"
    if c == "not":
        return f"(~{show(f['a'])})"
    if c in ("isNull", "isNotNull"):
        return f"{show(f['a'])}.{c}()"
    if c == "eqNullSafe":
        return f"{show(f['a'])}.eqNullSafe({operand(f['b'])})"
    if c == "isin":
        return f"{show(f['a'])}.isin({', '.join(map(repr, f['vs'])) if not e.get('_list') else repr(f['vs'])})"
    if c == "between":
        return f"{show(f['a'])}.between({operand(f['lo'])}, {operand(f['hi'])})"
    if c == "like":
        return f"{show(f['a'])}.like({f['pat']!r})"
    if c == "strFn":
        return f"{show(f['a'])}.{f['f']}({operand(f['b'])})"
    if c == "substr":
        return f"{show(f['a'])}.substr({operand(f['st'])}, {operand(f['len'])})"
    if c == "when":
        out = f"when({show(f['c'])}, {operand(f['v'])})"
        r = f["rest"]
        while ctor(r) == "when":
            out += f".when({show(fields(r)['c'])}, {operand(fields(r)['v'])})"
            r = fields(r)["rest"]
        if ctor(r) == "otherwise":
            out += f".otherwise({operand(fields(r)['d'])})"
        return out
    if c == "cast":
        return f"{show(f['a'])}.cast({f['ty']!r})"
    if c == "alias":
        return f"{show(f['a'])}.alias({f['n']!r})"
    return str(e)


# ------------------------------------------------------------------------------------------------
# typed generator
# ------------------------------------------------------------------------------------------------


class TreeGen:
    def __init__(self, rng: random.Random, cols: t.List[str]):
        self.rng = rng
        self.cols = cols

    def col(self, ty: str) -> t.Optional[dict]:
        cs = [c for c in self.cols if COLS[c] == ty]
        return N("col", n=self.rng.choice(cs)) if cs else None

    def lit(self, ty: str, raw_ok: bool = True, null_ok: bool = True) -> dict:
        r = self.rng
        if null_ok and r.random() < 0.06:
            v: t.Any = None
        elif ty == "int":
            v = r.choice(INT_LITS)
        elif ty == "str":
            v = r.choice(STR_LITS)
        else:
            v = r.choice([True, False])
        e = N("lit", v=v)
        e["_ty"] = ty
        if raw_ok and r.random() < 0.5:
            e["_raw"] = True
        return e

    def leaf(self, ty: str) -> dict:
        c = self.col(ty)
        if c is not None and self.rng.random() < 0.75:
            return c
        e = self.lit(ty, raw_ok=False)
        return e

    def maybe_alias(self, e: dict) -> dict:
        if self.rng.random() < 0.04:
            return N("alias", a=e, n=self.rng.choice(ALIASES))
        return e

    def operand(self, ty: str, d: int) -> dict:
        """a right-hand operand: sometimes a plain Python value"""
        if self.rng.random() < 0.2:
            return self.lit(ty, raw_ok=True)
        return self.expr(ty, d)

    def expr(self, ty: str, d: int) -> dict:
        e = self._expr(ty, d)
        return self.maybe_alias(e)

    def when(self, ty: str, d: int) -> dict:
        r = self.rng
        n = r.choice([1, 1, 2, 3])
        tail: t.Any = "noElse" if r.random() < 0.3 else N("otherwise", d=self.operand(ty, d - 1))
        for _ in range(n):
            tail = N("when", c=self.expr("bool", d - 1), v=self.operand(ty, d - 1), rest=tail)
        return tail

    def _expr(self, ty: str, d: int) -> dict:
        r = self.rng
        if d <= 1 or r.random() < 0.12:
            return self.leaf(ty)
        if ty == "int":
            k = r.random()
            if k < 0.45:
                return N("arith", op=r.choice(ARITH), a=self.expr("int", d - 1), b=self.operand("int", d - 1))
            if k < 0.62:
                return N("arithL", op=r.choice(ARITH), v=r.choice(INT_LITS), b=self.expr("int", d - 1))
            if k < 0.77:
                return N("neg", a=self.expr("int", d - 1))
            if k < 0.9:
                return self.when("int", d)
            if k < 0.95:
                return N("cast", a=self.expr("int", d - 1), ty="bigint")
            return N("cast", a=self.expr("bool", d - 1), ty="bigint")
        if ty == "str":
            k = r.random()
            if k < 0.3:
                st, ln = self.lit_int([1, 2]), self.lit_int([0, 1, 2])
                return N("substr", a=self.expr("str", d - 1), st=st, len=ln)
            if k < 0.55:
                return N("cast", a=self.expr(r.choice(["int", "int", "bool", "str"]), d - 1), ty="string")
            if k < 0.8:
                return self.when("str", d)
            return self.leaf("str")
        # bool
        k = r.random()
        oty = r.choice(["int", "int", "str", "bool", "bool"])
        if k < 0.2:
            return N("cmp", op=r.choice(CMP), a=self.expr(oty, d - 1), b=self.operand(oty, d - 1))
        if k < 0.27:
            v = self.lit(oty, null_ok=False)
            return N("cmpL", op=r.choice(CMP), v=fields(v)["v"], b=self.expr(oty, d - 1))
        if k < 0.42:
            return N("logic", op=r.choice(["and", "or"]), a=self.expr("bool", d - 1), b=self.operand("bool", d - 1))
        if k < 0.49:
            return N("logicL", op=r.choice(["and", "or"]), v=r.choice([True, False]), b=self.expr("bool", d - 1))
        if k < 0.57:
            return N("not", a=self.expr("bool", d - 1))
        if k < 0.64:
            return N("isNull", a=self.expr(oty, d - 1))
        if k < 0.69:
            return N("isNotNull", a=self.expr(oty, d - 1))
        if k < 0.75:
            return N("eqNullSafe", a=self.expr(oty, d - 1), b=self.operand(oty, d - 1))
        if k < 0.81:
            vs = [fields(self.lit(oty))["v"] for _ in range(r.randint(1, 3))]
            e = N("isin", a=self.expr(oty, d - 1), vs=vs)
            if r.random() < 0.4:
                e["_list"] = True
            return e
        if k < 0.87:
            return N("between", a=self.expr(oty, d - 1), lo=self.operand(oty, d - 1), hi=self.operand(oty, d - 1))
        if k < 0.91:
            return N("like", a=self.expr("str", d - 1), pat=r.choice(LIKE_PATS))
        if k < 0.96:
            f = r.choice(["startswith", "endswith", "rlike"])
            if f == "rlike":
                b = N("lit", v=r.choice(RLIKE_PATS))
                b["_raw"] = True
                b["_ty"] = "str"
            else:
                b = self.operand("str", d - 1)
            return N("strFn", f=f, a=self.expr("str", d - 1), b=b)
        return self.when("bool", d)

    def lit_int(self, pool: t.List[int]) -> dict:
        e = N("lit", v=self.rng.choice(pool))
        e["_ty"] = "int"
        if self.rng.random() < 0.7:
            e["_raw"] = True
        return e


def valid(e: t.Any) -> bool:
    """inside the engine model's grammar: the lower bound of BETWEEN is not a bare (reflected) AND — its `AND`
    would be read as BETWEEN's own keyword, a re-tokenisation the operator-precedence model does not cover"""
    if ctor(e) == "between":
        lo = fields(e)["lo"]
        while ctor(lo) == "alias":
            lo = fields(lo)["a"]
        if ctor(lo) == "logicL" and fields(lo)["op"] == "and":
            return False
    return all(valid(ch) for _, ch in children(e))


def gen_case(rng: random.Random, max_depth: int = 4) -> dict:
    while True:
        ncols = rng.choice([2, 3, 3, 4])
        cols = rng.sample(list(COLS), ncols)
        g = TreeGen(rng, cols)
        ty = rng.choice(["bool", "bool", "bool", "int", "str"])
        d = rng.choice([2, 3, 3, 4, 4]) if max_depth >= 4 else max_depth
        e = g.expr(ty, d)
        if ctor(e) != "alias" and rng.random() < 0.25:
            e = N("alias", a=e, n=rng.choice(ALIASES))
        if valid(e):
            return {"e": e}


def base_cases() -> t.List[dict]:
    """every operator / method of the alphabet once, in each operand form"""
    x, y, s, u, p, q = (N("col", n=c) for c in "xysupq")

    def raw(v: t.Any) -> dict:
        e = N("lit", v=v)
        e["_raw"] = True
        return e

    out: t.List[t.Any] = []
    for op in ARITH:
        out += [N("arith", op=op, a=x, b=y), N("arith", op=op, a=x, b=raw(2)), N("arithL", op=op, v=3, b=y), N("arith", op=op, a=N("arith", op="sub", a=x, b=y), b=N("arith", op="add", a=y, b=raw(1)))]
    for op in CMP:
        out += [N("cmp", op=op, a=x, b=y), N("cmp", op=op, a=s, b=raw("a")), N("cmpL", op=op, v=1, b=x), N("cmpL", op=op, v="a", b=s), N("cmp", op=op, a=p, b=q)]
    for op in ("and", "or"):
        out += [N("logic", op=op, a=p, b=q), N("logic", op=op, a=p, b=raw(True)), N("logicL", op=op, v=True, b=q), N("logicL", op=op, v=False, b=q)]
        out += [N("logic", op=op, a=N("logic", op="or" if op == "and" else "and", a=p, b=q), b=N("not", a=p))]
    out += [N("neg", a=x), N("neg", a=N("neg", a=x)), N("not", a=p), N("not", a=N("not", a=p)), N("not", a=N("logic", op="or", a=p, b=q))]
    out += [N("isNull", a=x), N("isNotNull", a=s), N("isNull", a=N("arith", op="add", a=x, b=y)), N("eqNullSafe", a=x, b=y), N("eqNullSafe", a=s, b=raw("a")), N("eqNullSafe", a=p, b=q)]
    e = N("isin", a=x, vs=[0, 2])
    e2 = N("isin", a=s, vs=["a", None])
    e2["_list"] = True
    out += [e, e2, N("isin", a=p, vs=[True])]
    out += [N("between", a=x, lo=raw(0), hi=raw(2)), N("between", a=x, lo=y, hi=N("arith", op="add", a=y, b=raw(2))), N("between", a=s, lo=raw(""), hi=u)]
    out += [N("like", a=s, pat=pt) for pt in LIKE_PATS]
    out += [N("strFn", f="startswith", a=s, b=raw("a")), N("strFn", f="startswith", a=s, b=u), N("strFn", f="rlike", a=s, b=raw("a"))]
    out += [N("substr", a=s, st=raw(1), len=raw(1)), N("substr", a=s, st=N("lit", v=2), len=N("lit", v=2))]
    out += [N("when", c=p, v=x, rest="noElse"), N("when", c=p, v=raw(1), rest=N("otherwise", d=raw(0))), N("when", c=p, v=s, rest=N("when", c=q, v=raw("b"), rest=N("otherwise", d=u)))]
    out += [N("cast", a=x, ty="string"), N("cast", a=x, ty="bigint"), N("cast", a=p, ty="string"), N("cast", a=p, ty="bigint")]
    out += [N("alias", a=N("arith", op="add", a=x, b=y), n="r"), N("arith", op="add", a=N("alias", a=x, n="w"), b=y), N("alias", a=N("alias", a=x, n="w"), n="r")]
    out += [N("lit", v=None), N("lit", v=True), N("lit", v="a"), N("lit", v=-1), N("isNull", a=N("lit", v=None))]
    # compositions the property is about (in scope): mixed precedence, NOT over a compound, reflected forms
    out += [
        N("logic", op="and", a=N("cmp", op="gt", a=N("arith", op="mul", a=N("arith", op="add", a=x, b=raw(1)), b=raw(2)), b=y), b=N("not", a=N("like", a=s, pat="a%"))),
        N("not", a=N("logic", op="and", a=N("isNull", a=x), b=N("cmp", op="eq", a=y, b=raw(0)))),
        N("arithL", op="sub", v=1, b=N("arithL", op="sub", v=2, b=x)),
        N("logic", op="or", a=N("logic", op="and", a=p, b=q), b=N("isNull", a=p)),
        N("cmp", op="eq", a=N("neg", a=x), b=N("arith", op="mod", a=y, b=raw(2))),
    ]
    return [{"e": e, "origin": "base"} for e in out]


# ------------------------------------------------------------------------------------------------
# the real implementation
# ------------------------------------------------------------------------------------------------

_STATE: t.Dict[str, t.Any] = {}


def session() -> t.Any:
    if "s" not in _STATE:
        _STATE["s"] = vlib.fresh_duckdb_session()
        _STATE["tables"] = {}
    return _STATE["s"]


def conn() -> t.Any:
    s = session()
    return s._conn


def sql_lit(v: t.Any) -> str:
    if v is None:
        return "NULL"
    if isinstance(v, bool):
        return "TRUE" if v else "FALSE"
    if isinstance(v, int):
        return str(v) if v >= 0 else f"({v})"
    return "'" + str(v).replace("'", "''") + "'"


SQL_TY = {"int": "BIGINT", "str": "VARCHAR", "bool": "BOOLEAN"}


def pool_table(cols: t.List[str]) -> str:
    """a DuckDB table holding the cartesian product of the pools of `cols` (created once per column set)"""
    session()
    key = "_".join(cols) or "none"
    name = "c05_pool_" + key
    if name not in _STATE["tables"]:
        c = conn()
        if not cols:
            c.execute(f"CREATE TABLE {name} AS SELECT 0 AS z0")
        else:
            parts = []
            for col in cols:
                vals = ", ".join(f"(CAST({sql_lit(v)} AS {SQL_TY[COLS[col]]}))" for v in POOL[COLS[col]])
                parts.append(f"(VALUES {vals}) AS v_{col}({col})")
            c.execute(f"CREATE TABLE {name} AS SELECT * FROM " + ", ".join(parts))
        _STATE["tables"][name] = True
    return name


def to_column(e: t.Any, F: t.Any, check_immutable: bool = True) -> t.Any:
    """build the real sqlframe Column exactly as the user would write it"""
    c = ctor(e)
    f = fields(e)

    def operand(x: t.Any) -> t.Any:
        if ctor(x) == "lit" and x.get("_raw"):
            return fields(x)["v"]
        return to_column(x, F, check_immutable)

    def binop(op: str, a: t.Any, b: t.Any) -> t.Any:
        if op == "add":
            return a + b
        if op == "sub":
            return a - b
        if op == "mul":
            return a * b
        if op == "mod":
            return a % b
        if op == "eq":
            return a == b
        if op == "ne":
            return a != b
        if op == "lt":
            return a < b
        if op == "le":
            return a <= b
        if op == "gt":
            return a > b
        if op == "ge":
            return a >= b
        if op == "and":
            return a & b
        if op == "or":
            return a | b
        raise ValueError(op)

    if c == "col":
        return F.col(f["n"])
    if c == "lit":
        return F.lit(f["v"])
    kids = {}
    before = {}
    for k, ch in children(e):
        if k == "rest":
            continue
        v = operand(ch)
        kids[k] = v
        if check_immutable and hasattr(v, "expression"):
            before[k] = json.dumps(sexp(v.expression), sort_keys=True)
    if c in ("arith", "cmp", "logic"):
        out = binop(f["op"], kids["a"], kids["b"])
    elif c in ("arithL", "cmpL", "logicL"):
        out = binop(f["op"], f["v"], kids["b"])
    elif c == "neg":
        out = -kids["a"]
    elif c == "not":
        out = ~kids["a"]
    elif c == "isNull":
        out = kids["a"].isNull()
    elif c == "isNotNull":
        out = kids["a"].isNotNull()
    elif c == "eqNullSafe":
        out = kids["a"].eqNullSafe(kids["b"])
    elif c == "isin":
        out = kids["a"].isin(list(f["vs"])) if e.get("_list") else kids["a"].isin(*f["vs"])
    elif c == "between":
        out = kids["a"].between(kids["lo"], kids["hi"])
    elif c == "like":
        out = kids["a"].like(f["pat"])
    elif c == "strFn":
        out = getattr(kids["a"], f["f"])(kids["b"])
    elif c == "substr":
        out = kids["a"].substr(kids["st"], kids["len"])
    elif c == "when":
        # the chain is nested to the right in the tree; the receiver grows to the left in Python
        chain = [e]
        r = f["rest"]
        while ctor(r) == "when":
            chain.append(r)
            r = fields(r)["rest"]
        out = None
        for i, w in enumerate(chain):
            wf = fields(w)
            cc = kids["c"] if i == 0 else to_column(wf["c"], F, check_immutable)
            vv = kids["v"] if i == 0 else operand(wf["v"])
            if out is None:
                out = F.when(cc, vv)
            else:
                snap = json.dumps(sexp(out.expression), sort_keys=True)
                nxt = out.when(cc, vv)
                if check_immutable and json.dumps(sexp(out.expression), sort_keys=True) != snap:
                    raise AssertionError("Column.when mutated its receiver")
                out = nxt
        if ctor(r) == "otherwise":
            snap = json.dumps(sexp(out.expression), sort_keys=True)
            nxt = out.otherwise(operand(fields(r)["d"]))
            if check_immutable and json.dumps(sexp(out.expression), sort_keys=True) != snap:
                raise AssertionError("Column.otherwise mutated its receiver")
            out = nxt
        return out
    elif c == "cast":
        out = kids["a"].cast(f["ty"])
    elif c == "alias":
        out = kids["a"].alias(f["n"])
    elif c in ("noElse", "otherwise"):
        raise ValueError("a `when` tail outside a chain")
    else:
        raise ValueError(c)
    if check_immutable:
        for k, s0 in before.items():
            if json.dumps(sexp(kids[k].expression), sort_keys=True) != s0:
                raise AssertionError(f"building {c} mutated its operand {k}")
    return out


BIN_CLASSES = {"EQ", "NEQ", "GT", "GTE", "LT", "LTE", "And", "Or", "Add", "Sub", "Mul", "Div", "Mod", "NullSafeEQ", "Like", "ILike"}


def sexp(node: t.Any) -> t.Any:
    """canonical s-expression of a sqlglot tree in the vocabulary of `SqlExpr.toSexp`; anything else is opaque"""
    from sqlglot import expressions as exp

    k = type(node).__name__

    def extra(allowed: t.Set[str]) -> bool:
        return any(v is not None and v != [] and v is not False and a not in allowed for a, v in node.args.items())

    if isinstance(node, exp.Column):
        if extra({"this"}) or not isinstance(node.this, exp.Identifier):
            return ["raw", node.sql()]
        return ["Column", node.name]
    if isinstance(node, exp.Literal):
        if node.is_string:
            return ["Literal", {"s": node.this}]
        try:
            return ["Literal", int(node.this)]
        except ValueError:
            return ["raw", node.sql()]
    if isinstance(node, exp.Boolean):
        return ["Boolean", bool(node.this)]
    if isinstance(node, exp.Null):
        return ["Null"]
    if isinstance(node, exp.Paren):
        return ["Paren", sexp(node.this)]
    if k in BIN_CLASSES:
        if extra({"this", "expression"}):
            return ["raw", node.sql()]
        return [k, sexp(node.this), sexp(node.expression)]
    if k in ("Not", "Neg"):
        return [k, sexp(node.this)]
    if isinstance(node, exp.Is):
        return ["Is", sexp(node.this), sexp(node.expression)]
    if isinstance(node, exp.In):
        if extra({"this", "expressions"}):
            return ["raw", node.sql()]
        return ["In", sexp(node.this), [sexp(x) for x in node.expressions]]
    if isinstance(node, exp.Between):
        return ["Between", sexp(node.this), sexp(node.args["low"]), sexp(node.args["high"])]
    if isinstance(node, exp.StartsWith):
        return ["Fn", "StartsWith", sexp(node.this), sexp(node.expression)]
    if isinstance(node, exp.RegexpLike):
        if extra({"this", "expression"}):
            return ["raw", node.sql()]
        return ["Fn", "RegexpLike", sexp(node.this), sexp(node.expression)]
    if isinstance(node, exp.Substring):
        return ["Fn", "Substring", sexp(node.this), sexp(node.args["start"]), sexp(node.args["length"])]
    if isinstance(node, exp.Anonymous):
        name = str(node.this).upper()
        tag = "Anonymous:" + name
        if name == "ENDS_WITH" and _STATE.get("endswithViaSession"):
            tag = "Session:endswith"
        return ["Fn", tag] + [sexp(x) for x in node.expressions]
    if isinstance(node, exp.Case):
        if node.args.get("this") is not None:
            return ["raw", node.sql()]
        d = node.args.get("default")
        tail: t.Any = ["CaseElse", sexp(d)] if d is not None else ["CaseEnd"]
        for i in reversed(node.args.get("ifs") or []):
            tail = ["CaseWhen", sexp(i.this), sexp(i.args["true"]), tail]
        return tail
    if isinstance(node, exp.Cast):
        to = node.args["to"]
        if to.expressions or type(node) is not exp.Cast:
            return ["raw", node.sql()]
        return ["Cast", sexp(node.this), to.this.name]
    if isinstance(node, exp.Alias):
        # the `@meta` decorator's automatic display alias (`when__<identifier>__`); its spelling is C10's business
        name = node.alias
        return ["Alias", sexp(node.this), "<auto>" if name.startswith("when__") and name.endswith("__") else name]
    return ["raw", node.sql()]


SQL_BIN = {"EQ": "=", "NEQ": "<>", "GT": ">", "GTE": ">=", "LT": "<", "LTE": "<=", "And": "AND", "Or": "OR", "Add": "+", "Sub": "-", "Mul": "*", "Mod": "%", "NullSafeEQ": "IS NOT DISTINCT FROM", "Like": "LIKE"}
SQL_FN = {"StartsWith": "STARTS_WITH", "RegexpLike": "REGEXP_MATCHES", "Substring": "SUBSTRING", "Session:endswith": "ENDS_WITH"}


def render_full(s: t.Any) -> str:
    """DuckDB text of a model tree with *every* compound node parenthesised: the engine can only group it as the tree is"""
    h = s[0]
    if h == "Column":
        return f'"{s[1]}"'
    if h == "Literal":
        return sql_lit(s[1]["s"] if isinstance(s[1], dict) else s[1])
    if h == "Boolean":
        return "TRUE" if s[1] else "FALSE"
    if h == "Null":
        return "NULL"
    if h == "Paren":
        return "(" + render_full(s[1]) + ")"
    if h in SQL_BIN:
        return f"({render_full(s[1])} {SQL_BIN[h]} {render_full(s[2])})"
    if h == "Not":
        return f"(NOT {render_full(s[1])})"
    if h == "Neg":
        return f"(- {render_full(s[1])})"
    if h == "Is":
        return f"({render_full(s[1])} IS NULL)"
    if h == "In":
        return f"({render_full(s[1])} IN ({', '.join(render_full(x) for x in s[2])}))"
    if h == "Between":
        return f"({render_full(s[1])} BETWEEN {render_full(s[2])} AND {render_full(s[3])})"
    if h == "Fn":
        name = SQL_FN.get(s[1]) or s[1].split(":", 1)[-1]
        return f"{name}({', '.join(render_full(x) for x in s[2:])})"
    if h == "CaseWhen":
        out = "CASE"
        while s[0] == "CaseWhen":
            out += f" WHEN {render_full(s[1])} THEN {render_full(s[2])}"
            s = s[3]
        if s[0] == "CaseElse":
            out += f" ELSE {render_full(s[1])}"
        elif s[0] != "CaseEnd":
            raise ValueError("malformed CASE chain")
        return out + " END"
    if h == "CaseEnd":
        return "NULL"
    if h == "CaseElse":
        return render_full(s[1])
    if h == "Cast":
        return f"CAST({render_full(s[1])} AS {s[2]})"
    if h == "Alias":
        return render_full(s[1])
    raise ValueError(f"cannot render {s!r}")


def err_kind(ex: BaseException) -> str:
    n = type(ex).__name__
    return {"ParserException": "syntax", "CatalogException": "function"}.get(n, n)


def row_key(vals: t.Sequence[t.Any]) -> str:
    return json.dumps([plain_or_repr(v) for v in vals], sort_keys=True)


def plain_or_repr(v: t.Any) -> t.Any:
    try:
        return plain(v)
    except TypeError:
        return {"repr": repr(v)}


def run_impl(case: dict) -> dict:
    """the real side of one case: structure of the Column, and the values DuckDB returns through sqlframe"""
    from sqlframe.duckdb import functions as F

    e = case["e"]
    cols = case["cols"]
    out: t.Dict[str, t.Any] = {}
    try:
        column = to_column(e, F)
    except Exception as ex:  # noqa
        return {"build_err": f"{type(ex).__name__}: {str(ex)[:200]}"}
    expr = column.expression
    out["sexp"] = sexp(expr)
    out["sql"] = expr.sql(dialect="duckdb")
    df = session().table(pool_table(cols))
    try:
        rows = df.select(*[F.col(c) for c in cols], column).collect()
        res = {}
        for r in rows:
            vals = list(r)
            k = row_key(vals[: len(cols)])
            v = plain_or_repr(vals[len(cols)])
            if k in res and res[k] != v:
                out["nondeterministic"] = True
            res[k] = v
        out["rows"] = res
    except Exception as ex:  # noqa
        out["err"] = err_kind(ex)
        out["err_text"] = f"{type(ex).__name__}: {str(ex).splitlines()[0][:160]}"
    return out


def run_engine(case: dict, engine_sexp: t.Any) -> dict:
    """DuckDB on the model's engine tree, rendered so that no regrouping is possible"""
    cols = case["cols"]
    try:
        text = render_full(engine_sexp)
    except Exception as ex:  # noqa
        return {"err": "render", "err_text": str(ex)}
    q = "SELECT " + ", ".join([f'"{c}"' for c in cols] + [text + " AS r_"]) + " FROM " + pool_table(cols)
    try:
        rows = conn().execute(q).fetchall()
    except Exception as ex:  # noqa
        return {"err": err_kind(ex), "err_text": f"{type(ex).__name__}: {str(ex).splitlines()[0][:160]}", "sql": text}
    res = {}
    for r in rows:
        res[row_key(list(r[: len(cols)]))] = plain_or_repr(r[len(cols)])
    return {"rows": res, "sql": text}


def keyed(case: dict, values: t.List[t.Any]) -> t.Dict[str, t.Any]:
    """the driver's per-row list (cartesian product, first column slowest) keyed like the implementation's rows"""
    cols = case["cols"]
    prod = list(itertools.product(*[POOL[COLS[c]] for c in cols]))
    if len(prod) != len(values):
        raise RuntimeError(f"driver returned {len(values)} rows for {len(prod)} environments")
    return {row_key(list(r)): v for r, v in zip(prod, values)}


def case_to_lean(i: int, case: dict) -> dict:
    return {"case": i, "e": strip(case["e"]), "cols": [{"n": c, "pool": [lval(v) for v in POOL[COLS[c]]]} for c in case["cols"]]}


def prepare(case: dict) -> dict:
    case = dict(case)
    if "cols" not in case:
        case["cols"] = sorted(cols_of(case["e"]), key=list(COLS).index)
    return case


def evaluate(cases: t.List[dict]) -> t.List[dict]:
    cases = [prepare(c) for c in cases]
    outs = vlib.run_driver("C05", [case_to_lean(i, c) for i, c in enumerate(cases)])
    res = []
    for c, o in zip(cases, outs):
        if "err" in o:
            raise RuntimeError(f"driver rejected a case: {o} :: {json.dumps(strip(c['e']))[:300]}")
        impl = run_impl(c)
        spec = keyed(c, o["spec"])
        model = keyed(c, o["model"])
        r: t.Dict[str, t.Any] = {"case": c, "impl": impl, "driver": {k: o[k] for k in ("build", "engine", "fnsOK", "wellParen", "scope")}}
        # A — structure
        r["struct_ok"] = "sexp" in impl and impl["sexp"] == o["build"]
        # B — engine grouping
        if "build_err" in impl:
            r["engine_ok"] = False
            eng: t.Dict[str, t.Any] = {}
        elif o["engine"] is None:
            eng = {"err": "syntax"}
            r["engine_ok"] = impl.get("err") == "syntax"
        elif not o["fnsOK"]:
            eng = {"err": "function"}
            r["engine_ok"] = impl.get("err") == "function"
        else:
            eng = run_engine(c, o["engine"])
            if "err" in eng or "err" in impl:
                r["engine_ok"] = eng.get("err") is not None and eng.get("err") == impl.get("err")
            else:
                r["engine_ok"] = eng["rows"] == impl["rows"]
        r["engine"] = eng
        # S — meaning
        r["spec_ok"] = "rows" in impl and impl["rows"] == spec and not impl.get("nondeterministic")
        # in scope the Lean evaluation of the engine tree is the implementation's value as well
        r["model_ok"] = bool(o["scope"]) or ("rows" in impl and impl["rows"] == model)
        r["spec"] = spec
        r["mirror_ok"] = py_spec(c) == spec
        res.append(r)
    return res


def first_diff(r: dict) -> t.Optional[dict]:
    impl = r["impl"]
    if "rows" not in impl:
        return {"row": None, "implementation": impl.get("err_text") or impl.get("build_err"), "specification": "a value for every row"}
    for k, v in r["spec"].items():
        if impl["rows"].get(k, "<missing>") != v:
            return {"row": dict(zip(r["case"]["cols"], json.loads(k))), "implementation": impl["rows"].get(k, "<missing>"), "specification": v}
    return None


# ------------------------------------------------------------------------------------------------
# Python mirror of `denote` and of the pattern part of the scope hypotheses.
# Used (a) as a cross-check of the driver's `spec` on every case (a drift is a broken obligation) and
# (b) as the specification of the failing-input search when the Lean model no longer builds
# (e.g. the source left the translator's sub-language), so that a concrete input can still be reported.
# ------------------------------------------------------------------------------------------------


def _and3(a: t.Any, b: t.Any) -> t.Any:
    if a is False or b is False:
        return False
    if a is True and b is True:
        return True
    return None


def _or3(a: t.Any, b: t.Any) -> t.Any:
    if a is True or b is True:
        return True
    if a is False and b is False:
        return False
    return None


def _not3(a: t.Any) -> t.Any:
    return (not a) if isinstance(a, bool) else None


def _same_type(a: t.Any, b: t.Any) -> bool:
    return a is not None and b is not None and type(a) is type(b)


def _cmp(op: str, a: t.Any, b: t.Any) -> t.Any:
    if not _same_type(a, b):
        return None
    return {"eq": a == b, "ne": a != b, "lt": a < b, "le": a <= b, "gt": a > b, "ge": a >= b}[op]


def _tmod(a: int, b: int) -> int:
    r = abs(a) % abs(b)
    return -r if a < 0 else r


def _arith(op: str, a: t.Any, b: t.Any) -> t.Any:
    if isinstance(a, bool) or isinstance(b, bool) or not isinstance(a, int) or not isinstance(b, int):
        return None
    if op == "add":
        return a + b
    if op == "sub":
        return a - b
    if op == "mul":
        return a * b
    return None if b == 0 else _tmod(a, b)


def _like(pat: str, sv: str) -> bool:
    if not pat:
        return not sv
    if pat[0] == "%":
        return any(_like(pat[1:], sv[i:]) for i in range(len(sv) + 1))
    return bool(sv) and (pat[0] == "_" or pat[0] == sv[0]) and _like(pat[1:], sv[1:])


def py_denote(env: t.Dict[str, t.Any], e: t.Any) -> t.Any:
    c = ctor(e)
    f = fields(e)
    D = lambda x: py_denote(env, x)  # noqa
    if c == "col":
        return env.get(f["n"])
    if c == "lit":
        return f["v"]
    if c == "arith":
        return _arith(f["op"], D(f["a"]), D(f["b"]))
    if c == "arithL":
        return _arith(f["op"], f["v"], D(f["b"]))
    if c == "cmp":
        return _cmp(f["op"], D(f["a"]), D(f["b"]))
    if c == "cmpL":
        return _cmp(f["op"], f["v"], D(f["b"]))
    if c == "logic":
        return (_and3 if f["op"] == "and" else _or3)(*[x if isinstance(x, bool) else None for x in (D(f["a"]), D(f["b"]))])
    if c == "logicL":
        return (_and3 if f["op"] == "and" else _or3)(*[x if isinstance(x, bool) else None for x in (f["v"], D(f["b"]))])
    if c == "neg":
        v = D(f["a"])
        return -v if isinstance(v, int) and not isinstance(v, bool) else None
    if c == "not":
        return _not3(D(f["a"]))
    if c == "isNull":
        return D(f["a"]) is None
    if c == "isNotNull":
        return D(f["a"]) is not None
    if c == "eqNullSafe":
        a, b = D(f["a"]), D(f["b"])
        return (a is None and b is None) or (_same_type(a, b) and a == b)
    if c == "isin":
        v = D(f["a"])
        if v is None:
            return None
        if any(_same_type(v, x) and v == x for x in f["vs"]):
            return True
        return None if any(x is None for x in f["vs"]) else False
    if c == "between":
        a = D(f["a"])
        return _and3(_cmp("ge", a, D(f["lo"])), _cmp("le", a, D(f["hi"])))
    if c == "like":
        v = D(f["a"])
        return _like(f["pat"], v) if isinstance(v, str) else None
    if c == "strFn":
        a, b = D(f["a"]), D(f["b"])
        if not isinstance(a, str) or not isinstance(b, str):
            return None
        return {"startswith": a.startswith(b), "endswith": a.endswith(b), "rlike": b in a}[f["f"]]
    if c == "substr":
        a, st, ln = D(f["a"]), D(f["st"]), D(f["len"])
        if not isinstance(a, str) or isinstance(st, bool) or isinstance(ln, bool) or not isinstance(st, int) or not isinstance(ln, int):
            return None
        return a[max(st - 1, 0) :][: max(ln, 0)]
    if c == "when":
        return D(f["v"]) if D(f["c"]) is True else D(f["rest"])
    if c == "noElse":
        return None
    if c == "otherwise":
        return D(f["d"])
    if c == "cast":
        v = D(f["a"])
        if f["ty"] == "string":
            return None if v is None else ("true" if v is True else "false" if v is False else str(v))
        return None if v is None or isinstance(v, str) else int(v)
    if c == "alias":
        return D(f["a"])
    raise ValueError(c)


def py_spec(case: dict) -> t.Dict[str, t.Any]:
    cols = case["cols"]
    out = {}
    for r in itertools.product(*[POOL[COLS[c]] for c in cols]):
        out[row_key(list(r))] = plain(py_denote(dict(zip(cols, r)), case["e"]))
    return out


def _core(e: t.Any) -> t.Any:
    while ctor(e) == "alias":
        e = fields(e)["a"]
    return e


def _atomic_py(e: t.Any) -> bool:
    return ctor(_core(e)) in ("col", "lit", "arith", "arithL", "logic", "neg", "strFn", "substr", "when", "noElse", "otherwise", "cast")


def py_in_scope(e: t.Any) -> bool:
    """the pattern part of every scope hypothesis (as if no cause were repaired in the source): conservative"""
    c = ctor(e)
    f = fields(e)
    if c in ("arith", "cmp", "eqNullSafe") and not (_atomic_py(f["a"]) and _atomic_py(f["b"])):
        return False
    if c in ("arithL", "cmpL") and not _atomic_py(f["b"]):
        return False
    if c in ("isNull", "isNotNull", "isin", "like") and not _atomic_py(f["a"]):
        return False
    if c == "between":
        if not all(_atomic_py(f[k]) for k in ("a", "lo", "hi")) or any(ctor(f[k]) in ("alias", "when") for k in ("lo", "hi")):
            return False
    if c in ("logic", "logicL") and any(ctor(_core(ch)) == "logicL" for _, ch in children(e)):
        return False
    if c == "strFn" and f["f"] == "endswith":
        return False
    return all(py_in_scope(ch) for _, ch in children(e))


def evaluate_without_model(cases: t.List[dict]) -> t.List[dict]:
    """implementation vs the Python mirror of the specification, on cases inside the pattern scope"""
    res = []
    for c in cases:
        c = prepare(c)
        if not py_in_scope(c["e"]):
            continue
        try:
            impl = run_impl(c)
        except Exception as ex:  # noqa
            impl = {"build_err": f"{type(ex).__name__}: {str(ex)[:200]}"}
        spec = py_spec(c)
        ok = "rows" in impl and impl["rows"] == spec
        res.append(
            {
                "case": c,
                "impl": impl,
                "spec": spec,
                "spec_ok": ok,
                "struct_ok": True,
                "engine_ok": True,
                "model_ok": True,
                "engine": {},
                "driver": {"build": None, "engine": None, "fnsOK": None, "wellParen": None, "scope": []},
                "no_model": True,
            }
        )
    return res


# ------------------------------------------------------------------------------------------------
# known findings, classification, shrinking
# ------------------------------------------------------------------------------------------------


def load_known() -> t.Dict[str, dict]:
    known = {e["id"]: e for e in vlib.known_findings(ID)}
    extra = os.path.join(os.path.dirname(os.path.abspath(__file__)), "c05.known.json")
    if os.path.exists(extra):
        for e in json.load(open(extra)).get("findings", []):
            if e.get("property") == ID and e.get("status") == "open":
                known.setdefault(e["id"], e)
    return known


def classify(r: dict, known: t.Dict[str, dict]) -> str:
    """ok | known | violation"""
    if r["struct_ok"] and r["engine_ok"] and r["spec_ok"] and r["model_ok"]:
        return "ok"
    sc = r["driver"]["scope"]
    if (not r["spec_ok"]) and r["struct_ok"] and r["engine_ok"] and sc and all(h in known for h in sc):
        return "known"
    if r["spec_ok"] and r["struct_ok"] and r["engine_ok"] and r["model_ok"]:
        return "ok"
    return "violation"


def subtrees(e: t.Any) -> t.List[t.Any]:
    out = [e]
    for _, ch in children(e):
        out += subtrees(ch)
    return out


def replace_at(e: t.Any, path: t.List[str], new: t.Any) -> t.Any:
    if not path:
        return new
    c = ctor(e)
    f = dict(e[c])
    f[path[0]] = replace_at(f[path[0]], path[1:], new)
    out = {k: v for k, v in e.items()}
    out[c] = f
    return out


def paths(e: t.Any, pre: t.Optional[t.List[str]] = None) -> t.List[t.Tuple[t.List[str], t.Any]]:
    pre = pre or []
    out = [(pre, e)]
    for k, ch in children(e):
        out += paths(ch, pre + [k])
    return out


def shrink_candidates(e: t.Any) -> t.List[t.Any]:
    cands = []
    for path, sub in paths(e):
        if ctor(sub) in ("noElse", "otherwise"):
            continue
        if ctor(sub) == "when" and ctor(fields(sub)["rest"]) == "when":
            cands.append(replace_at(e, path, {"when": dict(fields(sub), rest=fields(fields(sub)["rest"])["rest"])}))
        if path and path[-1] == "rest":
            continue  # the tail of a chain stays a tail
        ty = type_of(sub)
        # a descendant of the same type in its place
        for d in subtrees(sub)[1:]:
            if ctor(d) not in ("noElse", "otherwise") and type_of(d) == ty and not (ctor(d) == "lit" and fields(d)["v"] is None):
                cands.append(replace_at(e, path, d))
        if ctor(sub) not in ("col", "lit"):
            for leaf in [N("col", n=next(c for c, k in COLS.items() if k == ty))]:
                cands.append(replace_at(e, path, leaf))
    seen = set()
    out = []
    for c in cands:
        k = json.dumps(c, sort_keys=True)
        if k not in seen and size(c) < size(e) and valid(c):
            seen.add(k)
            out.append(c)
    out.sort(key=size)
    return out[:80]


def shrink(case: dict, known: t.Dict[str, dict], rounds: int = 10, no_model: bool = False) -> dict:
    best = prepare({"e": case["e"]})
    for _ in range(rounds):
        cands = [{"e": e} for e in shrink_candidates(best["e"])]
        if not cands:
            break
        try:
            res = evaluate_without_model(cands) if no_model else evaluate(cands)
        except Exception as ex:  # noqa
            log("shrink: evaluation failed:", ex)
            break
        nxt = next((r["case"] for r in res if classify(r, known) == "violation"), None)
        if nxt is None:
            break
        best = nxt
    return best


def replay_dict(r: dict, ctx: Ctx) -> dict:
    c = r["case"]
    return {
        "kind": "Column expression does not evaluate to the tree the user wrote"
        if r["struct_ok"] and r["engine_ok"]
        else "implementation and model disagree (structure of Column.expression or engine grouping)",
        "program": show(c["e"]),
        "case": {"e": c["e"], "cols": c["cols"]},
        "sql": r["impl"].get("sql"),
        "first_difference": first_diff(r),
        "implementation_error": r["impl"].get("err_text") or r["impl"].get("build_err"),
        "structure_matches_model": r["struct_ok"],
        "implementation_sexp": r["impl"].get("sexp"),
        "model_sexp": r["driver"]["build"],
        "engine_grouping_matches_model": r["engine_ok"],
        "model_engine_tree": r["driver"]["engine"],
        "violated_scope_hypotheses": r["driver"]["scope"],
        "broken": ctx.broken,
    }


# ------------------------------------------------------------------------------------------------
# generated table vs the running code
# ------------------------------------------------------------------------------------------------


def check_table_live(ctx: Ctx) -> int:
    """every entry of Gen.ColumnOps against the live method applied to two distinct columns"""
    import gen_c05
    from sqlglot import expressions as exp
    from sqlframe.duckdb import functions as F

    session()
    d = gen_c05.extract(vlib.REPO)
    _STATE["endswithViaSession"] = d["methods"]["endswith"]["viaSession"]
    bad = []
    n = 0
    for m, r in d["ops"].items():
        a, b = F.col("a"), F.col("b")
        try:
            fn = getattr(type(a), m)
            out = fn(a) if r["helper"] == "unaryOp" else fn(a, b)
        except Exception as ex:  # noqa
            bad.append(f"{m}: raised {type(ex).__name__}")
            continue
        n += 1
        node = out.expression
        paren = isinstance(node, exp.Paren)
        if paren:
            node = node.this
        if paren != r["paren"]:
            bad.append(f"{m}: paren={paren} but the translator extracted {r['paren']}")
        if type(node).__name__ != r["klass"]:
            bad.append(f"{m}: class {type(node).__name__} but the translator extracted {r['klass']}")
        if r["helper"] == "unaryOp":
            inner = node.this
            if isinstance(inner, exp.Paren) != d["unaryWrapsParen"]:
                bad.append(f"{m}: operand Paren={isinstance(inner, exp.Paren)} but unaryWrapsParen={d['unaryWrapsParen']}")
        else:
            self_first = {"binaryOp": d["helpers"]["binary_op"]["thisIsSelf"], "inverseBinaryOp": d["helpers"]["inverse_binary_op"]["thisIsSelf"], "direct": r.get("selfFirst")}[r["helper"]]
            left = node.this.name if isinstance(node.this, exp.Column) else None
            if (left == "a") != bool(self_first):
                bad.append(f"{m}: left operand is {left!r} but the translator extracted selfFirst={self_first}")
    # _operand / subjectWrap flags: a compound subject is parenthesised iff the translator says so
    pred = F.col("a") == F.col("b")
    for m, call in {
        "isNull": lambda c: c.isNull().expression.this,
        "isNotNull": lambda c: c.isNotNull().expression.this.this,
        "isin": lambda c: c.isin(True).expression.this,
        "between": lambda c: c.between(False, True).expression.this,
        "like": lambda c: c.like("a").expression.this,
    }.items():
        n += 1
        got = isinstance(call(pred), exp.Paren)
        if got != bool(d["methods"][m]["subjectWrap"]):
            bad.append(f"{m}: compound subject parenthesised={got} but the translator extracted subjectWrap={d['methods'][m]['subjectWrap']}")
    got = isinstance((pred == F.col("c")).expression.this, exp.Paren)
    n += 1
    if got != d["helpers"]["binary_op"]["wrap"]:
        bad.append(f"binary_op: compound operand parenthesised={got} but the translator extracted wrap={d['helpers']['binary_op']['wrap']}")
    got = isinstance(F.col("a").between(F.col("b").alias("n"), 1).expression.args["low"], exp.Alias)
    n += 1
    if got == d["methods"]["between"]["boundsUnalias"]:
        bad.append(f"between: bound keeps its alias={got} but the translator extracted boundsUnalias={d['methods']['between']['boundsUnalias']}")
    for b in bad:
        ctx.broken.append("Gen.ColumnOps disagrees with the running code: " + b)
    return n


# ------------------------------------------------------------------------------------------------
# the check
# ------------------------------------------------------------------------------------------------


def corpus_cases() -> t.List[dict]:
    out = []
    d = os.path.join(vlib.VERIF, "corpus", ID)
    if os.path.isdir(d):
        for fn in sorted(os.listdir(d)):
            if fn.endswith(".json"):
                c = json.load(open(os.path.join(d, fn)))
                out.append({"e": c["e"], "origin": "corpus:" + fn})
    return out


def cases_for(ctx: Ctx) -> t.List[dict]:
    cases = corpus_cases() + base_cases()
    n = 6000 if ctx.thorough else 450
    for _ in range(n):
        c = gen_case(ctx.rng)
        c["origin"] = "random"
        cases.append(c)
    return cases


def run(ctx: Ctx) -> None:
    idx = vlib.props_index()[ID]
    vlib.prove(ctx, MODULES, GEN, idx["theorems"], SOURCES)
    known = load_known()

    try:
        n_table = check_table_live(ctx)
    except Exception as ex:  # noqa  (Untranslatable: already recorded by prove as a broken obligation)
        n_table = 0
        if not any("untranslatable" in b for b in ctx.broken):
            ctx.broken.append(f"Gen.ColumnOps cannot be compared with the running code: {type(ex).__name__}: {str(ex)[:200]}")
    cases = cases_for(ctx)
    no_model = False
    try:
        res = evaluate(cases)
    except RuntimeError as ex:
        # the model no longer builds (e.g. the source left the translator's sub-language): the proof obligation is
        # broken and there is no model to compare with; search for a failing input against the Python mirror of `denote`
        ctx.broken.append(f"Lean driver unavailable: {str(ex)[:300]}")
        no_model = True
        res = evaluate_without_model(cases)

    hist: t.Dict[str, int] = {}
    depth_hist: t.Dict[int, int] = {}
    nontrivial = set()
    counts = {"ok": 0, "known": 0, "violation": 0}
    n_struct = n_engine = n_spec = n_out_scope = n_syntax = n_notwp = 0
    viol: t.List[dict] = []
    known_hits: t.Dict[str, int] = {}
    for r in res:
        c = r["case"]
        kinds_of(c["e"], hist)
        dp = depth(c["e"])
        depth_hist[dp] = depth_hist.get(dp, 0) + 1
        n_struct += r["struct_ok"]
        n_engine += r["engine_ok"]
        n_spec += r["spec_ok"]
        n_out_scope += bool(r["driver"]["scope"])
        n_notwp += not r["driver"]["wellParen"]
        n_syntax += r["driver"]["engine"] is None
        if "rows" in r["impl"] and len(set(json.dumps(v, sort_keys=True) for v in r["impl"]["rows"].values())) > 1 and size(c["e"]) > 2:
            nontrivial.add(vlib.digest(strip(c["e"])))
        k = classify(r, known)
        counts[k] += 1
        if k == "known":
            for h in r["driver"]["scope"]:
                known_hits[h] = known_hits.get(h, 0) + 1
        elif k == "violation":
            viol.append(r)

    for h in known_hits:
        vlib.report_known(ctx, known[h], known[h]["summary"])

    # known findings: replay the recorded witnesses on the real code
    for h, e in known.items():
        w = e.get("witness")
        if w and res and not no_model:
            try:
                r = evaluate([{"e": w["e"]}])[0]
            except Exception as ex:  # noqa
                log(f"witness of {h} cannot be evaluated: {ex}")
                continue
            if not r["spec_ok"] and classify(r, known) == "known":
                vlib.report_known(ctx, e, e["summary"])
            elif not r["spec_ok"]:
                viol.append(r)

    n_mirror = sum(1 for r in res if not r.get("mirror_ok", True))
    if n_mirror:
        ctx.broken.append(f"the Python mirror of `denote` (fallback specification) disagrees with the Lean specification on {n_mirror} cases")
    n_model_mismatch = sum(1 for r in res if not (r["struct_ok"] and r["engine_ok"] and r["model_ok"]))
    if n_model_mismatch:
        ctx.broken.append(f"correspondence (implementation vs Impl/C05Column.lean + C05Engine.lean): {n_model_mismatch} of {len(res)} cases differ")

    reported = 0
    seen_progs = set()
    for r in viol:
        if reported >= 3:
            break
        small = shrink(r["case"], known, no_model=no_model)
        try:
            rr = (evaluate_without_model([small]) if no_model else evaluate([small]))[0]
        except Exception:  # noqa
            rr = r
        if classify(rr, known) != "violation":
            rr = r
        prog = show(rr["case"]["e"])
        if prog in seen_progs:
            continue
        seen_progs.add(prog)
        vlib.report_violation(ctx, replay_dict(rr, ctx))
        reported += 1
    if ctx.broken and not reported:
        vlib.report_violation(
            ctx,
            {"kind": "proof obligation or correspondence no longer checks; no failing input found", "broken": ctx.broken, "searched": {"cases": len(res), "node_kinds": hist}},
            no_input=True,
        )

    step = max(1, len(res) // 4)
    ctx.cov.update(
        {
            "evaluations": len(res),
            "row_evaluations": sum(len(r["spec"]) for r in res),
            "distinct_nontrivial": len(nontrivial),
            "rule": "corpus (defect witnesses), then every operator/method of the alphabet in each operand form, then seeded random typed "
            "trees of depth ≤ 4 over 2–4 of the columns x,y:int s,u:str p,q:bool; every tree is evaluated on the full cartesian product of the "
            "value pools {NULL,0,-1,2}/{NULL,'','a'}/{NULL,TRUE,FALSE} of its columns; non-trivial = distinct trees with more than two nodes "
            "whose implementation result is not constant over the rows",
            "traces_validated_against_impl": sum(1 for r in res if r["struct_ok"] and r["engine_ok"] and r["model_ok"]),
            "structure_agree": n_struct,
            "engine_grouping_agree": n_engine,
            "impl_vs_spec_agree": n_spec,
            "out_of_scope_cases": n_out_scope,
            "not_well_parenthesised": n_notwp,
            "model_predicts_syntax_error": n_syntax,
            "classification": counts,
            "known_finding_hits": known_hits,
            "gen_table_entries_checked_live": n_table,
            "specification_source": "python mirror (Lean model unavailable)" if no_model else "Lean driver (denote); python mirror cross-checked on every case",
            "node_kind_histogram": dict(sorted(hist.items())),
            "depth_histogram": {str(k): v for k, v in sorted(depth_hist.items())},
            "samples": [{"program": show(r["case"]["e"]), "sql": r["impl"].get("sql"), "scope": r["driver"]["scope"], "agrees_with_spec": r["spec_ok"]} for r in res[::step][:4]],
        }
    )
    ctx.assumptions += [
        "sqlglot's DuckDB generator renders the tree verbatim: it adds and drops no parentheses (validated per case: DuckDB on sqlframe's text equals DuckDB on the fully parenthesised model tree)",
        "DuckDB's grammar groups operators by the level table of Impl/C05Engine.lean (OR<AND<NOT<IS<comparison<BETWEEN/IN/LIKE<+-<*/%<unary minus; comparison, IS, BETWEEN/IN/LIKE levels non-associative), validated per case by the same comparison",
        "scalar operator meanings of Impl/C05Column.lean (3VL, comparisons, %, LIKE without escape, metacharacter-free REGEXP_MATCHES, SUBSTRING with start ≥ 1, CAST to TEXT/BIGINT) are DuckDB's and Spark's on the value pool (validated against DuckDB per row; division, pow, getItem/getField, cast string→int are outside the modelled alphabet)",
        "Python evaluates `v < col` as `col > v` (reflected comparison), `v + col` as `col.__radd__(v)`",
    ]


def replay(ctx: Ctx, rp: dict) -> None:
    c = rp.get("case")
    if not c:
        print("replay names a broken obligation, not an input:", rp.get("broken"))
        return
    known = load_known()
    # the model must be the one of the tree being replayed on: regenerate Gen and rebuild the driver's modules
    with vlib.lean_lock():
        vlib.translate()
        ok, out = vlib.lake_build(["SqlframeModel.Codec.C05"])
    if not ok:
        log(out[-1500:])
    try:
        check_table_live(ctx)
        r = evaluate([{"e": c["e"]}])[0]
    except Exception as ex:  # noqa  (no model for this tree: fall back to the Python mirror of the specification)
        log(f"model unavailable ({type(ex).__name__}: {str(ex)[:200]}); replaying against the Python mirror of `denote`")
        rs = evaluate_without_model([{"e": c["e"]}])
        if not rs:
            print("the input is outside the pattern scope; it cannot be judged without the model")
            return
        r = rs[0]
    print(
        json.dumps(
            {
                "program": show(c["e"]),
                "sql": r["impl"].get("sql"),
                "implementation": r["impl"].get("rows") if "rows" in r["impl"] else r["impl"].get("err_text") or r["impl"].get("build_err"),
                "first_difference": first_diff(r),
                "structure_matches_model": r["struct_ok"],
                "engine_grouping_matches_model": r["engine_ok"],
                "agrees_with_specification": r["spec_ok"],
                "violated_scope_hypotheses": r["driver"]["scope"],
                "classification": classify(r, known),
            },
            indent=1,
            default=str,
        )
    )
    if classify(r, known) == "violation":
        vlib.report_violation(ctx, replay_dict(r, ctx))
